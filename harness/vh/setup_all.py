"""Regenerate all Gen/*.v from the current /repo and build the complete Coq project (full .vo)."""
import importlib
import os
import pkgutil
import sys

sys.path.insert(0, os.path.dirname(os.path.dirname(os.path.abspath(__file__))))

from vh import core, props  # noqa: E402
from vh.translate import TranslateError, write_if_changed  # noqa: E402


def main():
    coq_dir = os.path.join(core.VERIF, "coq")
    os.makedirs(os.path.join(coq_dir, "Gen"), exist_ok=True)
    rc = 0
    claimed_targets = []
    for m in sorted(pkgutil.iter_modules(props.__path__), key=lambda m: m.name):
        try:
            mod = importlib.import_module(f"vh.props.{m.name}")
        except Exception as exc:  # a work-in-progress module must not break setup
            print(f"setup: cannot import vh.props.{m.name}: {exc}")
            continue
        prop = getattr(mod, "PROP", None)
        if prop is None:
            continue
        claimed = getattr(mod, "MANIFEST_ENTRY", None) is not None and prop.id in core.claimed_ids()
        if claimed:
            claimed_targets += list(prop.coq_targets)
        ctx = core.Ctx(prop.id, "quick", 0)
        try:
            for rel, text in prop.translate(ctx).items():
                write_if_changed(os.path.join(coq_dir, rel), text)
        except TranslateError as exc:
            print(f"setup: translator for {prop.id} failed closed: {exc}")
            if claimed:
                rc = 1
        finally:
            ctx.cleanup()
    core.ensure_makefile(coq_dir)
    # claimed properties must build; everything else (work in progress) is built best-effort
    ok, log = core.coq_build(coq_dir, claimed_targets, timeout=3000)
    print(log[-3000:])
    if not ok:
        rc = 1
    ok2, log2 = core.coq_build(coq_dir, ["-k", "all"], timeout=3000)
    if not ok2:
        print("setup: some unclaimed (work in progress) files do not build:\n" + log2[-1500:])
    sys.exit(rc)


if __name__ == "__main__":
    main()
