"""C18 T1: read, from the current pyscript source, the exception class named by the except clause of every
user-code entry point and the shape of EvalExceptionFormatter -> Gen/ErrorConsts.v.  Fail closed on any other shape."""
import ast

from .translate import TranslateError, find_class, find_func, one, parse_file, walk_find


def _calls_attr(node, names):
    """does the subtree contain a call `<x>.<name>(...)` with name in names"""
    for n in ast.walk(node):
        if isinstance(n, ast.Call) and isinstance(n.func, ast.Attribute) and n.func.attr in names:
            return True
    return False


def _handler_class(h):
    if h.type is None:
        return 2
    t = h.type
    names = []
    if isinstance(t, ast.Name):
        names = [t.id]
    elif isinstance(t, ast.Tuple):
        names = [e.id for e in t.elts if isinstance(e, ast.Name)]
    if "BaseException" in names:
        return 2
    if "Exception" in names:
        return 1
    return 0


def catch_class(try_node, must_call, what, must_raise=False, must_break=None):
    """class (0/1/2) of the handler of `try_node` that reports the error; the handler must call one of must_call."""
    best = 0
    found = None
    for h in try_node.handlers:
        c = _handler_class(h)
        if c == 0:
            continue
        if c > best:
            best, found = c, h
    if found is None:
        return 0, None
    if must_call and not any(_calls_attr(s, must_call) for s in found.body):
        raise TranslateError(f"{what}: the except clause no longer calls one of {sorted(must_call)}")
    has_raise = any(isinstance(n, ast.Raise) for s in found.body for n in ast.walk(s))
    if must_raise != has_raise:
        raise TranslateError(f"{what}: handler {'should' if must_raise else 'should not'} re-raise")
    return best, found


def _try_containing(scope, pred, what):
    """the innermost ast.Try inside scope whose *body* (not handlers) contains a node satisfying pred; None if the
    node exists but is in no try body"""
    hits = [n for n in ast.walk(scope) if pred(n)]
    if not hits:
        raise TranslateError(f"{what}: the user-code call was not found")
    tries = []
    for t in ast.walk(scope):
        if isinstance(t, ast.Try):
            inside = any(pred(n) for s in t.body for n in ast.walk(s))
            if inside:
                tries.append(t)
    if not tries:
        return None
    # innermost = the one with the smallest body span
    tries.sort(key=lambda t: (t.end_lineno - t.lineno))
    return tries[0]


def _is_attr_call(n, attr):
    return isinstance(n, ast.Call) and isinstance(n.func, ast.Attribute) and n.func.attr == attr


def _nested(scope, *names):
    cur = scope
    for nm in names:
        found = [n for n in ast.walk(cur) if isinstance(n, (ast.FunctionDef, ast.AsyncFunctionDef)) and n.name == nm and n is not cur]
        cur = one(found, f"function {nm}")
    return cur


def translate_errors():
    out = {}
    trig = parse_file("trigger.py")
    ti = find_class(trig, "TrigInfo")
    LOG = {"log_exception"}
    # trigger function (legacy)
    fn = _nested(find_func(ti, "call_action"), "do_func_call")
    t = _try_containing(fn, lambda n: _is_attr_call(n, "call_func"), "do_func_call")
    out["cc_do_func_call"] = catch_class(t, LOG, "trigger.py do_func_call")[0] if t else 0
    # trigger expressions (legacy)
    fn = find_func(ti, "_call_expression")
    t = _try_containing(fn, lambda n: _is_attr_call(n, "eval"), "_call_expression")
    out["cc_call_expression"] = catch_class(t, LOG, "trigger.py _call_expression")[0] if t else 0
    watch = find_func(ti, "trigger_watch")
    t = _try_containing(
        watch, lambda n: _is_attr_call(n, "eval") and isinstance(n.func.value, ast.Attribute) and n.func.value.attr == "active_expr",
        "trigger_watch active_expr")
    out["cc_active_expr"] = catch_class(t, LOG, "trigger.py trigger_watch active_expr")[0] if t else 0
    outer = [s for s in watch.body if isinstance(s, ast.Try)]
    outer = one(outer, "top-level try of trigger_watch")
    if not any(isinstance(h.type, ast.Attribute) and h.type.attr == "CancelledError" and any(isinstance(s, ast.Raise) for s in h.body)
               for h in outer.handlers):
        raise TranslateError("trigger_watch: CancelledError is no longer re-raised")
    out["cc_trigger_watch"] = catch_class(outer, {"error"}, "trigger.py trigger_watch outer")[0]
    # task.create
    tt = find_class(trig, "TrigTime")
    fn = _nested(find_func(tt, "init"), "user_task_create_factory", "user_task_create", "func_call")
    t = _try_containing(fn, lambda n: _is_attr_call(n, "call_func"), "task.create func_call")
    out["cc_task_create"] = catch_class(t, LOG, "trigger.py func_call")[0] if t else 0
    # service (legacy)
    ev = parse_file("eval.py")
    ef = find_class(ev, "EvalFunc")
    fn = _nested(find_func(ef, "trigger_init"), "pyscript_service_factory", "pyscript_service_handler", "do_service_call")
    t = _try_containing(fn, lambda n: _is_attr_call(n, "call"), "legacy do_service_call")
    out["cc_service_legacy"] = catch_class(t, LOG, "eval.py do_service_call")[0] if t else 0
    # run_coro
    fu = parse_file("function.py")
    fcls = find_class(fu, "Function")
    rc = find_func(fcls, "run_coro")
    outer = one([s for s in rc.body if isinstance(s, ast.Try)], "top-level try of run_coro")
    out["cc_run_coro"] = catch_class(outer, {"error"}, "function.py run_coro")[0]
    loops = [n for s in outer.finalbody for n in ast.walk(s) if isinstance(n, ast.For)]
    cbloop = [lp for lp in loops if any(_is_attr_call(n, "call_func") for n in ast.walk(lp))]
    cbloop = one(cbloop, "done-callback loop in run_coro's finally")
    t = _try_containing(cbloop, lambda n: _is_attr_call(n, "call_func"), "run_coro callback loop")
    if t is None:
        out["cc_done_callback"] = 0
        out["cb_loop_breaks"] = False
    else:
        c, h = catch_class(t, LOG, "function.py run_coro callback loop")
        out["cc_done_callback"] = c
        out["cb_loop_breaks"] = bool(h is not None and any(isinstance(s, ast.Break) for s in h.body))
    # default subsystem
    base = parse_file("decorators/base.py")
    ed = find_class(base, "ExpressionDecorator")
    fn = find_func(ed, "check_expression_vars")
    t = _try_containing(fn, lambda n: _is_attr_call(n, "eval"), "check_expression_vars")
    out["cc_check_expression"] = catch_class(t, {"handle_exception"}, "decorators/base.py check_expression_vars")[0] if t else 0
    dabc = parse_file("decorator_abc.py")
    he = find_func(find_class(dabc, "DecoratorManager"), "handle_exception")
    if not _calls_attr(he, LOG):
        raise TranslateError("DecoratorManager.handle_exception no longer calls log_exception")
    svc = parse_file("decorators/service.py")
    fn = _nested(find_func(find_class(svc, "ServiceDecorator"), "_service_callback"), "do_service_call")
    t = _try_containing(fn, lambda n: _is_attr_call(n, "call"), "dm do_service_call")
    out["cc_service_dm"] = catch_class(t, {"handle_exception", "log_exception"}, "decorators/service.py do_service_call")[0] if t else 0
    dec = parse_file("decorator.py")
    fn = find_func(find_class(dec, "FunctionDecoratorManager"), "_call")
    t = _try_containing(fn, lambda n: _is_attr_call(n, "call_func"), "FunctionDecoratorManager._call")
    out["cc_dm_call"] = catch_class(t, {"handle_exception", "log_exception"}, "decorator.py _call")[0] if t else 0
    # load
    gc = parse_file("global_ctx.py")
    fn = find_func(find_class(gc, "GlobalContextMgr"), "load_file")
    t = _try_containing(fn, lambda n: _is_attr_call(n, "eval"), "load_file")
    out["cc_load_file"] = catch_class(t, LOG, "global_ctx.py load_file", must_raise=True)[0] if t else 0
    init = parse_file("__init__.py")
    fn = find_func(init, "load_scripts")
    t = _try_containing(fn, lambda n: _is_attr_call(n, "load_file"), "load_scripts")
    out["cc_load_scripts"] = catch_class(t, {"error"}, "__init__.py load_scripts")[0] if t else 0
    # ---- EvalExceptionFormatter shape -------------------------------------------------------------
    fmt = find_class(ev, "EvalExceptionFormatter")
    bs = find_func(fmt, "_build_stack")
    quals = []
    for n in ast.walk(bs):
        # X.y.__qualname__
        if isinstance(n, ast.Attribute) and n.attr == "__qualname__" and isinstance(n.value, ast.Attribute) and isinstance(n.value.value, ast.Name):
            quals.append(f"{n.value.value.id}.{n.value.attr}")
    want = ["EvalFunc.call", "AstEval.call_func", "AstEval.parse", "AstEval.aeval", "AstEval.recurse_assign"]
    if sorted(set(quals)) != sorted(want):
        raise TranslateError(f"_build_stack dispatches on {sorted(set(quals))}, expected {sorted(want)}")
    af = find_func(fmt, "ast_frame")
    conds = [n for n in ast.walk(af) if isinstance(n, ast.If) and isinstance(n.test, ast.BoolOp) and isinstance(n.test.op, ast.And)
             and any(isinstance(v, ast.Name) and v.id == "last_frame" for v in n.test.values)]
    cond = one(conds, "replace-or-append test in ast_frame")
    cmp_attrs = set()
    for v in cond.test.values:
        if isinstance(v, ast.Compare) and len(v.ops) == 1 and isinstance(v.ops[0], ast.Eq) and isinstance(v.left, ast.Attribute):
            cmp_attrs.add(v.left.attr)
    out["fmt_replace_on_filename"] = "filename" in cmp_attrs
    out["fmt_replace_on_name"] = "name" in cmp_attrs
    out["fmt_replace_other"] = len(cmp_attrs - {"filename", "name"})
    init_f = find_func(fmt, "__init__")
    out["fmt_chains_cause"] = any(isinstance(n, ast.Attribute) and n.attr == "__cause__" for n in ast.walk(init_f))
    out["fmt_chains_context"] = any(isinstance(n, ast.Attribute) and n.attr == "__context__" for n in ast.walk(init_f))
    return out


def gen_error_consts():
    c = translate_errors()
    lines = ["(* GENERATED by harness/vh/c18_translate.py from the except clauses of pyscript's user-code entry points and from",
             "   EvalExceptionFormatter - do not edit.  Classes: 0 = no try/except, 1 = except Exception, 2 = except BaseException *)",
             "From PV Require Import Common.Util.", ""]
    for k, v in c.items():
        if isinstance(v, bool):
            lines.append(f"Definition {k} : bool := {'true' if v else 'false'}.")
        else:
            lines.append(f"Definition {k} : N := {v}%N.")
    return "\n".join(lines) + "\n"


if __name__ == "__main__":
    print(gen_error_consts())
