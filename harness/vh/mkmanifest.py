"""Write /verif/MANIFEST.json from the property modules that exist (vh/props/cXX.py with MANIFEST_ENTRY)."""
import importlib
import json
import os
import pkgutil
import sys

sys.path.insert(0, os.path.dirname(os.path.dirname(os.path.abspath(__file__))))
from vh import core, props  # noqa: E402

ALL = [f"C{i:02d}" for i in range(1, 21)]


def main():
    checks = []
    claimed = set()
    for m in sorted(pkgutil.iter_modules(props.__path__), key=lambda m: m.name):
        try:
            mod = importlib.import_module(f"vh.props.{m.name}")
        except Exception as exc:
            print(f"skipping vh.props.{m.name}: {exc}")
            continue
        prop = getattr(mod, "PROP", None)
        entry = getattr(mod, "MANIFEST_ENTRY", None)
        if prop is None or entry is None or prop.id not in core.claimed_ids():
            continue
        claimed.add(prop.id)
        checks.append({
            "property_id": prop.id,
            "quick_cmd": f"bin/check {prop.id} --tier quick",
            "thorough_cmd": f"bin/check {prop.id} --tier thorough",
            "evidence_file": f"/verif/evidence/{prop.id}.json",
            "replay_cmd_template": f"bin/check {prop.id} --replay {{path}}",
            "engine": "rocq-proof+correspondence",
            "level_claimed": {"category": "proof", "text": entry["level_text"], "design_ref": entry.get("design_ref", "DESIGN.md §4")},
            "level_note": entry["level_note"],
            "technique": entry["technique"],
        })
    na_reasons = {}
    try:
        with open(os.path.join(core.VERIF, "not_applicable.json"), encoding="utf-8") as f:
            na_reasons = json.load(f)
    except OSError:
        pass
    na = [{"property_id": p, "reason": na_reasons.get(p, "check not built yet in this round (plan: DESIGN.md §4); not claimed until its Coq model, theorems and correspondence exist")}
          for p in ALL if p not in claimed]
    man = {
        "version": 1,
        "setup_cmd": "bin/setup",
        "hooks": {
            "guard": "PYSCRIPT_VERIF",
            "enable": "no source hooks are needed: every observation is made from outside (DESIGN.md §2.2); the guard name is reserved",
            "baseline_off_cmd": "cd /repo && /venv/bin/python -m pytest -ra -q -p no:cacheprovider --timeout=900 --continue-on-collection-errors",
            "source_commits": [],
            "add_only": True,
        },
        "engines": [{
            "name": "rocq-proof+correspondence",
            "path": "/verif/coq (models, proofs, property theorems) + /verif/harness/vh (translator T1, correspondence T2, decision rule)",
            "serves_properties": sorted(claimed),
            "kind_free_text": "machine-checked proof in Rocq/Coq 8.16.1 about executable Gallina models; models tied to /repo on every run by regenerated constants (Gen/*.v) and by a correspondence check evaluated inside Coq (vm_compute) on what the real code just did",
        }],
        "checks": checks,
        "notes": "See DESIGN.md. Exit 0 = held; exit 1 + VIOLATION line = violation or broken proof/tie; exit 2 = infrastructure error (no VIOLATION line).",
        "not_applicable": na,
    }
    with open(os.path.join(core.VERIF, "MANIFEST.json"), "w", encoding="utf-8") as f:
        json.dump(man, f, indent=1)
    print(f"MANIFEST.json: {len(checks)} checks, {len(na)} not claimed")


main()
