"""C16 — state variables read and write Home Assistant state faithfully."""
import ast

from .. import coqio as q
from ..core import Prop, Stream, cfg_prelude, run_workers_parallel, split_chunks
from ..translate import TranslateError, const, find_assign, find_class, find_func, parse_file, str_collection
from ..workers import c16_tables as T


# ------------------------------------------------------------------------------------------------
# T1: constants of state.py -> Gen/StateConsts.v
# ------------------------------------------------------------------------------------------------
STATE_FIELD_CODE = {"entity_id": 0, "last_changed": 1, "last_updated": 2, "last_reported": 3}


def translate_state():
    tree = parse_file("state.py")
    name2id = {s: i for i, s in T.IDENT.items()}
    extra = {}

    def ident(s):
        if s in name2id:
            return name2id[s]
        if s not in extra:
            extra[s] = None
        return ("extra", s)

    out = {}
    # STATE_VIRTUAL_ATTRS
    virt = sorted(str_collection(find_assign(tree, "STATE_VIRTUAL_ATTRS")))
    if not virt:
        raise TranslateError("STATE_VIRTUAL_ATTRS is empty")
    out["state_virtual_attrs"] = [ident(s) for s in virt]
    # StateVal.__new__: __dict__ assignment first, then `new_var.X = state.X` in source order
    cls = find_class(tree, "StateVal")
    if not any(isinstance(b, ast.Name) and b.id == "str" for b in cls.bases):
        raise TranslateError("StateVal is not a subclass of str")
    new = find_func(cls, "__new__")
    fields = []
    seen_dict = False
    for node in new.body:
        if not (isinstance(node, ast.Assign) and len(node.targets) == 1 and isinstance(node.targets[0], ast.Attribute)):
            continue
        tgt = node.targets[0]
        if not (isinstance(tgt.value, ast.Name) and tgt.value.id == "new_var"):
            raise TranslateError("StateVal.__new__: attribute assignment to something other than new_var")
        if tgt.attr == "__dict__":
            if fields:
                raise TranslateError("StateVal.__new__: __dict__ assigned after the virtual fields")
            seen_dict = True
            continue
        val = node.value
        if not (isinstance(val, ast.Attribute) and isinstance(val.value, ast.Name) and val.value.id == "state"):
            raise TranslateError(f"StateVal.__new__: field {tgt.attr} is not `new_var.X = state.Y`")
        if val.attr not in STATE_FIELD_CODE:
            raise TranslateError(f"StateVal.__new__: field {tgt.attr} reads unknown state.{val.attr}")
        fields.append((ident(tgt.attr), STATE_FIELD_CODE[val.attr]))
    if not seen_dict:
        raise TranslateError("StateVal.__new__: no __dict__ assignment")
    out["stateval_new_fields"] = fields
    # STATE_CALLABLE_ATTRS = public callables of the class
    find_assign(tree, "STATE_CALLABLE_ATTRS")
    meths = [n.name for n in cls.body if isinstance(n, (ast.FunctionDef, ast.AsyncFunctionDef)) and not n.name.startswith("_")]
    for m in meths:
        if m in name2id and name2id[m] < T.CALLABLE_BASE:
            raise TranslateError(f"StateVal method {m} collides with a harness identifier")
    out["state_callable_attrs"] = [T.CALLABLE_BASE + i for i in range(len(meths))]
    callable_names = {T.CALLABLE_BASE + i: m for i, m in enumerate(meths)}
    # State.set signature
    st = find_class(tree, "State")
    fset = find_func(st, "set")
    a = fset.args
    names = [x.arg for x in a.args]
    if names[:1] != ["cls"] or a.vararg is not None or a.kwarg is None or a.kwonlyargs or a.posonlyargs:
        raise TranslateError("State.set: unexpected signature shape")
    params = names[1:]
    if params != ["var_name", "value", "new_attributes"]:
        raise TranslateError(f"State.set: parameters {params}")
    if len(a.defaults) != 2 or not all(isinstance(d, ast.Constant) and d.value is None for d in a.defaults):
        raise TranslateError("State.set: defaults of value/new_attributes are not None")
    out["set_param_value"] = ident("value")
    out["set_param_other"] = [ident(p) for p in params if p != "value"]
    # State.register_functions: the dotted names pyscript itself defines here
    freg = find_func(st, "register_functions")
    dicts = [n for n in ast.walk(freg) if isinstance(n, ast.Dict)]
    if len(dicts) != 1:
        raise TranslateError("State.register_functions: expected one dict literal")
    fn = []
    for k in dicts[0].keys:
        s = const(k, (str,))
        parts = s.split(".")
        if len(parts) != 2:
            raise TranslateError(f"State.register_functions: name {s!r} is not DOMAIN.name")
        fn.append((ident(parts[0]), ident(parts[1])))
    if ("state", "get") not in [tuple(const(k, (str,)).split(".")) for k in dicts[0].keys]:
        raise TranslateError("State.register_functions: state.get is not registered")
    out["state_function_names"] = fn
    # allocate ids of strings outside the harness table (sorted, so the assignment is deterministic)
    for i, s in enumerate(sorted(extra)):
        extra[s] = T.EXTRA_BASE + i

    def res(x):
        return extra[x[1]] if isinstance(x, tuple) and x and x[0] == "extra" else x

    out["state_virtual_attrs"] = [res(x) for x in out["state_virtual_attrs"]]
    out["stateval_new_fields"] = [(res(k), b) for k, b in out["stateval_new_fields"]]
    out["set_param_value"] = res(out["set_param_value"])
    out["set_param_other"] = [res(x) for x in out["set_param_other"]]
    out["state_function_names"] = [(res(d), res(n)) for d, n in out["state_function_names"]]
    out["__names__"] = {**{v: k for k, v in extra.items()}, **callable_names}
    return out


def gen_state_consts():
    c = translate_state()
    names = c.pop("__names__")
    lines = ["(* GENERATED by harness/vh/props/c16.py from state.py — do not edit *)",
             "From PV Require Import Common.Util.",
             "(* identifiers allocated by the translator: " + ", ".join(f"{i}={s}" for i, s in sorted(names.items())) + " *)", ""]
    lines.append(f"Definition state_virtual_attrs : list N := {q.lst(q.N(x) for x in c['state_virtual_attrs'])}.")
    lines.append("(* (field set on the StateVal, code of the hass State field it is read from: 0 entity_id, 1 last_changed, "
                 "2 last_updated, 3 last_reported) *)")
    lines.append("Definition stateval_new_fields : list (N * N) := "
                 + q.lst(f"({q.N(k)}, {q.N(b)})" for k, b in c["stateval_new_fields"]) + ".")
    lines.append(f"Definition state_callable_attrs : list N := {q.lst(q.N(x) for x in c['state_callable_attrs'])}.")
    lines.append(f"Definition set_param_value : N := {q.N(c['set_param_value'])}.")
    lines.append(f"Definition set_param_other : list N := {q.lst(q.N(x) for x in c['set_param_other'])}.")
    lines.append("Definition state_function_names : list (N * N) := "
                 + q.lst(f"({q.N(d)}, {q.N(n)})" for d, n in c["state_function_names"]) + ".")
    return "\n".join(lines) + "\n"


# ------------------------------------------------------------------------------------------------
# Python case/observation -> Gallina
# ------------------------------------------------------------------------------------------------
def _n(x):
    return str(int(x)) if int(x) >= 0 else "99999"


def _attrs(a):
    return "[" + "; ".join(f"({_n(k)}, {_n(v)})" for k, v in a) + "]"


def _ename(e):
    if len(e) != 2:
        return "(999, 999)"
    return f"({_n(e[0])}, {_n(e[1])})"


def _sname(parts):
    return "[" + "; ".join(_n(p) for p in parts) + "]"


def _dn(parts):
    t = f"(DHead {_n(parts[0])})"
    for p in parts[1:]:
        t = f"(DAttr {t} {_n(p)})"
    return t


def _pyval(p):
    k = p["k"]
    if k == "val":
        return f"(PVal {_n(p['v'])})"
    if k == "snap":
        return f"(PSnap {_n(p['v'])} {_attrs(p['d'])})"
    if k == "func":
        return "PFunc"
    if k == "dict":
        return f"(PDict {_attrs(p['d'])})"
    if k == "names":
        return "(PNames [" + "; ".join(_ename(e) for e in p["l"]) + "])"
    if k == "obj":
        return f"(PObj {_attrs(p['d'])})"
    raise ValueError(p)


_EXC = {"NameError": "ENameError", "AttributeError": "EAttributeError", "TypeError": "ETypeError"}


def _res(r):
    if r is None:
        return "None"
    if "ok" in r:
        return f"(Some (Ok {_pyval(r['ok'])}))"
    return f"(Some (Raise {_EXC.get(r['exc'], 'EOther')}))"


def _mstate(o):
    ha = "[" + "; ".join(f"({_ename(h[0])}, mk_hs {_n(h[1])} {_attrs(h[2])} {_n(h[3][0])} {_n(h[3][1])} {_n(h[3][2])})" for h in o["ha"]) + "]"
    svcs = "[" + "; ".join(_ename(e) for e in o["svcs"]) + "]"
    esvcs = "[" + "; ".join(_ename(e) for e in o["esvcs"]) + "]"
    svcargs = "[" + "; ".join(_ename(e) for e in o["svcargs"]) + "]"
    glob = "[]" if o["gobj"] is None else f"[({T.GLOBAL_OBJ}, {_attrs(o['gobj'])})]"
    slots = "[" + "; ".join(f"({j}, {_pyval(p)})" for j, p in zip(T.SLOTS, o["slots"])) + "]"
    return (f"{{| ms_ha := {ha}; ms_svcs := {svcs}; ms_esvcs := {esvcs}; ms_svcargs := {svcargs}; "
            f"ms_globals := {glob}; ms_slots := {slots} |}}")


def _vexpr(x):
    return f"(VLit {_n(x[1])})" if x[0] == "lit" else f"(VSlot {_n(x[1])})"


def _optn(x):
    return "None" if x is None else f"(Some {_n(x)})"


def _op(op):
    k = op[0]
    if k == "rd":
        return f"(ORead {_dn(op[1])} {_optn(op[2])})"
    if k == "get":
        return f"(OGet {_sname(op[1])} {_optn(op[2])})"
    if k == "asg":
        return f"(OAssign {_dn(op[1])} {_vexpr(op[2])})"
    if k == "set":
        _k, name, value, nattrs, kwargs, _valkw = op
        v = "None" if value is None else f"(Some {_vexpr(value)})"
        na = "None" if nattrs is None else ("(Some None)" if nattrs == "none" else f"(Some (Some {_attrs(nattrs)}))")
        return f"(OSet {_sname(name)} {v} {na} {_attrs(kwargs)})"
    if k == "sattr":
        return f"(OSetattr {_sname(op[1])} {_n(op[2])})"
    if k == "del":
        return f"(ODel {_dn(op[1])})"
    if k == "delete":
        return f"(ODelete {_sname(op[1])})"
    if k == "exist":
        return f"(OExist {_sname(op[1])})"
    if k == "gattr":
        return f"(OGetattr {_sname(op[1])})"
    if k == "gattrs":
        return f"(OGetattrSlot {_n(op[1])})"
    if k == "names":
        return f"(ONames {_optn(op[1])})"
    if k == "rslot":
        return f"(OReadSlot {_n(op[1])})"
    if k == "rslota":
        return f"(OReadSlotAttr {_n(op[1])} {_n(op[2])})"
    raise ValueError(op)


def _step(s):
    if s["t"] == "x":
        x = s["x"]
        if x[0] == "set":
            return f"(SExt (XSet {_ename(x[1])} {_n(x[2])} {_attrs(x[3])}))"
        if x[0] == "refresh":
            return "(SExt XRefresh)"
        return "(SExt (%s %s))" % ({"rm": "XRemove", "reg": "XReg", "unreg": "XUnreg", "regm": "XRegM"}[x[0]], _ename(x[1]))
    loc = "[" + "; ".join(f"({_n(i)}, {_attrs(a)})" for i, a in s.get("loc", [])) + "]"
    return f"(SScript {loc} {_op(s['op'])})"


def host_prelude():
    st = T.str_table()
    eq = T.eq_table()
    strtab = "[" + "; ".join(f"({k}, {v})" for k, v in sorted(st.items())) + "]"
    eqtab = "[" + "; ".join(f"({k}, {v})" for k, v in sorted(eq.items()) if k != v) + "]"
    enttab = "[" + "; ".join(f"(({e[0]}, {e[1]}), {i})" for e, i in sorted(T.ENTSTR.items())) + "]"
    vtrue, vfalse = T.CANON2ID[T.canon(True)], T.CANON2ID[T.canon(False)]
    strattrs = "[" + "; ".join(str(i) for i in T.str_attr_idents()) + "]"
    pyattrs = "[" + "; ".join(f"({v}, {i})" for v, i in T.py_attr_pairs()) + "]"
    return ("Local Open Scope N_scope.\n"
            f"Definition pv_strtab : list (N * N) := {strtab}.\n"
            "(* hypotheses of C16_refines for the shipped str() table (C16_host_tables) *)\n"
            "Definition pv_strtab_ok : strtab_ok pv_strtab = true := eq_refl.\n"
            f"Definition pv_host : host := mk_host pv_strtab {eqtab} {enttab} {vtrue} {vfalse} {strattrs} {pyattrs}.")


# ------------------------------------------------------------------------------------------------
# the stream: generated operation sequences executed by script code, interleaved with external changes
# ------------------------------------------------------------------------------------------------
def X(*x):
    return {"t": "x", "x": list(x)}


def S(op, loc=None):
    return {"t": "s", "loc": loc or [], "op": op}


# names of the identifiers the translator allocates (StateVal helper methods 120.., other strings 150..); the streams
# only need 120 (as_float) and 125 (is_unknown) to write source text, so a refused translation falls back to this list
FALLBACK_NAMES = {120: "as_float", 121: "as_int", 122: "as_bool", 123: "as_round", 124: "as_datetime", 125: "is_unknown",
                  126: "is_unavailable", 127: "has_value"}


def translator_names():
    try:
        names = dict(translate_state()["__names__"])
    except TranslateError:
        return dict(FALLBACK_NAMES)
    for i, n in FALLBACK_NAMES.items():
        names.setdefault(i, n)
    return names


def step_src(step):
    """readable form of a step: the generated statement, or the external call"""
    try:
        from ..workers.c16_statevar import ename, gen_core

        for i, n in translator_names().items():
            T.IDENT.setdefault(i, n)
        if step["t"] == "x":
            x = step["x"]
            if x[0] == "set":
                return f"EXT hass.states.async_set({ename(x[1])!r}, {T.value_of(x[2])!r}, {dict((T.IDENT[k], T.value_of(v)) for k, v in x[3])!r})"
            if x[0] == "refresh":
                return "EXT State.get_service_params()   # as at start-up / pyscript.reload"
            return {"rm": "EXT hass.states.async_remove", "reg": "EXT hass.services.async_register", "unreg": "EXT hass.services.async_remove",
                    "regm": "EXT register service with entity_id parameter"}[x[0]] + f"({ename(x[1])!r})"
        pre = "; ".join(f"{T.IDENT[i]} = obj({', '.join(f'{T.IDENT[k]}={T.value_of(v)!r}' for k, v in a)})" for i, a in step.get("loc", []))
        tag = f"[same body g{step['grp']}, nested {step.get('nest')}] " if step.get("grp") is not None else ""
        return tag + (pre + "; " if pre else "") + "; ".join(gen_core(step["op"])[0])
    except Exception as exc:  # pylint: disable=broad-except
        return f"<{exc}>"


PLAIN_VALUES = sorted(T.POOL)                       # ids of str/int/float/bool/list/dict pool values
READ_ATTRS = T.ATTRS + [13, 16, 24, 25, 101, 102, 103, 101, 102, 103, 120, 125, 10]
STATE_ENTS = [e for e in T.ENTITIES if e[0] not in (T.GLOBAL_OBJ,)]


class StateVarStream(Stream):
    name = "ops"
    rule = ("sequences of 10-30 steps: reads DOMAIN.name / DOMAIN.name.attr / state.get (optionally captured into s0..s2), "
            "assignments of literals (str/int/float/bool/None/list/dict) and captured snapshots, attribute assignment, "
            "state.set with every combination of omitted/None/literal/StateVal value x omitted/None/dict new_attributes x "
            "0-2 keyword attributes (positional and keyword style), state.setattr, del, state.delete, state.exist, "
            "state.getattr(name|snapshot), state.names([domain]), re-reads of captured snapshots; over 8 entities in 4 "
            "domains (one shadowed by a global Python object, one by a step-local object, one colliding with pyscript's "
            "state.get, one entity colliding with an externally (un)registered service, one entity-service method) and "
            "attributes a0-a2, 'value', 'entity_id'; interleaved with external hass.states.async_set / async_remove / "
            "service (un)registration; executed by pyscript functions called through a pyscript service (both decorator "
            "subsystems) or statement-wise in a live global context; non-trivial = at least one state write by the "
            "script and one external change; distinct by full case")
    requires = "From PV Require Import Gen.StateConsts StateVar.StateModel StateVar.Resolve StateVar.Spec StateVar.StateCheck."
    case_type = "scase"
    check_model = "scase_model_ok pv_host pv_cfg"
    check_spec = "scase_spec_ok pv_host"
    attrib = "scase_attrib pv_host pv_cfg"
    explain = "scase_explain pv_host pv_cfg"
    shard_size = 40
    coqc_timeout = 600

    def budget(self, tier):
        return 320 if tier == "quick" else 3000

    def prelude(self, ctx, findings, witness_terms):
        return host_prelude() + "\n" + cfg_prelude(
            [("d_assign_none_omitted", "D160"), ("d_setattr_param_clash", "D161"), ("d_del_ignores_pyvar", "D7")],
            findings, witness_terms, "scase_spec_ok pv_host")

    # ---- generation ----------------------------------------------------------------------------
    def _val(self, rng):
        r = rng.random()
        if r < 0.08:
            return T.V_NONE
        return rng.choice(PLAIN_VALUES)

    def _attrs(self, rng, keys, maxn=3):
        n = rng.choice([0, 1, 1, 2, maxn])
        ks = rng.sample(keys, min(n, len(keys)))
        return [[k, self._val(rng)] for k in ks]

    def _ent(self, rng, live_ents):
        if live_ents and rng.random() < 0.75:
            return list(rng.choice(sorted(live_ents)))
        return list(rng.choice(T.ENTITIES))

    def _sname(self, rng, live_ents, want=None):
        e = self._ent(rng, live_ents)
        n = want or rng.choice([2, 2, 2, 3, 3, 3, 1, 4])
        if n == 1:
            return [e[0]]
        if n == 2:
            return e
        if n == 3:
            return e + [rng.choice(READ_ATTRS)]
        return e + [rng.choice(T.ATTRS), rng.choice(T.ATTRS)]

    def _script_step(self, rng, live_ents, slots_used):
        """one script step; `live_ents` is only a bias (entities probably existing)"""
        def a_slot():
            if slots_used and rng.random() < 0.85:
                return rng.choice(sorted(slots_used))
            return rng.choice(T.SLOTS)

        kind = rng.choices(
            ["rd", "get", "asg", "asga", "set", "sattr", "del", "delete", "exist", "gattr", "gattrs", "names", "rslot", "rslota"],
            [16, 7, 12, 9, 18, 5, 6, 4, 6, 4, 3, 3, 4, 4])[0]
        loc = []

        def expr_name(nparts):
            e = self._ent(rng, live_ents)
            r = rng.random()
            if r < 0.15:
                e = [T.GLOBAL_OBJ, rng.choice([10, 11, 12])]
            elif r < 0.30:
                e = [T.LOCAL_OBJ, rng.choice([10, 11])]
            parts = e + ([rng.choice(READ_ATTRS)] if nparts == 3 else [])
            if e[0] == T.LOCAL_OBJ and rng.random() < 0.6:
                loc.append([T.LOCAL_OBJ, [[k, rng.choice(PLAIN_VALUES)] for k in rng.sample([10, 11], rng.choice([1, 2]))]])
            return parts

        def is_py(parts):
            return parts[0] == T.GLOBAL_OBJ or (parts[0] == T.LOCAL_OBJ and loc)

        if kind == "rd":
            parts = expr_name(rng.choice([2, 2, 3]))
            cap = None
            if len(parts) == 2 and not is_py(parts) and rng.random() < 0.6:
                cap = rng.choice(T.SLOTS)
                slots_used.add(cap)
            return S(["rd", parts, cap], loc)
        if kind == "get":
            nm = self._sname(rng, live_ents)
            cap = None
            if len(nm) == 2 and rng.random() < 0.6:
                cap = rng.choice(T.SLOTS)
                slots_used.add(cap)
            return S(["get", nm, cap])
        if kind == "asg":
            parts = expr_name(2)
            if not is_py(parts) and slots_used and rng.random() < 0.2:
                rhs = ["slot", rng.choice(sorted(slots_used))]
            else:
                rhs = ["lit", self._val(rng)]
            if not is_py(parts):
                live_ents.add(tuple(parts))
            return S(["asg", parts, rhs], loc)
        if kind == "asga":
            parts = expr_name(3)
            parts[2] = rng.choice(T.ATTRS + [20, 21])
            return S(["asg", parts, ["lit", self._val(rng)]], loc)
        if kind == "set":
            nm = self._sname(rng, live_ents, want=rng.choice([2, 2, 2, 2, 2, 2, 2, 3, 1]))
            r = rng.random()
            if r < 0.3:
                value = None
            elif r < 0.85 or not slots_used:
                value = ["lit", self._val(rng)]
            else:
                value = ["slot", rng.choice(sorted(slots_used))]
            r = rng.random()
            nattrs = None if r < 0.5 else ("none" if r < 0.6 else self._attrs(rng, T.ATTRS))
            kwargs = self._attrs(rng, [20, 21, 22, 100], maxn=2) if rng.random() < 0.5 else []
            if len(nm) == 2:
                live_ents.add(tuple(nm))
            return S(["set", nm, value, nattrs, kwargs, rng.random() < 0.4])
        if kind == "sattr":
            nm = self._sname(rng, live_ents, want=rng.choice([3, 3, 3, 3, 2, 4]))
            if len(nm) == 3:
                nm[2] = rng.choice(T.ATTRS)
            return S(["sattr", nm, self._val(rng)])
        if kind == "del":
            parts = expr_name(rng.choice([2, 3, 3]))
            if len(parts) == 3:
                parts[2] = rng.choice(T.ATTRS)
            if len(parts) == 2:
                live_ents.discard(tuple(parts))
            return S(["del", parts], loc)
        if kind == "delete":
            nm = self._sname(rng, live_ents)
            if len(nm) == 3:
                nm[2] = rng.choice(T.ATTRS)
            if len(nm) == 2:
                live_ents.discard(tuple(nm))
            return S(["delete", nm])
        if kind == "exist":
            return S(["exist", self._sname(rng, live_ents)])
        if kind == "gattr":
            return S(["gattr", self._sname(rng, live_ents, want=rng.choice([2, 2, 2, 2, 1, 3]))])
        if kind == "gattrs":
            return S(["gattrs", a_slot()])
        if kind == "names":
            return S(["names", rng.choice([None, None, 1, 1, 2, 3, 4]), rng.random() < 0.5])
        if kind == "rslot":
            return S(["rslot", a_slot()])
        return S(["rslota", a_slot(), rng.choice(READ_ATTRS)])

    def _time_block(self, rng, live, slots_used):
        """write, later an identical re-write (only last_reported moves), an attribute-only change (last_updated moves,
        last_changed does not), a value change (all move) - each followed by reads of the virtual time fields"""
        e = list(rng.choice([(1, 10), (1, 11), (1, 12), (2, 10)]))
        v = rng.choice(PLAIN_VALUES)
        a = self._attrs(rng, [20, 21, 22])
        live.add(tuple(e))
        j = rng.choice(T.SLOTS)
        slots_used.add(j)

        def reads():
            out = []
            for _ in range(rng.choice([1, 2, 3])):
                r = rng.random()
                k = rng.choice([101, 102, 103, 103])
                if r < 0.35:
                    out.append(S(["rd", e + [k], None]))
                elif r < 0.55:
                    out.append(S(["get", e + [k], None]))
                elif r < 0.8:
                    out += [S(["rd", e, j]), S(["rslota", j, k])]
                else:
                    out += [S(["get", e, j]), S(["rslot", j])]
            return out

        blk = [X("set", e, v, a)] + reads()
        for kind in rng.sample(["same", "same", "attr", "value"], rng.choice([2, 3, 4])):
            if kind == "same":
                if rng.random() < 0.5:
                    blk.append(X("set", e, v, a))
                elif rng.random() < 0.5:
                    blk.append(S(["asg", e, ["lit", v]]))                       # script re-assigns the value it already has
                else:
                    blk.append(S(["set", e, ["lit", v], None, [], False]))
            elif kind == "attr":
                k, x = rng.choice([20, 21, 22]), rng.choice(PLAIN_VALUES)
                if rng.random() < 0.5:
                    a = [kv for kv in a if kv[0] != k] + [[k, x]]
                    blk.append(X("set", e, v, a))
                else:
                    blk.append(S(["asg", e + [k], ["lit", x]]))
                    a = None
            else:
                v = rng.choice(PLAIN_VALUES)
                blk.append(X("set", e, v, a) if (a is not None and rng.random() < 0.5) else S(["asg", e, ["lit", v]]))
            if a is None:      # attributes no longer known exactly: continue with script-side writes only
                a = []
                blk += reads()
                break
            blk += reads()
        return blk

    def _svc_block(self, rng, live):
        """history of the entity-service table: entity services are registered / removed from outside, the table is
        refreshed (State.get_service_params, as start-up and pyscript.reload do) at some points, and DOMAIN.entity.<service>
        is read / asked for before and after: a removed last service of a domain, a removed one of two, a re-added one"""
        out = []
        dom = rng.choice([1, 1, 2])
        ent = [dom, rng.choice([10, 11])] if dom == 1 else [2, 10]
        cands = [list(e) for e in T.METHOD_SVCS if e[0] == dom]
        out.append(X("set", ent, self._val(rng), self._attrs(rng, [20, 21] + ([rng.choice([13, 16])] if rng.random() < 0.3 else []))))
        live.add(tuple(ent))

        def probes():
            res = []
            for _ in range(rng.choice([1, 2, 3])):
                k = rng.choice([13, 13, 16, 20])
                res.append(rng.choice([S(["rd", ent + [k], None]), S(["exist", ent + [k]]), S(["get", ent + [k], None])]))
            return res

        for _ in range(rng.randint(3, 7)):
            r = rng.random()
            if r < 0.3:
                out.append(X("regm", rng.choice(cands)))
            elif r < 0.6:
                out.append(X("unreg", rng.choice(cands)))
            else:
                out.append(X("refresh"))
            if rng.random() < 0.7:
                out += probes()
        out.append(X("refresh"))
        out += probes()
        return out

    def _nest_block(self, rng, live, slots_used, gid):
        """several operations on the SAME dotted names in ONE function body that also contains a nested def / class /
        lambda / comprehension (or runs inside a nested function): assign then read, read then assign, attribute assign,
        del - the shapes where eval.py's static name analysis (local names, closures) meets state names"""
        e = list(rng.choice([(1, 10), (1, 11), (1, 12), (1, 14), (2, 10), (4, 15)]))
        k = rng.choice([20, 21, 22])
        nest = rng.choice(["def", "def", "class", "lambda", "comp", "inner", "inner"])
        j = rng.choice(T.SLOTS)
        menu = [
            lambda: S(["asg", e, ["lit", self._val(rng)]]),
            lambda: S(["rd", e, rng.choice([None, j])]),
            lambda: S(["rd", e + [k], None]),
            lambda: S(["asg", e + [k], ["lit", self._val(rng)]]),
            lambda: S(["rd", e + [rng.choice([100, 101, 102, 103])], None]),
            lambda: S(["del", e + [k]]),
            lambda: S(["del", e]),
            lambda: S(["get", e, None]),
            lambda: S(["exist", e + [k]]),
            lambda: S(["set", e, ["lit", self._val(rng)], None, [[k, self._val(rng)]], False]),
            lambda: S(["rslot", j]),
        ]
        weights = [5, 5, 4, 4, 2, 2, 1, 1, 1, 2, 1]
        ops = [rng.choices(menu, weights)[0]() for _ in range(rng.randint(3, 7))]
        if not any(o["op"][0] == "asg" for o in ops):
            ops.insert(rng.randrange(len(ops) + 1), menu[0]())
        if not any(o["op"][0] == "rd" and len(o["op"][1]) == 2 for o in ops):
            ops.insert(rng.randrange(len(ops) + 1), S(["rd", e, None]))
        for o in ops:
            o["grp"], o["nest"] = gid, nest
            if o["op"][0] == "rd" and o["op"][2] is not None:
                slots_used.add(j)
        if e[0] != T.FUNC_NAME[0]:
            live.add(tuple(e))
        return ops

    def _case(self, rng):
        live = set()
        slots_used = set()
        steps = []
        n = rng.randint(10, 30)
        # start with a few entities so that most operations hit something
        for _ in range(rng.randint(1, 4)):
            e = rng.choice(T.ENTITIES)
            steps.append(X("set", list(e), self._val(rng), self._attrs(rng, T.ATTRS)))
            live.add(e)
        while len(steps) < n:
            r = rng.random()
            if r < 0.05:
                steps += self._time_block(rng, live, slots_used)
            elif r < 0.10:
                steps += self._nest_block(rng, live, slots_used, len(steps))
            elif r < 0.13:
                steps += self._svc_block(rng, live)
            elif r < 0.15:
                steps.append(rng.choice([X("refresh"), X("regm", list(rng.choice(T.METHOD_SVCS))), X("unreg", list(rng.choice(T.METHOD_SVCS)))]))
            elif r < 0.08 and any(s["t"] == "x" and s["x"][0] == "set" for s in steps):
                steps.append(rng.choice([s for s in steps if s["t"] == "x" and s["x"][0] == "set"]))   # identical re-report
            elif r < 0.16:
                e = rng.choice(T.ENTITIES)
                steps.append(X("set", list(e), self._val(rng), self._attrs(rng, T.ATTRS)))
                live.add(e)
            elif r < 0.21:
                e = self._ent(rng, live)
                steps.append(X("rm", e))
                live.discard(tuple(e))
            elif r < 0.27:
                steps.append(X(rng.choice(["reg", "reg", "unreg"]), list(T.DYN_SVC)))
            else:
                steps.append(self._script_step(rng, live, slots_used))
        return {"mode": "func" if rng.random() < 0.65 else "live", "legacy": rng.random() < 0.5,
                "gobj": [[10, rng.choice(PLAIN_VALUES)]] + ([[11, rng.choice(PLAIN_VALUES)]] if rng.random() < 0.5 else []),
                "steps": steps}

    def generate(self, ctx, budget, focus=None):
        rng = ctx.rng
        cases = list(FIXED_CASES)
        while len(cases) < budget:
            cases.append(self._case(rng))
        return cases[:max(budget, 1)]

    # ---- implementation ------------------------------------------------------------------------
    def run_impl(self, ctx, cases):
        idents = {str(i): s for i, s in translator_names().items()}
        clean = [{k: v for k, v in c.items() if not k.startswith("__")} for c in cases]
        chunks = split_chunks(clean, 12)
        res = run_workers_parallel(ctx, "vh.workers.c16_statevar", [{"cases": c, "idents": idents} for c in chunks], timeout=1500)
        obs = [o for r in res for o in r]
        for c, o in zip(cases, obs):
            if len(o) != len(c["steps"]) + 1:
                raise RuntimeError(f"C16 worker failed on a case: {o[-1].get('res')}")
        return obs

    def to_coq(self, case, obs):
        steps = "[" + ";\n    ".join(
            f"({_step(s)}, {{| o_res := {_res(o['res'])}; o_state := {_mstate(o)} |}})" for s, o in zip(case["steps"], obs[1:])) + "]"
        return (f"{{| sc_init := {_mstate(obs[0])};\n   sc_steps := {steps} |}}")

    # ---- evidence ------------------------------------------------------------------------------
    def nontrivial(self, case, obs):
        wr = any(s["t"] == "s" and s["op"][0] in ("asg", "set", "sattr", "del", "delete") for s in case["steps"])
        ex = any(s["t"] == "x" for s in case["steps"])
        return wr and ex

    def kind(self, case, obs):
        n = len(case["steps"])
        return f"{case['mode']}/{'legacy' if case.get('legacy') else 'new'}/{'short' if n < 15 else 'long'}"

    def describe(self, case, obs):
        return {"mode": case["mode"], "legacy": case.get("legacy"), "steps": len(case["steps"]),
                "script": [step_src(s) for s in case["steps"][:40]],
                "results": [(o["res"] or {}).get("exc") or ("ok" if o["res"] else "ext") for o in obs[1:41]]}


# hand-written cases run on every check (every argument combination of state.set once, every routing case once)
def _fixed_cases():
    e0, e1 = [1, 10], [1, 11]
    on, off = T.CANON2ID[T.canon("on")], T.CANON2ID[T.canon("off")]
    one, true = T.CANON2ID[T.canon(1)], T.CANON2ID[T.canon(True)]
    lst = T.CANON2ID[T.canon([1, 2])]
    cases = []
    base = [X("set", e0, on, [[20, one], [21, lst]]), S(["rd", e0, 0])]
    combos = []
    for value in (None, ["lit", T.V_NONE], ["lit", off], ["lit", one], ["slot", 0]):
        for nattrs in (None, "none", [], [[22, on]]):
            for kwargs in ([], [[20, true]], [[21, off], [100, on]]):
                combos.append(S(["set", e1, value, nattrs, kwargs, False]))
                combos.append(S(["set", e0, value, nattrs, kwargs, True]))
    for i in range(0, len(combos), 12):
        for mode in ("func", "live"):
            cases.append({"mode": mode, "legacy": i % 24 == 0, "gobj": [[10, on]], "steps": base + combos[i:i + 12]})
    routing = [
        X("set", e0, on, [[20, one], [100, off], [23, off]]), X("set", [3, 10], off, []), X("set", [2, 10], off, [[20, on]]),
        X("set", [4, 15], on, []), X("set", [1, 14], on, [[20, one]]),
        S(["rd", e0, 1]), S(["rd", e0 + [100], None]), S(["rd", e0 + [101], None]), S(["rd", e0 + [120], None]), S(["rd", e0 + [13], None]),
        S(["rd", e0 + [22], None]), S(["rd", e1, None]), S(["rd", e1 + [20], None]),
        S(["rd", [3, 10], None]), S(["rd", [3, 12], None]), S(["rd", [3, 10, 20], None]), S(["asg", [3, 10], ["lit", one]]), S(["asg", [3, 10, 20], ["lit", one]]),
        S(["rd", [2, 10], None], [[2, [[10, lst]]]]), S(["rd", [2, 10], None]), S(["asg", [2, 10], ["lit", one]], [[2, [[10, lst]]]]),
        S(["rd", [2, 10, 20], None], [[2, [[10, lst]]]]), S(["rd", [2, 10, 20], None]),
        S(["rd", [4, 15], None]), S(["get", [4, 15], 2]), S(["asg", [4, 15], ["lit", off]]), S(["rd", [4, 15, 100], None]),
        S(["rd", [1, 14], None]), X("reg", [1, 14]), S(["rd", [1, 14], None]), S(["rd", [1, 14, 20], None]), S(["rd", [1, 14, 21], None]),
        S(["asg", [1, 14], ["lit", off]]), S(["get", [1, 14], None]), X("unreg", [1, 14]), S(["rd", [1, 14], None]),
        S(["rslot", 1]), S(["rslota", 1, 100]), S(["rslota", 1, 23]), S(["gattrs", 1]), S(["gattr", e0]),
        S(["del", e0 + [20]]), S(["del", e0 + [20]]), S(["rslot", 1]), S(["del", e0]), S(["del", e0]), S(["rslot", 1]), S(["rslota", 1, 20]),
        S(["del", [3, 12]]), S(["del", [3, 10, 20]]), S(["names", None, False]), S(["names", 2, True]),
    ]
    for mode in ("func", "live"):
        for legacy in (False, True):
            cases.append({"mode": mode, "legacy": legacy, "gobj": [[10, on], [11, lst]], "steps": routing})
    # the three time stamps: created / re-reported unchanged / attribute changed / value changed, from outside and from the script
    def reads():
        return [S(["rd", e0, 2]), S(["rd", e0 + [101], None]), S(["rd", e0 + [102], None]), S(["rd", e0 + [103], None]),
                S(["get", e0 + [103], None]), S(["rslota", 2, 103]), S(["rslota", 2, 102]), S(["rslota", 2, 101])]
    times = ([X("set", e0, on, [[20, one]])] + reads() + [X("set", e0, on, [[20, one]])] + reads()
             + [S(["asg", e0, ["lit", on]])] + reads() + [X("set", e0, on, [[20, true]])] + reads()
             + [S(["asg", e0 + [21], ["lit", off]])] + reads() + [X("set", e0, on, [[20, one], [21, off]])] + reads()
             + [S(["asg", e0, ["lit", off]])] + reads() + [S(["set", e0, None, None, [], False])] + reads()
             + [X("set", e0, on, [])] + reads() + [S(["asg", e1, ["slot", 2]])] + [S(["rd", e1 + [103], None]), S(["rslota", 2, 103])])
    for mode in ("func", "live"):
        cases.append({"mode": mode, "legacy": mode == "live", "gobj": [[10, on]], "steps": times})
    # entity-service table across refreshes; attribute names that are also str methods (count, title)
    pl0 = [2, 10]
    def probe(ent):
        return [S(["rd", ent + [13], None]), S(["exist", ent + [13]]), S(["get", ent + [13], None]), S(["exist", ent + [16]]), S(["rd", ent + [16], None])]
    svc = ([X("set", e0, on, [[20, one]]), X("set", pl0, on, [[13, off]])] + probe(e0) + probe(pl0)
           + [X("regm", [2, 13]), X("regm", [1, 16])] + probe(e0) + probe(pl0) + [X("refresh")] + probe(e0) + probe(pl0)
           + [X("unreg", [1, 16])] + probe(e0) + [X("refresh")] + probe(e0)
           + [X("unreg", [2, 13])] + probe(pl0) + [X("refresh")] + probe(pl0)          # last entity service of domain pvl removed
           + [X("unreg", [1, 13]), X("refresh")] + probe(e0) + [X("regm", [1, 13]), X("refresh")] + probe(e0))
    strm = [X("set", e0, on, [[20, one]]), S(["exist", e0 + [24]]), S(["rd", e0 + [24], None]), S(["get", e0 + [24], None]), S(["rd", e0 + [25], None]),
            S(["exist", e0 + [25]]), S(["asg", e0 + [24], ["lit", one]]), S(["exist", e0 + [24]]), S(["rd", e0 + [24], None]), S(["rd", e0, 0]),
            S(["del", e0 + [24]]), S(["exist", e0 + [24]]), S(["rd", e0 + [24], None]), S(["rslota", 0, 24]), S(["rslota", 0, 25]), S(["rslota", 1, 24]),
            S(["rd", [3, 10, 24], None]), S(["rd", [3, 11, 24], None]), S(["rd", [3, 11, 25], None]), X("reg", [1, 14]), X("set", [1, 14], on, []),
            S(["rd", [1, 14, 24], None]), S(["exist", [1, 14, 24]]), S(["del", e0 + [24]]), S(["sattr", e0 + [25], off]), S(["exist", e0 + [25]]),
            X("set", e0, on, []), S(["exist", e0 + [25]]), S(["exist", e0 + [24]])]
    for mode in ("func", "live"):
        cases.append({"mode": mode, "legacy": mode == "func", "gobj": [[10, on], [11, lst]], "steps": svc})
        cases.append({"mode": mode, "legacy": mode == "live", "gobj": [[10, on], [11, lst]], "steps": strm})
    # several operations on the same dotted names in one function body containing a nested def/class/lambda/comprehension
    def grp(gid, nest, ops):
        return [dict(S(o), grp=gid, nest=nest) for o in ops]
    for legacy in (False, True):
        for mode in ("func", "live"):
            steps = [X("set", e0, on, [[20, one]])]
            for nest in ("def", "class", "lambda", "comp", "inner"):
                steps += grp(len(steps), nest, [["asg", e0, ["lit", off]], ["rd", e0, 0], ["rd", e0 + [20], None],
                                                ["asg", e0 + [20], ["lit", true]], ["rd", e0 + [20], None], ["rd", e0 + [101], None]])
                steps += grp(len(steps), nest, [["rd", e1, None], ["asg", e1, ["lit", on]], ["rd", e1, 1], ["asg", e1 + [21], ["lit", lst]],
                                                ["del", e1 + [21]], ["rd", e1 + [21], None], ["del", e1], ["rd", e1, None], ["rslot", 1]])
                steps.append(X("set", e0, on, [[20, one]]))
            cases.append({"mode": mode, "legacy": legacy, "gobj": [[10, on]], "steps": steps})
    return cases


FIXED_CASES = _fixed_cases()


class C16(Prop):
    id = "C16"
    title = "State variables read and write Home Assistant state faithfully"
    coq_targets = ["Properties/C16.vo"]
    property_file = "Properties/C16.v"
    streams = [StateVarStream()]
    trusted_base = [
        "modelled, not verified: state.py State.get/exist/set/setattr/delete/getattr/names + StateVal.__new__ (StateVar/StateModel.v), "
        "eval.py ast_name/ast_attribute_collapse/ast_attribute/recurse_assign/ast_delete for dotted names (StateVar/Resolve.v)",
        "environment model: hass.states as an insertion-ordered map with async_set's 'same attributes keep the old attribute object' "
        "rule (ha_write), hass.services as a set; Python's str() and == on values enter as the host tables shipped by the harness",
        "harness: generated script source (workers/c16_statevar.py), canonicalisation of values (workers/c16_sink.py), id tables (c16_tables.py)",
    ]
    assumptions = [
        "identifiers used as domains/entity names/attributes are not Python builtins and not 'new_attributes'/'var_name'",
        "str() is idempotent and never None (host hypotheses of C16_refines; Example host_table_ok)",
        "scripts do not mutate list/dict attribute values in place and do not assign attributes on StateVal objects (outside C16's quantifier)",
    ]
    partial_note = ("last_changed/last_updated/last_reported are compared as logical step times (Home Assistant's wall clock is replaced "
                    "by a per-step logical clock); entity names are lower case; state.persist and the context= keyword are not modelled")

    def translate(self, ctx):
        return {"Gen/StateConsts.v": gen_state_consts()}


PROP = C16()

MANIFEST_ENTRY = {
    "technique": "Rocq proof (refinement Model = Spec by induction over operation sequences with a state invariant) + in-Coq correspondence with the real pyscript in a real HomeAssistant",
    "level_text": ("C16_refines: for every sequence of script operations and external changes the Gallina model of state.py / eval.py's dotted-name "
                   "routing (deviation switches off) produces the same outputs and final state as the documented rules; C16_snapshot_immutable; "
                   "C16_priority. Constants (virtual attributes, StateVal fields, State.set parameters, function names) are regenerated from "
                   "state.py on every run; the model is compared inside Coq, step by step, with what the real code did on generated sequences."),
    "level_note": ("Trusted: Coq kernel+vm_compute; the dictionary model of hass.states; host tables for str()/==; translator and worker in /verif/harness. "
                   "Open findings D160, D161, D7 are reproduced by the model behind switches."),
    "design_ref": "DESIGN.md §4 C16",
}
