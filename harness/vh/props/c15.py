"""C15 — task.wait_until returns for the first qualifying trigger and always cleans up."""
import ast

from .. import coqio as q
from ..core import Prop, Stream, cfg_prelude, run_workers_parallel, split_chunks
from ..translate import TranslateError, const, find_class, find_func, one, parse_file, walk_find


# ------------------------------------------------------------------------------------------------
# T1: defaults and structural facts of both wait_until implementations -> Gen/WaitConsts.v
# ------------------------------------------------------------------------------------------------
def _is_self_attr(node, attr):
    return (isinstance(node, ast.Attribute) and node.attr == attr and isinstance(node.value, ast.Name)
            and node.value.id == "self")


def _notify_del_owners(nodes):
    out = []
    for n in nodes:
        for c in walk_find(n, lambda x: isinstance(x, ast.Call) and isinstance(x.func, ast.Attribute)
                           and x.func.attr == "notify_del" and isinstance(x.func.value, ast.Name)):
            out.append(c.func.value.id)
    return out


def translate_wait():
    out = {}
    # ---- legacy: TrigTime.wait_until
    trig = parse_file("trigger.py")
    wu = find_func(find_class(trig, "TrigTime"), "wait_until")
    names = [a.arg for a in wu.args.args]
    defaults = dict(zip(names[len(names) - len(wu.args.defaults):], wu.args.defaults))
    for kw in ("state_trigger", "state_check_now", "time_trigger", "event_trigger", "timeout", "state_hold"):
        if kw not in defaults:
            raise TranslateError(f"legacy wait_until: keyword {kw} has no default")
    out["wu_legacy_cn_default"] = const(defaults["state_check_now"], (bool,))
    for kw in ("state_trigger", "time_trigger", "event_trigger", "timeout", "state_hold"):
        d = defaults[kw]
        if not (isinstance(d, ast.Constant) and d.value is None):
            raise TranslateError(f"legacy wait_until: default of {kw} is not None")
    # the epilogue: notify_del of all four sources after the main loop, possibly inside try/finally
    loops = [n for n in wu.body if isinstance(n, ast.While)]
    tries = [n for n in wu.body if isinstance(n, ast.Try) and n.finalbody]
    if tries:
        t = one(tries, "try/finally statement of wait_until")
        if not walk_find(t, lambda n: isinstance(n, ast.While)):
            raise TranslateError("legacy wait_until: try/finally does not contain the wait loop")
        owners = _notify_del_owners(t.finalbody)
        out["wu_legacy_epilogue_in_finally"] = True
    else:
        lp = one(loops, "top-level `while True` loop of wait_until")
        after = wu.body[wu.body.index(lp) + 1:]
        owners = _notify_del_owners(after)
        out["wu_legacy_epilogue_in_finally"] = False
    if sorted(set(owners)) != ["Event", "Mqtt", "State", "Webhook"]:
        raise TranslateError(f"legacy wait_until: epilogue releases {sorted(set(owners))}, expected State/Event/Mqtt/Webhook")
    # ---- default subsystem: state_check_now default inside task.wait_until
    cls = find_class(parse_file("decorators/state.py"), "StateTriggerDecorator")
    val = find_func(cls, "validate")
    ifs = walk_find(val, lambda n: isinstance(n, ast.If)
                    and walk_find(n.test, lambda x: _is_self_attr(x, "in_wait_until_function"))
                    and walk_find(n.test, lambda x: _is_self_attr(x, "state_check_now")))
    iff = one(ifs, "`if self.state_check_now is None and self.in_wait_until_function` in validate")
    asg = one([s for s in iff.body if isinstance(s, ast.Assign)], "assignment of the wait_until default of state_check_now")
    if not (len(asg.targets) == 1 and _is_self_attr(asg.targets[0], "state_check_now")):
        raise TranslateError("StateTriggerDecorator.validate: default assignment is not to self.state_check_now")
    out["wu_dm_cn_default"] = const(asg.value, (bool,))
    # ---- default subsystem: how WaitUntilDecoratorManager tests `timeout`, and whether stop() is in a finally
    dm = find_class(parse_file("decorator.py"), "WaitUntilDecoratorManager")
    init = find_func(dm, "__init__")
    tests = [n for n in ast.walk(init) if isinstance(n, ast.If) and walk_find(n.test, lambda x: (
        isinstance(x, ast.Name) and x.id == "timeout") or (isinstance(x, ast.Constant) and x.value == "timeout"))]
    t = one(tests, "`if` on the timeout argument in WaitUntilDecoratorManager.__init__").test
    if isinstance(t, ast.NamedExpr) or isinstance(t, ast.Name):
        out["wu_dm_timeout_test_truthy"] = True
    elif (isinstance(t, ast.Compare) and len(t.ops) == 1 and isinstance(t.ops[0], ast.IsNot)
          and isinstance(t.comparators[0], ast.Constant) and t.comparators[0].value is None):
        out["wu_dm_timeout_test_truthy"] = False
    else:
        raise TranslateError("WaitUntilDecoratorManager.__init__: unrecognised test on timeout: " + ast.dump(t)[:120])
    w = find_func(dm, "wait_until")
    fin = [n for n in ast.walk(w) if isinstance(n, ast.Try) and n.finalbody]
    out["wu_dm_stop_in_finally"] = bool(fin) and bool(walk_find(fin[0], lambda x: isinstance(x, ast.Attribute) and x.attr == "stop"))
    return out


def gen_wait_consts():
    c = translate_wait()
    lines = ["(* GENERATED by harness/vh/props/c15.py from trigger.py / decorator.py / decorators/state.py — do not edit *)",
             "From PV Require Import Common.Util.", ""]
    for k, v in c.items():
        lines.append(f"Definition {k} : bool := {q.boolean(v)}.")
    return "\n".join(lines) + "\n"


# ------------------------------------------------------------------------------------------------
# stream: one wait_until call per case, timed histories around it, cancellation at chosen instants
# ------------------------------------------------------------------------------------------------
SWITCHES = [("d_timeout0_falsy", "D18"), ("d_leak_legacy", "D19"), ("d_leak_dm", "D150"), ("d_now_restarts", "D151"),
            ("d_badexpr_leak", "D152"), ("d_none_eager", "D153"), ("d_hold_latest", "D154"), ("d_hold_attr_cancels", "D155")]
HFS = [0, 500, 1500, 2500]
OFFS = [250, 1250, 2250, 3250, 5250, -1000, -2750]
TIMEOUTS = [0, 0, 500, 1500, 2500, 4500, 6500]
HOLDS = [750, 1750, 2750]
SRES = {"T": "STrue", "F": "SFalse", "X": "SRaise"}
EXC_KIND = {"ValueError": "EState", "NameError": "EEvent", "KeyError": "EEvent", "SyntaxError": "ESyntax"}


def _tail(case):
    st = case.get("st") or {}
    return max([o for o in (case.get("tt") or [])] + [st.get("hold") or 0, case.get("to") or 0, 0]) + 1000


def _mk(sub, st=None, tt=None, ev=None, to=None, pre=None, hist=None, cancel=None, how="cancel", badexpr=None, others=None,
        again=0):
    if ev is not None:
        ev = dict(ev)
        ev.setdefault("chan", "event")
    c = {"sub": sub, "st": st, "tt": tt, "ev": ev, "to": to, "badexpr": badexpr, "pre": pre or [], "hist": hist or [],
         "cancel": cancel, "how": how, "others": others or [], "again": again}
    c["tail"] = _tail(c)
    return c


def _st(cn, init, hold=None, hf=None):
    return {"cn": cn, "init": init, "hold": hold, "hf": hf}


def _cn_eff(st):
    return st is not None and st["cn"] is not False


def _rand_case(rng):
    sub = rng.choice(["legacy", "dm"])
    st = None
    if rng.random() < 0.7:
        st = _st(rng.choice([None, None, True, False]), rng.choice(["T", "T", "F", "F", "F", "X"]),
                 rng.choice([None, None, None] + HOLDS), rng.choice(HFS) if rng.random() < 0.35 else None)
    tt = None
    if rng.random() < 0.45:
        tt = [rng.choice(OFFS) for _ in range(rng.choice([1, 1, 2, 3]))]
    ev = {"filter": rng.random() < 0.6, "chan": rng.choice(["event", "event", "webhook", "mqtt"])} if rng.random() < 0.5 else None
    again = rng.choice([1, 1, 2]) if rng.random() < 0.3 else 0
    others = None
    if ev is not None and ev["chan"] == "event" and rng.random() < 0.3:
        others = [o for o in ("wmut", "w2", "fnkw") if rng.random() < 0.6] or ["wmut"]
    to = rng.choice(TIMEOUTS) if rng.random() < 0.45 else None
    badexpr = None
    if rng.random() < 0.05 and (st is None or (st["cn"] is False and st["hf"] is None)):
        # the unparsable condition must come after the awaited channel in the legacy prologue (event, mqtt, webhook)
        chan = ev["chan"] if ev else "event"
        badexpr = {"event": rng.choice(["mqtt", "webhook"]), "mqtt": "webhook", "webhook": None}[chan]
    kinds = ["U", "O"]
    if st is not None:
        kinds += ["T"] * 5 + ["F"] * 5 + ["I"] * 3 + ["X"]
    else:
        kinds += ["T", "F"]
    if ev is not None:
        kinds += ["E1"] * 3 + ["E0"] * 4 + ["EX"]
    else:
        kinds += ["E1"]
    pre = []
    t = -1000 * rng.choice([1, 2, 3, 4])
    for _ in range(rng.choice([0, 0, 1, 2, 3])):
        if t >= 0:
            break
        pre.append([t, rng.choice(kinds)])
        t += 1000 * rng.choice([0, 1, 1, 2])
    hist = []
    t = 0
    hold = st is not None and (st["hold"] is not None or st["hf"] is not None)
    hf = st is not None and st["hf"] is not None
    for _ in range(rng.choice([0, 1, 2, 3, 4, 5, 6, 8])):
        # whole seconds, or (state_hold cases) 400/600 ms after one: several changes inside one hold period
        if hold and rng.random() < 0.5:
            t = (t // 1000) * 1000 + rng.choice([400, 600, 1000, 1400, 1600])
        else:
            t = (t // 1000) * 1000 + 1000 * rng.choice([1, 1, 1, 2, 2, 3])
        k = rng.choice(kinds)
        if hf and k in ("X", "I", "U", "O") and rng.random() < 0.7:
            k = rng.choice(["T", "F"])   # state_hold_false cases: several false/true alternations with short and long periods
        elif hold and not hf and k in ("F", "X", "I") and rng.random() < 0.6:
            k = "T"          # state_hold cases: mostly still-true changes (true, true', true'' with different values)
        hist.append([t, k])
    hist.sort(key=lambda e: e[0])      # the off-grid choice may step back inside a second: keep the history in time order
    cancel = None
    how = "cancel"
    if rng.random() < 0.35:
        cancel = rng.choice([0] + [125 + 250 * i for i in range(0, (t + 3000) // 250)])
        how = rng.choice(["cancel", "unique"])
    return _mk(sub, st, tt, ev, to, pre, hist, cancel, how, badexpr, others, again)


def _occ(case, k, kind):
    ev = case.get("ev")
    if kind in SRES:
        return f"OState {SRES[kind]} {q.N(k)}"
    if kind == "I":
        return f"OAttr {q.N(k)}"
    if kind in ("E1", "E0", "EX"):
        if ev is None or not ev.get("filter"):
            r = "STrue"
        else:
            r = {"E1": "STrue", "E0": "SFalse", "EX": "SRaise"}[kind]
        return f"OEvent {r} {q.N(k)}"
    return "OUnw"


class WaitStream(Stream):
    name = "wait"
    rule = ("one task.wait_until call per case: every combination of state_trigger (state_check_now unset/True/False, expression "
            "initially true/false/raising, state_hold unset or 0.75/1.75/2.75 s) / time_trigger (1-3 once(now + o) with future and "
            "past o) / event_trigger (with and without filter) / timeout (unset, 0, 0.5-6.5 s) on fixed histories, then random "
            "combinations with random timed histories before and after the call (state changes making the expression "
            "true/false/raise, attribute-only updates, unwatched entities, events matching/not matching/raising in the filter, "
            "unrelated events; occurrences on whole seconds, time offsets = 0.25, timeouts = 0.5, holds = 0.75 mod 1 s so no two "
            "candidates tie) and cancellation of the waiting task (task.cancel or task.unique) at 0 or any instant = 0.125 mod "
            "0.25 s; the script reports the returned dict; subscriptions, bus listeners and live pyscript tasks are compared "
            "before the call vs at the first grid point after the task ended; both subsystems; state_hold cases also have "
            "occurrences 0.4/0.6 s after a whole second: several still-true changes with different values, attribute-only updates "
            "and true->false->true sequences inside one hold period, with and without timeout; non-trivial = something "
            "qualifying or a cancellation after the call; state_hold_false (0/0.5/1.5/2.5 s) cases have several false/true "
            "alternations with short and long false periods, combined with state_hold and timeout; cases with 1-3 concurrent "
            "listeners of the awaited event type (a waiter editing its dict, a filtered waiter clearing it, an @event_trigger "
            "function with kwargs=) check every listener's dict exactly, twice; the awaited channel is an event type, a "
            "webhook id or an mqtt topic (deliveries through the registered HA handlers); with again=1..2 the same call is "
            "repeated by a fresh task 10 ms after the previous one is over and every call is judged on its own against "
            "Model and Spec (its own pre-history, history, ledger baseline); distinct by case")
    requires = "From PV Require Import Trig.WaitUntil Trig.WaitUntilCheck."
    case_type = "list wcase"
    check_model = "wcases_model_ok pv_cfg"
    check_spec = "wcases_spec_ok"
    attrib = "wcases_attrib pv_cfg"
    explain = "wcases_explain pv_cfg"
    shard_size = 120

    def budget(self, tier):
        return 1100 if tier == "quick" else 9000

    def prelude(self, ctx, findings, witness_terms):
        return cfg_prelude(SWITCHES, findings, witness_terms, "wcases_spec_ok")

    def generate(self, ctx, budget, focus=None):
        rng = ctx.rng
        cases = []
        h_state = [[1000, "F"], [2000, "I"], [3000, "T"], [4000, "F"]]
        h_event = [[1000, "E0"], [2000, "O"], [3000, "E1"]]
        h_mixed = [[1000, "E0"], [2000, "F"], [3000, "T"], [4000, "E1"]]
        for sub in ("legacy", "dm"):
            # argument combinations on fixed histories
            for cn in (None, True, False):
                for init in ("T", "F"):
                    for hold in (None, 1750):
                        for to in (None, 0, 2500):
                            cases.append(_mk(sub, _st(cn, init, hold), None, None, to, [[-2000, "T"], [-1000, "F"], [-1000, "E1"]] if init == "F" else [],
                                             [[1000, "F"], [3000, "T"], [6000, "F"]] if hold else h_state))
            for flt in (False, True):
                for to in (None, 0, 1500, 4500):
                    for tt in (None, [2250], [-1000], [-1000, 3250]):
                        cases.append(_mk(sub, None, tt, {"filter": flt}, to, [[-1000, "E1"]], h_event))
            for tt in ([1250], [-1000], [3250, 1250], [-2750, -1000]):
                for to in (None, 0, 500, 2500):
                    cases.append(_mk(sub, None, tt, None, to, [], [[1000, "U"]]))
            for to in (None, 0, 1500):
                cases.append(_mk(sub, None, None, None, to))
            # cancellation at every instant of the grid for a full combination
            for c in [0] + [125 + 250 * i for i in range(0, 18)]:
                cases.append(_mk(sub, _st(False, "T"), [3250], {"filter": True}, 4500, [], h_mixed, c, "cancel" if c % 500 == 125 else "unique"))
            for c in (125, 1125, 2125):
                cases.append(_mk(sub, _st(None, "T", 2750), None, None, None, [], [], c))
                cases.append(_mk(sub, None, None, None, 2500, [], [], c))
                cases.append(_mk(sub, None, [3250], None, None, [], [], c))
            # state_hold: still-true changes (different values), attribute-only updates, true->false->true inside a hold period
            for to in (None, 4500, 6500):
                for cn, init in ((False, "F"), (None, "T"), (None, "F")):
                    cases.append(_mk(sub, _st(cn, init, 2750), None, None, to, [], [[1000, "T"], [1400, "T"], [2600, "T"]]))
                    cases.append(_mk(sub, _st(cn, init, 2750), None, None, to, [], [[1000, "T"], [1400, "F"], [1600, "T"], [2000, "T"]]))
                    cases.append(_mk(sub, _st(cn, init, 1750), None, {"filter": True}, to, [], [[1000, "T"], [1600, "T"], [2000, "E0"], [2400, "T"]]))
                    cases.append(_mk(sub, _st(cn, init, 2750), None, None, to, [], [[1000, "T"], [2000, "I"], [2400, "T"]]))
            # state_hold_false x state_hold x timeout: short and long false periods, a cancelled hold followed by a quick true
            hh = [[[1600, "T"], [2000, "F"], [2400, "T"], [4000, "F"], [5600, "T"]],
                  [[1000, "F"], [1400, "T"], [2000, "T"], [2600, "F"], [3000, "F"], [4600, "T"], [5000, "I"]]]
            for cn in (None, False):
                for init in ("T", "F"):
                    for hf in (0, 1500):
                        for hold in (None, 1750):
                            for to in (None, 6500):
                                cases.append(_mk(sub, _st(cn, init, hold, hf), None, None, to, [], hh[len(cases) % 2]))
            cases.append(_mk(sub, _st(None, "F", 1750, 1500), None, None, 6500, [], [[1600, "T"], [2000, "F"], [2400, "T"]]))
            cases.append(_mk(sub, _st(None, "X", None, 500), None, None, None, [], [[1000, "T"]]))
            cases.append(_mk(sub, _st(False, "X", None, 500), None, None, None, [], [[1000, "T"]]))
            # 2-3 concurrent listeners of the awaited event type
            for others in (["wmut"], ["fnkw"], ["wmut", "w2", "fnkw"]):
                for flt in (False, True):
                    cases.append(_mk(sub, None, None, {"filter": flt}, None, [[-1000, "E1"]], [[1000, "E0"], [2000, "E1"], [3000, "E1"]], others=others))
                cases.append(_mk(sub, None, None, {"filter": True}, 2500, [], [[1000, "E0"]], 1125, others=others))
            # the awaited channel is a webhook id / an mqtt topic; the same call repeated by fresh tasks (what one call
            # leaves behind must not matter to the next)
            for chan in ("event", "webhook", "mqtt"):
                for flt in (False, True):
                    for to in (None, 1500):
                        cases.append(_mk(sub, None, None, {"filter": flt, "chan": chan}, to, [[-1000, "E1"]],
                                         [[1000, "E0"], [2000, "E1"], [3000, "E1"], [4000, "EX"], [6000, "E1"]], again=2))
                cases.append(_mk(sub, None, [1250], {"filter": True, "chan": chan}, None, [], [[1000, "E0"], [3000, "E1"]], 1125, again=1))
                cases.append(_mk(sub, _st(False, "F"), None, {"filter": False, "chan": chan}, None, [], [[2000, "T"], [3000, "E1"]], 625, "unique", again=2))
            cases.append(_mk(sub, None, None, {"filter": False, "chan": "mqtt"}, None, [], [[1000, "E1"]], badexpr="webhook", again=1))
            for cn in (None, False):
                cases.append(_mk(sub, _st(cn, "F", 1750, 1500), [3250], None, 4500, [], [[1600, "T"], [2000, "F"], [4600, "T"], [9000, "F"], [11000, "T"]], again=2))
            # exceptions in a condition
            cases.append(_mk(sub, _st(None, "X"), None, {"filter": True}, None, [], h_event))
            cases.append(_mk(sub, _st(None, "F"), None, {"filter": True}, 2500, [], [[1000, "X"]]))
            cases.append(_mk(sub, _st(None, "F"), [3250], {"filter": True}, None, [], [[1000, "EX"]]))
            for be in ("mqtt", "webhook"):
                cases.append(_mk(sub, _st(False, "F"), None, {"filter": True}, None, [], h_event, badexpr=be))
                cases.append(_mk(sub, None, [1250], None, None, [], [], badexpr=be))
        if budget < len(cases):
            rng.shuffle(cases)
            cases = cases[:budget]
        while len(cases) < budget:
            cases.append(_rand_case(rng))
        return cases

    def run_impl(self, ctx, cases):
        chunks = split_chunks(cases, 12)
        res = run_workers_parallel(ctx, "vh.workers.c15_wait", [{"cases": c} for c in chunks], timeout=1500)
        return [o for r in res for o in r]

    def to_coq(self, case, obs):
        """one wcase per call of the scenario: occurrences before the call instant t2 are its pre-history, the others
        (and a later cancellation) its history, all times relative to t2"""
        st = case.get("st")
        def mkargs(shared):
            return ("{| a_state := %s; a_cn := %s; a_hold := %s; a_hf := %s; a_times := %s; a_event := %s; a_timeout := %s; "
                    "a_badexpr := %s; a_shared := %s |}" % (
                        q.boolean(st is not None),
                        q.option(None if (st is None or st.get("cn") is None) else q.boolean(st["cn"])),
                        q.option(None if (st is None or st.get("hold") is None) else q.Z(st["hold"])),
                        q.option(None if (st is None or st.get("hf") is None) else q.Z(st["hf"])),
                        q.option(None if case.get("tt") is None else q.lst(q.Z(o) for o in case["tt"])),
                        q.boolean(case.get("ev") is not None),
                        q.option(None if case.get("to") is None else q.Z(case["to"])),
                        q.boolean(bool(case.get("badexpr"))), q.boolean(shared)))

        occs = []
        k = 0
        for t, kind in (case.get("pre") or []):
            k += 1
            occs.append((t, 0, k, _occ(case, k, kind)))
        for t, kind in (case.get("hist") or []):
            k += 1
            occs.append((t, 1, k, _occ(case, k, kind)))
        if case.get("cancel") is not None:
            occs.append((case["cancel"], 2, 0, "OCancel"))
        occs.sort(key=lambda x: (x[0], x[1], x[2]))
        init = SRES[st["init"]] if st else "SFalse"
        terms = []
        for o in [obs] + list(obs.get("more") or []):
            t2 = int(o.get("t2") or 0)
            pre = [f"({q.Z(t - t2)}, {term})" for (t, ph, _k, term) in occs if term != "OCancel" and (t < t2 or (t == t2 and ph == 0))]
            hist = [f"({q.Z(t - t2)}, {term})" for (t, ph, _k, term) in occs if t > t2 or (t == t2 and ph > 0)]
            terms.append("{| wc_legacy := %s; wc_args := %s; wc_init := %s; wc_pre := %s; wc_hist := %s; wc_obs := %s |}" % (
                q.boolean(case["sub"] == "legacy"), mkargs(bool(o.get("shared"))), init, q.lst(pre), q.lst(hist),
                self._obs(o)))
        return q.lst(terms)

    @staticmethod
    def _obs(obs):
        dict_ok = bool(obs.get("dict_ok"))
        ex = obs.get("exit")
        if ex == "ret":
            kind = obs.get("kind")
            if kind == "state":
                x = f"XRet (RState {q.N(int(obs.get('n') or 0))})"
            elif kind == "event":
                x = f"XRet (REvent {q.N(int(obs.get('n') or 0))})"
            elif kind == "time":
                x = f"XRet (RTime {q.Z(int(obs.get('tm') or 0))})"
            elif kind == "timeout":
                x = "XRet RTimeout"
            elif kind == "none":
                x = "XRet RNone"
            else:
                x, dict_ok = "XRet RNone", False
        elif ex == "exc":
            x = f"XExc {EXC_KIND.get(obs.get('kind'), 'EOther')}"
        elif ex == "cancelled":
            x = "XCancelled"
        elif ex == "pending":
            x = "XPending"
        else:
            x, dict_ok = "XExc EOther", False
        leak = obs.get("leak")
        leak_end = obs.get("leak_end") or [99, 99, 99, 99]
        return "{| o_exit := %s; o_time := %s; o_dict_ok := %s; o_leak := %s; o_leak_end := %s; o_late := %s; o_other_ok := %s |}" % (
            x, q.Z(int(obs.get("t") or 0)), q.boolean(dict_ok),
            q.option(None if leak is None else "(" + ", ".join(q.Z(int(v)) for v in leak) + ")"),
            "(" + ", ".join(q.Z(int(v)) for v in leak_end) + ")",
            q.N(int(obs.get("late") or 0)), q.boolean(not obs.get("other")))

    def nontrivial(self, case, obs):
        return bool(case.get("hist")) or case.get("cancel") is not None

    def kind(self, case, obs):
        parts = [case["sub"]]
        if case.get("others"):
            parts.append("conc")
        if case.get("again"):
            parts.append("x%d" % (1 + len(obs.get("more") or [])))
        if (case.get("ev") or {}).get("chan") not in (None, "event"):
            parts.append(case["ev"]["chan"])
        if (case.get("st") or {}).get("hf") is not None:
            parts.append("hf")
        for key in ("st", "tt", "ev"):
            if case.get(key) is not None:
                parts.append(key)
        if case.get("to") is not None:
            parts.append("to0" if case["to"] == 0 else "to")
        if (case.get("st") or {}).get("hold") is not None:
            parts.append("hold")
        if case.get("cancel") is not None:
            parts.append("cancel")
        return "/".join(parts) + " -> " + str(obs.get("exit")) + (":" + str(obs.get("kind")) if obs.get("exit") in ("ret", "exc") else "")

    def describe(self, case, obs):
        return {"case": case, "observed": {k: obs.get(k) for k in ("exit", "t", "kind", "n", "tm", "dict_ok", "leak", "leak_end", "late", "err")}}


class C15(Prop):
    id = "C15"
    title = "task.wait_until returns for the first qualifying trigger and always cleans up"
    coq_targets = ["Properties/C15.vo"]
    property_file = "Properties/C15.v"
    streams = [WaitStream()]
    trusted_base = [
        "modelled, not verified: TrigTime.wait_until (legacy) and DecoratorRegistry.wait_until/WaitUntilDecoratorManager with the "
        "state/time/event trigger decorators (Trig/WaitUntil.v): one call as prologue (subscribe) / loop over a timed history / "
        "epilogue (unsubscribe); conditions are abstracted to their result on each occurrence (true/false/raise)",
        "the worker's check that a returned dict equals what a decorator would pass (harness/vh/workers/c15_wait.py check_dict) "
        "and its ledger projection (State.notify queues, Event.notify queues, bus listeners on pv_* types, live tasks running "
        "pyscript code) are Python, not Coq",
    ]
    assumptions = [
        "timed histories: instants after the call in non-decreasing order; state_hold and timeout non-negative",
        "no two candidates at the same instant in generated cases (the Spec lets a fixed instant win a tie)",
        "no other pyscript listener on the awaited event type (the legacy bus listener is shared per event type)",
    ]
    partial_note = ("'any change' state names and cron/period time specifications are not modelled here "
                    "(any-change timing: C05; time specifications: C06); webhook methods/local_only and mqtt wildcards/encodings: C08")

    def translate(self, ctx):
        return {"Gen/WaitConsts.v": gen_wait_consts()}


PROP = C15()

MANIFEST_ENTRY = {
    "technique": "Rocq proof (induction over the timed history of one wait_until call; ledger invariant) + in-Coq correspondence "
                 "with the real task.wait_until of both subsystems on a virtual clock",
    "level_text": ("Theorems C15_first / C15_deaf_before / C15_deaf_after / C15_ledger_restored hold for every argument combination, "
                   "every timed history and every cancellation instant about a Gallina model of one task.wait_until call (both "
                   "subsystems) with all deviation switches off; C15_refuted_D18/D19_legacy/D19_new/D151/D152/D153 exhibit the "
                   "witnesses on which today's code deviates. The model (with the switches measured from the witnesses) is compared "
                   "inside Coq with the real code on generated argument combinations, histories and cancellation instants."),
    "level_note": ("Trusted: Coq kernel+vm_compute; the abstraction of conditions to true/false/raise per occurrence; the worker's "
                   "dictionary and ledger projections; HomeAssistant test fixture + virtual clock. Not modelled: state_hold_false, "
                   "mqtt/webhook deliveries, cron/period specifications."),
    "design_ref": "DESIGN.md §4 C15",
}
