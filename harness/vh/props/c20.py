"""C20 — requirements resolution is order-independent and never overrides the host."""
import ast
import itertools

from .. import core
from ..core import Prop, Stream, cfg_prelude, run_workers_parallel, split_chunks
from ..translate import TranslateError, const, find_assign, find_func, one, parse_file, str_collection, walk_find


# ------------------------------------------------------------------------------------------------
# T1: constants of requirements.py / const.py -> Gen/ReqConsts.v
# ------------------------------------------------------------------------------------------------
def _codes(s):
    return [ord(c) for c in s]


def _q_str(s):
    return "[" + "; ".join(f"{c}%N" for c in _codes(s)) + "]"


def _method_calls(fn, var, meth):
    return walk_find(fn, lambda n: isinstance(n, ast.Call) and isinstance(n.func, ast.Attribute) and n.func.attr == meth
                     and isinstance(n.func.value, ast.Name) and n.func.value.id == var)


def _is_len_of(node, name):
    return (isinstance(node, ast.Call) and isinstance(node.func, ast.Name) and node.func.id == "len" and len(node.args) == 1
            and isinstance(node.args[0], ast.Name) and node.args[0].id == name)


def translate_requirements():
    out = {}
    # ---- const.py
    ctree = parse_file("const.py")
    paths = str_collection(find_assign(ctree, "REQUIREMENTS_PATHS"))
    pats = []
    for p in paths:
        comps = []
        for comp in [c for c in p.split("/") if c != ""]:
            if comp in ("*", "**"):
                comps.append(None)  # one non-hidden path component (glob.glob without recursive=True)
            elif any(ch in comp for ch in "*?["):
                raise TranslateError(f"REQUIREMENTS_PATHS: unsupported glob component {comp!r}")
            else:
                comps.append(comp)
        pats.append(comps)
    out["req_paths"] = pats
    out["req_file"] = const(find_assign(ctree, "REQUIREMENTS_FILE"), (str,))
    unp = const(find_assign(ctree, "UNPINNED_VERSION"), (str,))
    if unp == "" or unp != unp.strip():
        raise TranslateError("UNPINNED_VERSION must be a non-empty string without surrounding white space")
    out["unpinned_version"] = unp

    # ---- requirements.py : process_all_requirements
    tree = parse_file("requirements.py")
    fn = find_func(tree, "process_all_requirements")
    find_call = one(_method_calls(fn, "pkg", "find"), "pkg.find(...) call")
    cc = const(one(find_call.args, "argument of pkg.find"), (str,))
    if len(cc) != 1:
        raise TranslateError("comment marker is not a single character")
    out["req_comment_char"] = ord(cc)
    strip_call = one(_method_calls(fn, "pkg", "strip"), "pkg.strip() call")
    if strip_call.args or strip_call.keywords:
        raise TranslateError("pkg.strip() has arguments")
    split_call = one(_method_calls(fn, "pkg", "split"), "pkg.split(...) call")
    sep = const(one(split_call.args, "argument of pkg.split"), (str,))
    if sep == "" or split_call.keywords:
        raise TranslateError("pkg.split separator is empty or has maxsplit")
    out["req_sep"] = sep
    # the rejection test: len(parts) > K or "c" in pkg or ...
    rej = [n for n in ast.walk(fn) if isinstance(n, ast.If) and isinstance(n.test, ast.BoolOp) and isinstance(n.test.op, ast.Or)
           and any(isinstance(v, ast.Compare) and _is_len_of(v.left, "parts") for v in n.test.values)]
    rej = one(rej, "`len(parts) > K or c in pkg ...` test")
    if not (len(rej.body) == 2 and isinstance(rej.body[1], ast.Continue) and not rej.orelse):
        raise TranslateError("rejection branch does not end in `continue`")
    chars = []
    maxparts = None
    for v in rej.test.values:
        if isinstance(v, ast.Compare) and len(v.ops) == 1 and _is_len_of(v.left, "parts") and isinstance(v.ops[0], ast.Gt):
            if maxparts is not None:
                raise TranslateError("two len(parts) tests")
            maxparts = const(v.comparators[0])
        elif (isinstance(v, ast.Compare) and len(v.ops) == 1 and isinstance(v.ops[0], ast.In)
              and isinstance(v.comparators[0], ast.Name) and v.comparators[0].id == "pkg"):
            ch = const(v.left, (str,))
            if len(ch) != 1:
                raise TranslateError("rejected specifier is not a single character")
            chars.append(ord(ch))
        else:
            raise TranslateError(f"unexpected disjunct in rejection test: {ast.dump(v)[:100]}")
    if maxparts is None:
        raise TranslateError("no len(parts) > K test")
    out["req_max_parts"] = maxparts
    out["req_reject_chars"] = chars
    # unpinned iff len(parts) == 1; version = parts[1]; name = parts[0]
    one_if = [n for n in ast.walk(fn) if isinstance(n, ast.If) and isinstance(n.test, ast.Compare) and _is_len_of(n.test.left, "parts")]
    one_if = one(one_if, "`if len(parts) == 1`")
    if not (isinstance(one_if.test.ops[0], ast.Eq) and const(one_if.test.comparators[0]) == 1):
        raise TranslateError("unpinned test is not len(parts) == 1")

    def _assign_value(stmts, name):
        # the branch's assignment to `name` (a validation call next to it, as in proposed_fixes/C20-D24.diff, is allowed)
        hits = [s for s in stmts if isinstance(s, ast.Assign) and len(s.targets) == 1 and isinstance(s.targets[0], ast.Name)
                and s.targets[0].id == name]
        return one(hits, f"assignment to {name} in the branch").value

    v1 = _assign_value(one_if.body, "new_version")
    if not (isinstance(v1, ast.Name) and v1.id == "UNPINNED_VERSION"):
        raise TranslateError("unpinned branch does not assign UNPINNED_VERSION")
    v2 = _assign_value(one_if.orelse, "new_version")

    def _parts_idx(node):
        # parts[i] or parts[i].strip() (whether the sides are stripped is measured behaviourally: deviation D25)
        if (isinstance(node, ast.Call) and isinstance(node.func, ast.Attribute) and node.func.attr == "strip"
                and not node.args and not node.keywords):
            node = node.func.value
        if isinstance(node, ast.Subscript) and isinstance(node.value, ast.Name) and node.value.id == "parts":
            return const(node.slice)
        raise TranslateError(f"expected parts[i], got {ast.dump(node)[:80]}")

    if _parts_idx(v2) != 1:
        raise TranslateError("version is not parts[1]")
    names = [n for n in ast.walk(fn) if isinstance(n, ast.Assign) and len(n.targets) == 1 and isinstance(n.targets[0], ast.Name)
             and n.targets[0].id == "pkg_name"]
    if _parts_idx(one(names, "pkg_name assignment").value) != 0:
        raise TranslateError("package name is not parts[0]")
    handlers = [h for n in ast.walk(fn) if isinstance(n, ast.Try) for h in n.handlers]
    h = one(handlers, "exception handler in process_all_requirements")
    if not (isinstance(h.type, ast.Name) and h.type.id == "ValueError"):
        raise TranslateError("handler is not `except ValueError`")

    # ---- install_requirements : the requirement string handed to the installer
    fn2 = find_func(tree, "install_requirements")
    js = one(walk_find(fn2, lambda n: isinstance(n, ast.JoinedStr)), "f-string in install_requirements")
    if not (len(js.values) == 3 and isinstance(js.values[0], ast.FormattedValue) and isinstance(js.values[2], ast.FormattedValue)
            and isinstance(js.values[0].value, ast.Name) and js.values[0].value.id == "package"):
        raise TranslateError("installer requirement is not f\"{package}<sep>{version}\"")
    out["req_fmt_sep"] = const(js.values[1], (str,))
    return out


def gen_req_consts():
    c = translate_requirements()
    ws = [cp for cp in range(0x110000) if chr(cp).isspace()]
    lines = ["(* GENERATED by harness/vh/props/c20.py from requirements.py / const.py — do not edit *)",
             "From PV Require Import Common.Util.", "",
             "(* one component of a REQUIREMENTS_PATHS pattern: a literal directory name or `*`/`**` *)",
             "Inductive pcomp := PLit (s : list N) | PStar.", ""]
    pats = []
    for pat in c["req_paths"]:
        pats.append("[" + "; ".join("PStar" if comp is None else f"PLit {_q_str(comp)}" for comp in pat) + "]")
    lines.append("Definition req_paths : list (list pcomp) := [" + ";\n   ".join(pats) + "].")
    lines.append(f"Definition req_file : list N := {_q_str(c['req_file'])}.")
    lines.append(f"Definition unpinned_version : list N := {_q_str(c['unpinned_version'])}.")
    lines.append(f"Definition req_comment_char : N := {c['req_comment_char']}%N.")
    lines.append(f"Definition req_sep : list N := {_q_str(c['req_sep'])}.")
    lines.append(f"Definition req_max_parts : N := {c['req_max_parts']}%N.")
    lines.append("Definition req_reject_chars : list N := [" + "; ".join(f"{x}%N" for x in c["req_reject_chars"]) + "].")
    lines.append(f"Definition req_fmt_sep : list N := {_q_str(c['req_fmt_sep'])}.")
    lines.append("(* environment constant: code points c with chr(c).isspace() in the running CPython (what str.strip() removes) *)")
    lines.append("Definition py_whitespace : list N := [" + "; ".join(f"{x}%N" for x in ws) + "].")
    return "\n".join(lines) + "\n"


# ------------------------------------------------------------------------------------------------
# Gallina emission
# ------------------------------------------------------------------------------------------------
def qs(s):
    """Python str -> Gallina term of type str (list of code points), shipped as an escaped string literal decoded by ReqCheck.U"""
    out = []
    for ch in s:
        o = ord(ch)
        if 32 <= o <= 126 and ch not in '"\\':
            out.append(ch)
        else:
            out.append("\\%x;" % o)
    return '(U "' + "".join(out) + '")'


def qlist(items):
    return "[" + "; ".join(items) + "]"


def qopt(x):
    return "None" if x is None else f"(Some {x})"


def qalist(pairs):
    return qlist(f"({qs(k)}, {qs(v)})" for k, v in pairs)


def qfile(f):
    comps = [c for c in f["dir"].split("/") if c]
    return "{| f_id := %d%%N; f_dir := %s; f_lines := %s |}" % (f["id"], qlist(qs(c) for c in comps), qlist(qs(l) for l in f["lines"]))


def qfiles(files, order):
    """files in the directory-listing order the implementation saw (files it did not find: afterwards, by id)"""
    pos = {fid: i for i, fid in enumerate(order)}
    fs = sorted(files, key=lambda f: (pos.get(f["id"], len(order)), f["id"]))
    return qlist(qfile(f) for f in fs)


def qrows(rows):
    return qlist("(%s, (%s, %s, %s))" % (qs(k), qs(v), qlist(f"{i}%N" for i in src if i >= 0), qopt(qs(inst) if inst is not None else None))
                 for k, v, src, inst in rows)


def qranks(ranks):
    return qlist(f"({qs(s)}, {n}%N)" for s, n in ranks)


# ------------------------------------------------------------------------------------------------
# generators
# ------------------------------------------------------------------------------------------------
PKGS = ["foo", "bar", "baz-pkg", "Qux_2"]
V_VALID = ["1.0", "1.0.0", "1", "2.0", "2.0.1", "0.9", "1.0a1", "1.0rc1", "1.0.post1", "1.0.dev0", "1!0.1", "1.0+local", "v1.0",
           "01.0", "10.0", "1.10", "1.9"]
V_INVALID = ["abc", "1_0", "1.0.x", "latest"]
DIRS_COUNTED = ["", "apps/a", "apps/b", "modules/m", "modules/n2", "scripts/s", "scripts/t_1"]
DIRS_IGNORED = ["apps", "scripts", "apps/a/sub", "scripts/s/t", "other/x", "apps/.hid", "lib", "modules"]
DEVIATING = ("d24", "d25")


def gen_line(rng, pkgs, vers, flavours):
    p = rng.choice(pkgs)
    v = rng.choice(vers)
    v2 = rng.choice(vers)
    fl = rng.choice(flavours)
    if fl == "pin":
        return f"{p}=={v}"
    if fl == "unp":
        return p
    if fl == "pin_c":
        return rng.choice([f"{p}=={v}  # pinned", f"{p}=={v}#x", f"{p}=={v} # =={v2}", f"{p}=={v} # >= < ,"])
    if fl == "unp_c":
        return rng.choice([f"{p} # comment >=2.0", f"{p}#=={v}", f"{p}\t# x"])
    if fl == "ws":
        return rng.choice([f"  {p}=={v}\t", f"\t{p}", "\xa0" + p, p + "\x0c", f" {p}=={v} ", f"\u2003{p}=={v}\x1f"])
    if fl == "comment":
        return rng.choice([f"# {p}=={v}", "#", "   # only a comment", f"#{p}", f"  #{p}>={v}"])
    if fl == "blank":
        return rng.choice(["", "  ", "\t", "\xa0 \x0c"])
    if fl == "unsupported":
        return rng.choice([f"{p}>={v}", f"{p}<={v}", f"{p}>{v}", f"{p}<{v}", f"{p}>={v},<{v2}", f"{p}=={v},=={v2}", f"{p} >= {v}",
                           f"{p}=={v},", f"{p}<{v} # c"])
    if fl == "multi":
        return rng.choice([f"{p}=={v}=={v2}", f"{p}===={v}", f"{p}=={v}=="])
    if fl == "exotic":
        return rng.choice([f"{p}~={v}", f"{p}!={v}", f"{p}[extra]=={v}", f"{p} ; python_version", f"=={v}", f"{p}=1.0", f"{p} {v}"])
    if fl == "d25":
        return rng.choice([f"{p} == {v}", f"{p}== {v}", f"{p} =={v}", f"{p}\t==\t{v}  # c"])
    if fl == "d24":
        return rng.choice([f"{p}=={rng.choice(V_INVALID)}", f"{p}==={v}", f"{p}==", f"{p}==_unpinned_version", f"{p}=={v}.x"])
    raise AssertionError(fl)


CLEAN = ["pin"] * 8 + ["unp"] * 3 + ["pin_c"] * 2 + ["unp_c", "ws", "ws", "comment", "blank", "unsupported", "unsupported", "multi", "exotic"]


def profile_flavours(profile):
    fl = list(CLEAN)
    if "d24" in profile:
        fl += ["d24"] * 4
    if "d25" in profile:
        fl += ["d25"] * 4
    return fl


def pick_profile(rng):
    r = rng.random()
    return "clean" if r < 0.65 else "d24" if r < 0.77 else "d25" if r < 0.92 else "d24+d25"


def arrange(rng, lines, dirs, noise):
    """one arrangement: the multiset `lines` spread (shuffled) over files in `dirs`; `noise` files are added unchanged"""
    ls = list(lines)
    rng.shuffle(ls)
    cuts = sorted(rng.randint(0, len(ls)) for _ in range(len(dirs) - 1))
    chunks = [ls[a:b] for a, b in zip([0] + cuts, cuts + [len(ls)])]
    ds = list(dirs)
    rng.shuffle(ds)
    files = [{"id": i, "dir": d, "lines": ch} for i, (d, ch) in enumerate(zip(ds, chunks))]
    for d, nl in noise:
        files.append({"id": len(files), "dir": d, "lines": list(nl)})
    for f in files:
        r = rng.random()
        if r < 0.1:
            f["eol"] = "\r\n"
        if rng.random() < 0.15:
            f["final_eol"] = False
    return files


def gen_env(rng, pkgs, vers):
    return [[p, rng.choice(vers)] for p in pkgs if rng.random() < 0.4]


def lines_profile(lines):
    """which deviation-prone shapes occur (statistics only)"""
    tags = set()
    for l in lines:
        s = l.split("#")[0].strip()
        parts = s.split("==")
        if len(parts) == 2 and not any(c in s for c in ",<>"):
            if parts[0] != parts[0].strip() or parts[1] != parts[1].strip():
                tags.add("spaces")
    return tags


class MergeStream(Stream):
    """several arrangements (files x line order) of one multiset of requirement lines -> real process_all_requirements"""

    name = "merge"
    rule = ("multisets of requirement lines (pinned, unpinned, commented, blank, >=/<=/</>/comma forms, several '==', white space "
            "variants, unparsable versions, PEP 440 equal-but-differently-spelt versions) for <= 4 packages, written as real "
            "requirements.txt files into <= 4 directories (root, apps/X, modules/X, scripts/X and places that do not count) under a temp "
            "dir; every case holds 2..24 arrangements of the same multiset (all permutations for 3- and 4-line sets, random "
            "shuffles over files and lines otherwise) and the real process_all_requirements is run on each; non-trivial = >= 2 "
            "arrangements and a package required by >= 2 lines; distinct by (arrangements, installed table)")
    requires = "From PV Require Import Req.Merge Req.Install Req.Spec Req.ReqCheck.\nFrom Coq Require Import String.\nOpen Scope string_scope."
    case_type = "mcase"
    check_model = "mcase_model_ok pv_cfg"
    check_spec = "mcase_spec_ok"
    attrib = "mcase_attrib pv_cfg"
    explain = "mcase_explain pv_cfg"
    shard_size = 40

    def budget(self, tier):
        return 360 if tier == "quick" else 5000

    def generate(self, ctx, budget, focus=None):
        rng = ctx.rng
        cases = []
        # (a) exhaustive: every 3-subset of a focused pool, all 6 orders, in one file and split over two files
        pool = ["foo==1.0", "foo==2.0", "foo==1.0.0", "foo", "foo==0.9", "foo>=3.0", "# foo==9.0", "foo==2.0 # c", "bar==1.0"]
        for tri in itertools.combinations(pool, 3):
            arrs = []
            for perm in itertools.permutations(tri):
                arrs.append([{"id": 0, "dir": "", "lines": list(perm)}])
            for perm in list(itertools.permutations(tri))[::2]:
                arrs.append([{"id": 0, "dir": "apps/a", "lines": [perm[0]]}, {"id": 1, "dir": "", "lines": list(perm[1:])}])
            cases.append({"profile": "clean", "env": [], "arrs": arrs})
            if len(cases) >= budget * 0.22:
                break
        # (b) all 24 orders of some 4-line sets
        for _ in range(max(2, budget // 60)):
            pk = rng.sample(PKGS, 2)
            vs = rng.sample(V_VALID, 4)
            four = [gen_line(rng, pk, vs, CLEAN) for _ in range(4)]
            arrs = [[{"id": 0, "dir": rng.choice(DIRS_COUNTED), "lines": list(perm)}] for perm in itertools.permutations(four)]
            cases.append({"profile": "clean", "env": gen_env(rng, pk, vs), "arrs": arrs})
        # (c) random multisets over files
        while len(cases) < budget:
            profile = pick_profile(rng)
            pk = rng.sample(PKGS, rng.randint(1, 4))
            vs = rng.sample(V_VALID, rng.randint(2, 6))
            n = rng.choice([2, 3, 4, 5, 6, 8, 10, 12])
            lines = [gen_line(rng, pk, vs, profile_flavours(profile)) for _ in range(n)]
            ndirs = rng.randint(1, 4)
            noise = []
            if rng.random() < 0.3:
                noise.append((rng.choice(DIRS_IGNORED), [f"{rng.choice(pk)}==99.0", "zzz"]))
            narr = rng.choice([2, 2, 3, 4])
            arrs = []
            for _ in range(narr):
                dirs = rng.sample(DIRS_COUNTED, ndirs) if rng.random() < 0.8 else [""] + rng.sample(DIRS_COUNTED[1:], ndirs - 1)
                arrs.append(arrange(rng, lines, dirs, noise))
            cases.append({"profile": profile, "env": gen_env(rng, pk, vs), "arrs": arrs})
        return cases

    def run_impl(self, ctx, cases):
        chunks = split_chunks(cases, 8)
        res = run_workers_parallel(ctx, "vh.workers.c20_req", [{"op": "merge", "cases": c} for c in chunks])
        return [o for r in res for o in r]

    def to_coq(self, case, obs):
        arrs = []
        for files, o in zip(case["arrs"], obs["arrs"]):
            arrs.append("(%s, {| mo_order := %s; mo_table := %s |})" % (
                qfiles(files, o["order"]), qlist(f"{i}%N" for i in o["order"] if i >= 0), qrows(o["table"])))
        return "{| mc_ranks := %s; mc_env := %s; mc_arrs := %s |}" % (qranks(obs["ranks"]), qalist(case.get("env", [])), qlist(arrs))

    def prelude(self, ctx, findings, witness_terms):
        return cfg_prelude(CFG_FIELDS, findings, witness_terms, "mcase_spec_ok")

    def nontrivial(self, case, obs):
        if len(case["arrs"]) < 2:
            return False
        names = [l.split("#")[0].strip().split("==")[0].strip() for f in case["arrs"][0] for l in f["lines"]]
        names = [n for n in names if n]
        return len(names) != len(set(names))

    def kind(self, case, obs):
        nf = max(len(a) for a in case["arrs"])
        return f"{case.get('profile', 'clean')}/{len(case['arrs'])}arr/{nf}files"

    def describe(self, case, obs):
        return {"profile": case.get("profile"), "installed": case.get("env"),
                "arrangements": [[(f["dir"], f["lines"]) for f in a] for a in case["arrs"][:3]],
                "tables": [[r[:2] for r in o["table"]] for o in obs["arrs"][:3]], "n_arrangements": len(case["arrs"])}


CFG_FIELDS = [("d24_unvalidated", "D24"), ("d25_no_strip", "D25")]


# ------------------------------------------------------------------------------------------------
# stream 2: histories of install_requirements runs
# ------------------------------------------------------------------------------------------------
def simple_files(rng, pk, vs, profile):
    fl = ["pin"] * 8 + ["unp"] * 4 + ["pin_c", "ws", "comment", "blank", "unsupported", "multi"]
    if "d24" in profile:
        fl += ["d24"] * 3
    if "d25" in profile:
        fl += ["d25"] * 3
    n = rng.choice([1, 2, 3, 4, 6])
    lines = [gen_line(rng, pk, vs, fl) for _ in range(n)]
    dirs = rng.sample(DIRS_COUNTED, rng.randint(1, 3))
    return arrange(rng, lines, dirs, [])


class InstallStream(Stream):
    """histories: (external change*, run of the real install_requirements)* from an installed table and a record"""

    name = "install"
    rule = ("histories of 1..4 runs of the real install_requirements (real HomeAssistant object, MockConfigEntry, real "
            "async_update_entry; HA's installer and importlib.metadata.version replaced by a recording fake environment) on generated "
            "requirement trees: exhaustive block wanted{unpinned,1.0,1.0.0,2.0} x installed{none,1.0,1.0.0,2.0,3.0} x "
            "recorded{none,1.0,1.0.0,2.0,3.0} x allow_all_imports{on,off}, each run twice; after every pass both the live entry.data "
            "record and the record as PERSISTED (snapshot of what was last handed to async_update_entry; a change of "
            "allow_all_imports is a YAML edit + update_yaml_config) are observed and judged; between passes histories contain "
            "Home Assistant restarts (entry reloaded from the persisted data, then the real YAML import flow with the stored entry "
            "present) and YAML reloads, and the record must survive them; the fake installer FAILS (RequirementsNotFound) for chosen "
            "packages and the record may only contain what is installed when the run ends; a second actor flips allow_all_imports "
            "(YAML edit + reload through pyscript's own update_yaml_config) while the run is suspended in the file scan (executor job) "
            "or in the installer call, and the user's setting must survive the run; deterministic blocks where the record shrinks to "
            "nothing (last tracked package taken over or removed by the host); random histories with external "
            "installs/upgrades/removals between runs, changing requirement files, packages missing from the index; non-trivial = a "
            "package is both required and installed or recorded, or a later run follows an installing run; distinct by the whole history")
    requires = "From PV Require Import Req.Merge Req.Install Req.Spec Req.ReqCheck.\nFrom Coq Require Import String.\nOpen Scope string_scope."
    case_type = "hcase"
    check_model = "hcase_model_ok pv_cfg"
    check_spec = "hcase_spec_ok"
    attrib = "hcase_attrib pv_cfg"
    explain = "hcase_explain pv_cfg"
    shard_size = 50

    def budget(self, tier):
        return 360 if tier == "quick" else 5000

    def generate(self, ctx, budget, focus=None):
        rng = ctx.rng
        cases = []
        # (a) exhaustive decision table for one package, every run repeated
        for want in (None, "1.0", "1.0.0", "2.0"):
            for inst in (None, "1.0", "1.0.0", "2.0", "3.0"):
                for recd in (None, "1.0", "1.0.0", "2.0", "3.0"):
                    for allow in (True, False):
                        line = "foo" if want is None else f"foo=={want}"
                        step = {"ext": [], "allow": allow, "files": [{"id": 0, "dir": "", "lines": [line, "bar==1.0"]}], "index": [["foo", "5.0"]]}
                        cases.append({"profile": "table", "env0": [] if inst is None else [["foo", inst]],
                                      "rec0": None if recd is None else [["foo", recd]], "steps": [step, dict(step)]})
        if len(cases) > budget * 0.45:
            cases = rng.sample(cases, int(budget * 0.45))
        # (a3) the user flips allow_all_imports while a run is suspended (file scan / installer call), then a further requirement
        for point in ("install", "scan"):
            for first, flip in ((True, False), (False, True)):
                fa = [{"id": 0, "dir": "", "lines": ["pkg-a==1.0"]}]
                fb = [{"id": 0, "dir": "", "lines": ["pkg-a==1.0", "pkg-b==2.0"]}]
                cases.append({"profile": "interleave", "env0": [], "rec0": rng.choice([None, []]), "steps": [
                    {"ext": [], "allow": first, "files": fa, "index": [], "during": {point: flip}},
                    {"ext": [], "allow": flip, "files": fb, "index": []},
                    {"ext": [], "allow": flip, "files": fb, "index": [], "pre": ["restart"]}]})
        # (a4) the record shrinks to nothing: the only tracked package is taken over (or removed) by the host, later the host's
        #      version coincides with the stale one and the pin differs
        for nrec in (1, 2):
            for takeover in ("2.0", None):
                fs = [{"id": 0, "dir": "", "lines": ["pkg-a==1.0"] + (["bar==1.0"] if nrec == 2 else [])}]
                f15 = [{"id": 0, "dir": "", "lines": ["pkg-a==1.5"] + (["bar==1.0"] if nrec == 2 else [])}]
                cases.append({"profile": "shrink", "env0": [], "rec0": rng.choice([None, []]), "steps": [
                    {"ext": [], "allow": True, "files": fs, "index": []},
                    {"ext": [["pkg-a", takeover]] + ([["bar", "3.0"]] if nrec == 2 else []), "allow": True, "files": fs, "index": []},
                    {"ext": [], "allow": True, "files": fs, "index": []},
                    {"ext": [["pkg-a", "1.0"]], "allow": True, "files": f15, "index": []}]})
        # (a2) a failing installer, then the host installs the package itself and the pin moves; a Home Assistant restart
        #      (or YAML reload) between an installing pass and a pass whose pin moved
        for v1, v2 in (("1.0", "1.1"), ("2.0", "1.9"), ("1.0", "1.0.0")):
            f1 = [{"id": 0, "dir": "", "lines": [f"flaky-pkg=={v1}", "bar==1.0"]}]
            f2 = [{"id": 0, "dir": "", "lines": [f"flaky-pkg=={v2}", "bar==1.0"]}]
            for failset in (["flaky-pkg"], ["flaky-pkg", "bar"], ["bar"]):
                cases.append({"profile": "fail", "env0": [], "rec0": rng.choice([None, []]), "steps": [
                    {"ext": [], "allow": True, "files": f1, "index": [], "fail": failset},
                    {"ext": [["flaky-pkg", v1]], "allow": True, "files": f2, "index": []}]})
            for pre in (["restart"], ["reload"], ["reload", "restart"]):
                cases.append({"profile": "restart", "env0": [], "rec0": rng.choice([None, []]), "steps": [
                    {"ext": [], "allow": True, "files": f1, "index": []},
                    {"ext": [], "allow": True, "files": f1, "index": [], "pre": pre},
                    {"ext": [], "allow": True, "files": f2, "index": [], "pre": pre if rng.random() < 0.5 else []}]})
        # (b) random histories
        while len(cases) < budget:
            profile = pick_profile(rng)
            pk = rng.sample(PKGS, rng.randint(1, 4))
            vs = rng.sample(V_VALID, rng.randint(2, 5))
            env0 = [[p, rng.choice(vs)] for p in pk if rng.random() < 0.5]
            envd = dict(env0)
            rec0 = []
            for p in pk:
                r = rng.random()
                if r < 0.25 and p in envd:
                    rec0.append([p, envd[p]])               # pyscript's own install
                elif r < 0.45:
                    rec0.append([p, rng.choice(vs)])        # possibly changed outside / removed
            if rng.random() < 0.1:
                rec0.append(["other-pkg", "3.3"])
            steps = []
            files = simple_files(rng, pk, vs, profile)
            for _ in range(rng.randint(1, 4)):
                ext = []
                for p in pk:
                    r = rng.random()
                    if r < 0.12:
                        ext.append([p, rng.choice(vs)])
                    elif r < 0.18:
                        ext.append([p, None])
                if rng.random() < 0.5:
                    files = simple_files(rng, pk, vs, profile)
                index = [[p, rng.choice(vs + ["7.7"])] for p in pk if rng.random() < 0.8]
                step = {"ext": ext, "allow": rng.random() < 0.85, "files": files, "index": index}
                r = rng.random()
                if steps and r < 0.2:
                    step["pre"] = ["restart"]
                elif steps and r < 0.3:
                    step["pre"] = rng.choice([["reload"], ["reload", "restart"], ["restart", "reload"]])
                if rng.random() < 0.15:
                    step["fail"] = [p for p in pk if rng.random() < 0.5]
                r = rng.random()
                if r < 0.08:
                    step["during"] = {"install": rng.random() < 0.4}
                elif r < 0.14:
                    step["during"] = {"scan": rng.random() < 0.5}
                elif r < 0.17:
                    step["during"] = {"scan": rng.random() < 0.7, "install": rng.random() < 0.3}
                steps.append(step)
            cases.append({"profile": profile, "env0": env0, "rec0": rec0 if (rec0 or rng.random() < 0.5) else None, "steps": steps})
        return cases

    def run_impl(self, ctx, cases):
        chunks = split_chunks(cases, 8)
        payloads = [{"op": "install", "cases": c} for c in chunks]
        # the deviation switches are measured on the findings' witnesses, which live in the merge stream: run them here too
        self._witness = [f for f in core.load_findings("C20") if f.get("stream") == "merge" and "witness" in f]
        if self._witness:
            payloads.append({"op": "merge", "cases": [f["witness"] for f in self._witness]})
        res = run_workers_parallel(ctx, "vh.workers.c20_req", payloads)
        self._witness_obs = res.pop() if self._witness else []
        return [o for r in res for o in r]

    def to_coq(self, case, obs):
        steps = []
        for st, o in zip(case["steps"], obs["steps"]):
            sin = "{| si_ext := %s; si_allow := %s; si_files := %s; si_index := %s; si_fail := %s |}" % (
                qlist(f"({qs(k)}, {qopt(qs(v) if v is not None else None)})" for k, v in st.get("ext", [])),
                "true" if o["gate_allow"] else "false", qfiles(st["files"], o["order"]), qalist(st.get("index", [])),
                qlist(qs(p) for p in st.get("fail", [])))
            args = None if o["args"] is None else qlist(qs(a) for a in o["args"])
            steps.append("{| hs_in := %s; hs_table := %s; hs_env_before := %s; hs_kind := %d%%N; hs_args := %s; hs_rec_start := %s; hs_pers_start := %s; "
                         "hs_rec_after := %s; "
                         "hs_persisted := %s; hs_updated := %s; hs_allow_user := %s; hs_allow_live := %s; hs_allow_pers := %s; "
                         "hs_env_after := %s |}" % (
                             sin, qrows(o["table"]), qalist(o["env_before"]), o["kind"], qopt(args), qalist(o["rec_start"]), qalist(o["pers_start"]),
                             qalist(o["rec_after"]),
                             qalist(o["persisted"]), "true" if o["updated"] else "false", "true" if o["allow_user"] else "false",
                             "true" if o["allow_live"] else "false", "true" if o["allow_pers"] else "false", qalist(o["env_after"])))
        return "{| hc_ranks := %s; hc_env0 := %s; hc_rec0 := %s; hc_steps := %s |}" % (
            qranks(obs["ranks"]), qalist(case.get("env0", [])), qalist(case.get("rec0") or []), qlist(steps))

    def prelude(self, ctx, findings, witness_terms):
        ms = MergeStream()
        wt = {f["id"]: ms.to_coq(f["witness"], o) for f, o in zip(self._witness, self._witness_obs)}
        return cfg_prelude(CFG_FIELDS, self._witness, wt, "mcase_spec_ok")

    def nontrivial(self, case, obs):
        if any(o["args"] for o in obs["steps"][:-1]):
            return True
        known = {k for k, _v in case.get("env0", [])} | {k for k, _v in (case.get("rec0") or [])}
        return any(r[0].strip() in known for o in obs["steps"] for r in o["table"])

    def kind(self, case, obs):
        outs = "".join(("R" if "restart" in o.get("events", []) else "") + ("F" if o["kind"] == 1 and o["args"] else "x" if o["kind"] == 1
                       else ("i" if o["args"] else "-")) for o in obs["steps"])
        return f"{case.get('profile', 'clean')}/{outs}"

    def describe(self, case, obs):
        return {"profile": case.get("profile"), "installed0": case.get("env0"), "record0": case.get("rec0"),
                "steps": [{"allow": s["allow"], "before_pass": o.get("events"), "during_run": s.get("during"), "fired": o.get("fired"),
                           "allow_user_live_persisted_after": [o.get("allow_user"), o.get("allow_live"), o.get("allow_pers")], "installer_fails_for": s.get("fail"),
                           "record_at_start": o["rec_start"], "external": s.get("ext"), "files": [(f["dir"], f["lines"]) for f in s["files"]],
                           "installer_args": o["args"], "record_after": o["rec_after"], "persisted_record": o["persisted"],
                           "update_entry_called": o["updated"], "raised": o["error"]}
                          for s, o in zip(case["steps"][:3], obs["steps"][:3])]}


class C20(Prop):
    id = "C20"
    title = "Requirements resolution is order-independent and never overrides the host"
    coq_targets = ["Properties/C20.vo"]
    property_file = "Properties/C20.v"
    streams = [MergeStream(), InstallStream()]
    trusted_base = [
        "modelled, not verified: requirements.py process_all_requirements / install_requirements / update_unpinned_versions "
        "(Req/Merge.v, Req/Install.v); str.find/strip/split, dict insertion order and glob.glob without recursive=True are modelled",
        "packaging.version.Version enters as Section variables vvalid/vle (a total preorder on the strings it accepts); in the "
        "correspondence it is the real packaging.Version, shipped as ranks",
        "Home Assistant's installer is replaced by a fake that installs exactly what it is asked to (pinned: that version; unpinned: the "
        "version the case's index offers, else nothing); importlib.metadata.version is replaced by a lookup in the fake environment",
    ]
    assumptions = [
        "Version comparison is a total preorder on valid version strings and '' is not a version",
        "the installer installs exactly the requested pinned version (record theorems); lines contain no '\\n'/'\\r'",
        "package identity = name with surrounding white space removed (no PEP 503 case/-_. folding)",
    ]
    partial_note = ("C20_record_matches is about the record versus the installer calls pyscript made (a failing or partially "
                    "succeeding pip run is not modelled); PEP 503 name folding and '~=', '!=', extras, markers are outside the property's "
                    "quantifier and are treated as part of the package name, as the code does (notes/C20.md)")

    def translate(self, ctx):
        return {"Gen/ReqConsts.v": gen_req_consts()}


PROP = C20()

MANIFEST_ENTRY = {
    "technique": "Rocq proof (snoc-induction over the line list with a max-pin invariant; permutation invariance; decision-table and "
                 "loop invariants for the installer plan; history invariant for the record) + in-Coq correspondence with the real "
                 "process_all_requirements / install_requirements",
    "level_text": ("Theorems C20_merge_max / C20_permutation / C20_ignored / C20_gate / C20_foreign_untouched / "
                   "C20_own_updated_iff_differs / C20_record_matches hold for every list of lines, every permutation, every installed/"
                   "recorded table and every history, for any total preorder on versions, about a Gallina model of requirements.py whose "
                   "constants are regenerated from the source on every run and whose behaviour is compared inside Coq with the real "
                   "functions on generated requirement trees (all orders of small sets) and run histories. D24/D25 are refuted "
                   "for the code as it is (C20_refuted_D24/D25) and reported as known findings."),
    "level_note": ("Trusted: Coq kernel+vm_compute; the string/dict/glob model; packaging.Version as an abstract total preorder; fake "
                   "installer and metadata lookup; translator and drivers in /verif/harness."),
    "design_ref": "DESIGN.md §4 C20",
}
