"""C01 helper: Python `ast` trees of generated programs and encoded values -> Gallina terms of Interp/Syntax.v,
Interp/Host.v and Interp/EvalCheck.v.  Fail-closed: anything outside the modelled subset raises TranslateError."""
import ast

from .. import coqio as q
from ..translate import TranslateError

BINOPS = {ast.Add: "OAdd", ast.Sub: "OSub", ast.Mult: "OMult", ast.Div: "ODiv", ast.Mod: "OMod", ast.Pow: "OPow",
          ast.LShift: "OLShift", ast.RShift: "ORShift", ast.BitOr: "OBitOr", ast.BitXor: "OBitXor", ast.BitAnd: "OBitAnd",
          ast.FloorDiv: "OFloorDiv"}
UNOPS = {ast.Not: "UNot", ast.Invert: "UInvert", ast.UAdd: "UPos", ast.USub: "UNeg"}
CMPOPS = {ast.Eq: "CmEq", ast.NotEq: "CmNe", ast.Lt: "CmLt", ast.LtE: "CmLe", ast.Gt: "CmGt", ast.GtE: "CmGe", ast.Is: "CmIs",
          ast.IsNot: "CmIsNot", ast.In: "CmIn", ast.NotIn: "CmNotIn"}
CONVS = {-1: "ConvNone", 115: "ConvStr", 114: "ConvRepr", 97: "ConvAscii"}

# exception class ids shared with Interp/Host.v (ExNameError := Exn 1, ...)
EXC_IDS = {"NameError": 1, "TypeError": 2, "ValueError": 3, "NotImplementedError": 4, "StopIteration": 5, "KeyError": 6,
           "AttributeError": 7, "ZeroDivisionError": 8, "IndexError": 9, "OverflowError": 10, "SyntaxError": 12,
           "UnboundLocalError": 13, "AssertionError": 14, "RuntimeError": 15, "RecursionError": 16, "MemoryError": 17,
           "UnicodeEncodeError": 18, "UnicodeDecodeError": 19, "LookupError": 20, "ArithmeticError": 21, "BufferError": 22,
           "Exception": 23, "FloatingPointError": 24, "SystemError": 25}

TAPE_BIN = {"add": "OAdd", "sub": "OSub", "mul": "OMult", "truediv": "ODiv", "mod": "OMod", "pow": "OPow", "lshift": "OLShift",
            "rshift": "ORShift", "or": "OBitOr", "xor": "OBitXor", "and": "OBitAnd", "floordiv": "OFloorDiv"}
TAPE_UN = {"neg": "UNeg", "pos": "UPos", "invert": "UInvert"}
TAPE_CMP = {"eq": "CmEq", "ne": "CmNe", "lt": "CmLt", "le": "CmLe", "gt": "CmGt", "ge": "CmGe"}


def exc_id(name):
    if name is None:
        return 0
    return EXC_IDS.get(name, 999)


class Atoms:
    """per-case table: identifiers / strings / float reprs / bytes -> ids; the falsy one of each kind is 0"""

    def __init__(self):
        self.s = {"": 0}
        self.f = {"0.0": 0}
        self.b = {"": 0}

    def sid(self, text):
        return self.s.setdefault(text, len(self.s))

    def fid(self, text):
        return self.f.setdefault(text, len(self.f))

    def bid(self, text):
        return self.b.setdefault(text, len(self.b))


def _n(n):
    """N literal; the case files open N_scope, so no annotation (coqc's parser is the bottleneck)"""
    assert isinstance(n, int) and n >= 0
    return str(n)


def _z(n):
    return f"{n}%Z" if n >= 0 else f"({n})%Z"


def chars(text):
    """a str as the list of its code points"""
    return "[" + ";".join(str(ord(ch)) for ch in text) + "]"


def _opt(x):
    return "None" if x is None else f"(Some {x})"


def const_term(v, at):
    if v is None:
        return "CNone"
    if v is Ellipsis:
        return "CEllipsis"
    if isinstance(v, bool):
        return f"(CBool {q.boolean(v)})"
    if isinstance(v, int):
        return f"(CInt {_z(v)})"
    if isinstance(v, float):
        return f"(CFloat {_n(at.fid(repr(v)))})"
    if isinstance(v, str):
        return f"(CStr {chars(v)})"
    if isinstance(v, bytes):
        return f"(CBytes {_n(at.bid(v.hex()))})"
    raise TranslateError(f"constant of type {type(v).__name__} outside the subset")


def expr_term(e, at):
    X = lambda n: expr_term(n, at)  # noqa: E731
    L = lambda ns: q.lst(expr_term(n, at) for n in ns)  # noqa: E731
    if isinstance(e, ast.Constant):
        return f"(EConst {const_term(e.value, at)})"
    if isinstance(e, ast.Name):
        return f"(EName {_n(at.sid(e.id))})"
    if isinstance(e, ast.BinOp):
        if type(e.op) not in BINOPS:
            raise TranslateError(f"binary operator {type(e.op).__name__} outside the subset")
        return f"(EBinOp {BINOPS[type(e.op)]} {X(e.left)} {X(e.right)})"
    if isinstance(e, ast.UnaryOp):
        return f"(EUnaryOp {UNOPS[type(e.op)]} {X(e.operand)})"
    if isinstance(e, ast.BoolOp):
        op = "BAnd" if isinstance(e.op, ast.And) else "BOr"
        return f"(EBoolOp {op} {X(e.values[0])} {L(e.values[1:])})"
    if isinstance(e, ast.Compare):
        links = [f"({CMPOPS[type(o)]}, {X(c)})" for o, c in zip(e.ops[1:], e.comparators[1:])]
        return f"(ECompare {X(e.left)} {CMPOPS[type(e.ops[0])]} {X(e.comparators[0])} {q.lst(links)})"
    if isinstance(e, ast.IfExp):
        return f"(EIfExp {X(e.test)} {X(e.body)} {X(e.orelse)})"
    if isinstance(e, ast.Call):
        kws = [f"({_opt(chars(k.arg) if k.arg is not None else None)}, {X(k.value)})" for k in e.keywords]
        return f"(ECall {X(e.func)} {L(e.args)} {q.lst(kws)})"
    if isinstance(e, ast.Starred):
        return f"(EStarred {X(e.value)})"
    if isinstance(e, ast.List):
        return f"(EList {L(e.elts)})"
    if isinstance(e, ast.Tuple):
        return f"(ETuple {L(e.elts)})"
    if isinstance(e, ast.Set):
        return f"(ESet {L(e.elts)})"
    if isinstance(e, ast.Dict):
        items = [f"({_opt(X(k) if k is not None else None)}, {X(v)})" for k, v in zip(e.keys, e.values)]
        return f"(EDict {q.lst(items)})"
    if isinstance(e, ast.Subscript):
        return f"(ESubscript {X(e.value)} {X(e.slice)})"
    if isinstance(e, ast.Slice):
        o = lambda n: _opt(X(n) if n is not None else None)  # noqa: E731
        return f"(ESlice {o(e.lower)} {o(e.upper)} {o(e.step)})"
    if isinstance(e, ast.Attribute):
        return f"(EAttribute {X(e.value)} {_n(at.sid(e.attr))})"
    if isinstance(e, ast.NamedExpr):
        if not isinstance(e.target, ast.Name):
            raise TranslateError("walrus target is not a name")
        return f"(ENamedExpr {_n(at.sid(e.target.id))} {X(e.value)})"
    if isinstance(e, (ast.ListComp, ast.SetComp, ast.DictComp)):
        gens = []
        for g in e.generators:
            if g.is_async:
                raise TranslateError("async comprehension outside the subset")
            gens.append(f"({X(g.target)}, {X(g.iter)}, {L(g.ifs)})")
        if isinstance(e, ast.DictComp):
            return f"(EDictComp {X(e.key)} {X(e.value)} {q.lst(gens)})"
        ctor = "EListComp" if isinstance(e, ast.ListComp) else "ESetComp"
        return f"({ctor} {X(e.elt)} {q.lst(gens)})"
    if isinstance(e, ast.JoinedStr):
        return f"(EJoinedStr {L(e.values)})"
    if isinstance(e, ast.FormattedValue):
        spec = _opt(X(e.format_spec) if e.format_spec is not None else None)
        return f"(EFormattedValue {X(e.value)} {CONVS[e.conversion]} {spec})"
    raise TranslateError(f"expression node {type(e).__name__} outside the subset")


def stmt_term(s, at):
    if isinstance(s, ast.Expr):
        return f"(SExpr {expr_term(s.value, at)})"
    if isinstance(s, ast.Assign):
        return f"(SAssign {q.lst(expr_term(t, at) for t in s.targets)} {expr_term(s.value, at)})"
    if isinstance(s, ast.AugAssign):
        return f"(SAugAssign {expr_term(s.target, at)} {BINOPS[type(s.op)]} {expr_term(s.value, at)})"
    if isinstance(s, ast.Delete):
        return f"(SDelete {q.lst(expr_term(t, at) for t in s.targets)})"
    if isinstance(s, ast.Pass):
        return "SPass"
    raise TranslateError(f"statement node {type(s).__name__} outside the subset")


def program_term(src, at):
    try:
        tree = ast.parse(src)
    except SyntaxError as exc:
        raise TranslateError(f"generated program does not parse: {exc}") from exc
    return q.lst(stmt_term(s, at) for s in tree.body)


def value_term(v, at):
    V = lambda x: value_term(x, at)  # noqa: E731
    if "o" in v:
        return f"(o_ {_n(v['o'])})"
    if "c" in v:
        k = v["c"]
        if k == "none":
            return "n_"
        if k == "ellipsis":
            return "e_"
        if k == "bool":
            return "b1" if v["v"] else "b0"
        if k == "int":
            return f"(i_ {_z(int(v['v']))})"
        if k == "float":
            return f"(f_ {_n(at.fid(v['v']))})"
        if k == "str":
            return f"(s_ {chars(v['v'])})"
        if k == "bytes":
            return f"(y_ {_n(at.bid(v['v']))})"
    if "l" in v:
        return f"(l_ {q.lst(V(x) for x in v['l'])})"
    if "t" in v:
        return f"(t_ {q.lst(V(x) for x in v['t'])})"
    if "s" in v:
        return f"(z_ {q.lst(V(x) for x in v['s'])})"
    if "d" in v:
        return f"(d_ {q.lst('(' + V(k) + ',' + V(x) + ')' for k, x in v['d'])})"
    if "sl" in v:
        a, b, c = v["sl"]
        return f"(sl_ {V(a)} {V(b)} {V(c)})"
    raise TranslateError(f"value {v} cannot be represented")


def primop_term(op, at):
    if ":" in op:
        tag, name = op.split(":", 1)
    else:
        tag, name = op, None
    if tag == "bin":
        return f"(PBin {TAPE_BIN[name]})"
    if tag == "ibin":
        return f"(PIBin {TAPE_BIN[name]})"
    if tag == "un":
        return f"(PUn {TAPE_UN[name]})"
    if tag == "cmp":
        return f"(PCmp {TAPE_CMP[name]})"
    if tag in ("getattr", "setattr", "delattr"):
        ctor = {"getattr": "PGetAttr", "setattr": "PSetAttr", "delattr": "PDelAttr"}[tag]
        return f"({ctor} {_n(at.sid(name))})"
    simple = {"truth": "PTruth", "contains": "PContains", "getitem": "PGetItem", "setitem": "PSetItem", "delitem": "PDelItem",
              "iter": "PIter", "next": "PNext", "call": "PCall", "format": "PFormat"}
    if tag in simple:
        return simple[tag]
    if tag == "conv":
        return "(PConv " + {"s": "ConvStr", "r": "ConvRepr", "a": "ConvAscii"}[name] + ")"
    raise TranslateError(f"unknown tape operator {op}")


def tape_term(tape, at):
    out = []
    for e in tape:
        res = f"(rx {_n(exc_id(e['exc']))})" if "exc" in e else f"(rt {value_term(e['ret'], at)})"
        out.append(f"te {primop_term(e['op'], at)} {q.lst(value_term(a, at) for a in e['args'])} {res}")
    return q.lst(out)


def env_term(env, at):
    return q.lst(f"({_n(at.sid(n))}, {value_term(v, at)})" for n, v in env)


def nobs_term(o, at):
    if o is None:
        return "([], [], 0)"
    vs = q.lst(f"({_n(at.sid(n))}, {_n(at.sid('=' + c))})" for n, c in o["vars"])
    lg = q.lst(f"({_n(at.sid('#' + str(k)))}, {_n(at.sid('=' + c))})" for k, c in o["log"])
    return f"({vs}, {lg}, {_n(exc_id(o['exc']))})"
