"""C10 — T1 translator: load_paths, context roots, comparison fields and import candidate table -> Gen/ReloadConsts.v.

Fail-closed: any unexpected shape raises TranslateError."""
import ast

from ..translate import TranslateError, const, find_class, find_func, one, parse_file, str_collection, walk_find

SEG = {"__init__": 0, "apps": 1, "file": 2, "modules": 3, "scripts": 4}
GSEG = {"*": "GStar", "**": "GStarStar", "*.py": "GStarPy", "__init__.py": "GInitPy"}


def _root_id(s):
    if s not in SEG:
        raise TranslateError(f"unknown root name {s!r}")
    return SEG[s]


def _startswith_consts(node, var):
    """all string constants X in `<var>.startswith(X)` calls below node (source order)"""
    out = []
    for n in ast.walk(node):
        if (isinstance(n, ast.Call) and isinstance(n.func, ast.Attribute) and n.func.attr == "startswith"
                and isinstance(n.func.value, ast.Name) and n.func.value.id == var and len(n.args) == 1
                and isinstance(n.args[0], ast.Constant) and isinstance(n.args[0].value, str)):
            out.append((n.lineno, n.args[0].value))
    return [s for _l, s in sorted(out)]


def _root_sets(fn):
    """the literal sets in `name[0:idx] not in {...}`"""
    res = []
    for n in ast.walk(fn):
        if (isinstance(n, ast.Compare) and len(n.ops) == 1 and isinstance(n.ops[0], ast.NotIn)
                and isinstance(n.comparators[0], ast.Set) and isinstance(n.left, ast.Subscript)):
            res.append(str_collection(n.comparators[0]))
    return res


def _fstring_parts(node):
    """JoinedStr -> list of ('s', text) / ('v', name)"""
    if isinstance(node, ast.Constant) and isinstance(node.value, str):
        return [("s", node.value)]
    if not isinstance(node, ast.JoinedStr):
        raise TranslateError(f"expected f-string, got {ast.dump(node)[:80]}")
    out = []
    for v in node.values:
        if isinstance(v, ast.Constant):
            out.append(("s", v.value))
        elif isinstance(v, ast.FormattedValue) and isinstance(v.value, ast.Name) and v.conversion == -1 and v.format_spec is None:
            out.append(("v", v.value.id))
        else:
            raise TranslateError("unexpected f-string component")
    return out


def translate_reload():
    out = {}
    tree = parse_file("__init__.py")
    ls = find_func(tree, "load_scripts")
    # ---- load_paths
    lp_nodes = [n for n in ast.walk(ls) if isinstance(n, ast.Assign) and len(n.targets) == 1
                and isinstance(n.targets[0], ast.Name) and n.targets[0].id == "load_paths"]
    lp = one(lp_nodes, "assignment to load_paths").value
    if not isinstance(lp, ast.List):
        raise TranslateError("load_paths is not a list display")
    rows = []
    for e in lp.elts:
        if not isinstance(e, (ast.List, ast.Tuple)) or len(e.elts) != 4:
            raise TranslateError("load_paths row is not a 4-element list")
        base = const(e.elts[0], (str,))
        pat = const(e.elts[1], (str,))
        chk = const(e.elts[2], (bool,))
        auto = const(e.elts[3], (bool,))
        if base != "" and base not in ("apps", "modules", "scripts"):
            raise TranslateError(f"load_paths base {base!r} unknown")
        segs = []
        for part in pat.split("/"):
            if part not in GSEG:
                raise TranslateError(f"load_paths glob component {part!r} unknown")
            segs.append(GSEG[part])
        rows.append((None if base == "" else SEG[base], segs, chk, auto))
    out["load_paths"] = rows
    # the loop unpacking order must be (path, match, check_config, autoload)
    grf = find_func(ls, "glob_read_files")
    fors = [n for n in ast.walk(grf) if isinstance(n, ast.For) and isinstance(n.iter, ast.Name) and n.iter.id == "load_paths"]
    tgt = one(fors, "loop over load_paths").target
    if not (isinstance(tgt, ast.Tuple) and [getattr(x, "id", None) for x in tgt.elts] == ["path", "match", "check_config", "autoload"]):
        raise TranslateError("load_paths loop does not unpack (path, match, check_config, autoload)")
    globs = walk_find(grf, lambda n: isinstance(n, ast.Call) and isinstance(n.func, ast.Attribute) and n.func.attr == "glob")
    g = one(globs, "glob.glob call")
    rec = [k for k in g.keywords if k.arg == "recursive"]
    if not (rec and const(rec[0].value, (bool,)) is True):
        raise TranslateError("glob.glob is not called with recursive=True")
    srt = walk_find(grf, lambda n: isinstance(n, ast.Call) and isinstance(n.func, ast.Name) and n.func.id == "sorted" and n.args and n.args[0] is g)
    one(srt, "sorted(glob.glob(...))")
    # '#' skipping
    strs = {n.value for n in ast.walk(grf) if isinstance(n, ast.Constant) and isinstance(n.value, str)}
    for need in ("#", "/#", "/__init__"):
        if need not in strs:
            raise TranslateError(f"glob_read_files: constant {need!r} not found")
    # top-level prefix f"file.{mod_name}"
    tops = []
    for n in ast.walk(grf):
        if isinstance(n, ast.JoinedStr):
            parts = _fstring_parts(n)
            if len(parts) == 2 and parts[0][0] == "s" and parts[1] == ("v", "mod_name"):
                tops.append(parts[0][1])
    top = one(tops, "f\"<root>.{mod_name}\"")
    if not top.endswith("."):
        raise TranslateError("top-level prefix does not end with '.'")
    out["top_root"] = _root_id(top[:-1])
    # ---- context root sets (load_scripts, unload_scripts, start_global_contexts): all equal
    sets = []
    for fname in ("load_scripts", "unload_scripts", "start_global_contexts"):
        ss = _root_sets(find_func(tree, fname))
        if len(ss) != 1:
            raise TranslateError(f"{fname}: expected one context-root set, found {len(ss)}")
        sets.append(sorted(ss[0]))
    if not (sets[0] == sets[1] == sets[2]):
        raise TranslateError(f"context-root sets differ: {sets}")
    out["ctx_roots"] = sorted(_root_id(s) for s in sets[0])
    # ---- change detection: a != b or ... over source/app_config/mtime
    ors = [n for n in ast.walk(ls) if isinstance(n, ast.BoolOp) and isinstance(n.op, ast.Or)
           and all(isinstance(v, ast.Compare) and len(v.ops) == 1 and isinstance(v.ops[0], ast.NotEq)
                   and isinstance(v.left, ast.Attribute) and isinstance(v.left.value, ast.Name) and v.left.value.id == "src_info"
                   for v in n.values)]
    fields = set()
    for o in ors:
        for v in o.values:
            rhs = v.comparators[0]
            ok = (isinstance(rhs, ast.Call) and isinstance(rhs.func, ast.Attribute) and rhs.func.attr == "get_" + v.left.attr
                  and isinstance(rhs.func.value, ast.Name) and rhs.func.value.id == "ctx" and not rhs.args)
            if not ok:
                raise TranslateError("change detection compares something other than src_info.X != ctx.get_X()")
            fields.add(v.left.attr)
    if len(ors) > 1:
        raise TranslateError("more than one change-detection disjunction")
    if not fields <= {"source", "app_config", "mtime"}:
        raise TranslateError(f"change detection on unknown fields {fields}")
    out["cmp_source"] = "source" in fields
    out["cmp_cfg"] = "app_config" in fields
    out["cmp_mtime"] = "mtime" in fields
    # ---- startswith prefixes in load_scripts: will_reload ("modules.") then widening ("apps.", "modules.")
    sw = _startswith_consts(ls, "global_ctx_name")
    if len(sw) < 1 or any(not s.endswith(".") for s in sw):
        raise TranslateError(f"unexpected startswith prefixes {sw}")
    out["wr_roots"] = [_root_id(sw[0][:-1])]
    out["widen_roots"] = [_root_id(s[:-1]) for s in sw[1:]]
    if not out["widen_roots"]:
        raise TranslateError("no package-widening prefixes found")
    # ---- module_import candidate table (absolute branch)
    gtree = parse_file("global_ctx.py")
    mi = find_func(find_class(gtree, "GlobalContext"), "module_import")
    ifs = [n for n in mi.body if isinstance(n, ast.If) and isinstance(n.test, ast.Compare) and isinstance(n.test.left, ast.Name)
           and n.test.left.id == "import_level"]
    top_if = one(ifs, "`if import_level > 0`")
    rows = []

    def collect(stmts, gated):
        for st in stmts:
            if isinstance(st, ast.If):
                gate = _startswith_consts(st.test, "rel_import_path") if False else [
                    n.args[0].value for n in ast.walk(st.test) if isinstance(n, ast.Call) and isinstance(n.func, ast.Attribute)
                    and n.func.attr == "startswith" and n.args and isinstance(n.args[0], ast.Constant)]
                if gate != ["apps/"] or st.orelse:
                    raise TranslateError("module_import: unexpected gate in absolute branch")
                collect(st.body, True)
            elif isinstance(st, ast.Assign):
                parts = _fstring_parts(st.value)
                if not (len(st.targets) == 1 and getattr(st.targets[0], "id", None) == "ctx_name" and len(parts) == 2
                        and parts[1] == ("v", "module_name") and parts[0][0] == "s" and parts[0][1].endswith(".")):
                    raise TranslateError("module_import: unexpected assignment in absolute branch")
                cur[0] = parts[0][1][:-1]
            elif (isinstance(st, ast.Expr) and isinstance(st.value, ast.Call) and isinstance(st.value.func, ast.Attribute)
                  and st.value.func.attr == "append" and getattr(st.value.func.value, "id", None) == "file_paths"):
                lst = st.value.args[0]
                if not (isinstance(lst, ast.List) and len(lst.elts) == 3 and getattr(lst.elts[0], "id", None) == "ctx_name"):
                    raise TranslateError("module_import: candidate is not [ctx_name, path, rel_path]")
                pp = _fstring_parts(lst.elts[1])
                if not (len(pp) == 3 and pp[0] == ("s", cur[0] + "/") and pp[1] == ("v", "module_path") and pp[2][0] == "s"):
                    raise TranslateError("module_import: candidate path shape")
                if pp[2][1] == "/__init__.py":
                    pkg = True
                elif pp[2][1] == ".py":
                    pkg = False
                else:
                    raise TranslateError("module_import: candidate suffix")
                rel = lst.elts[2]
                if isinstance(rel, ast.Constant) and rel.value is None:
                    has_rel = False
                else:
                    rp = _fstring_parts(rel)
                    if rp != [("s", cur[0] + "/"), ("v", "module_path")]:
                        raise TranslateError("module_import: candidate rel_import_path shape")
                    has_rel = True
                rows.append((_root_id(cur[0]), pkg, gated, has_rel))
            else:
                raise TranslateError(f"module_import: unexpected statement in absolute branch: {ast.dump(st)[:80]}")

    cur = [None]
    collect(top_if.orelse, False)
    if not rows:
        raise TranslateError("module_import: no absolute candidates")
    out["mi_abs"] = rows
    # relative branch: the two candidates are package form first, module form second; ctx name from self.name
    rel_appends = [n for n in ast.walk(ast.Module(body=top_if.body, type_ignores=[])) if isinstance(n, ast.Call)
                   and isinstance(n.func, ast.Attribute) and n.func.attr == "append" and getattr(n.func.value, "id", None) == "file_paths"]
    if len(rel_appends) != 2:
        raise TranslateError("module_import: relative branch does not append two candidates")
    first = rel_appends[0].args[0]
    if not (isinstance(first, ast.List) and len(first.elts) == 3):
        raise TranslateError("module_import: relative candidate shape")
    fp = _fstring_parts(first.elts[1])
    if not (fp[-1] == ("s", "/__init__.py")):
        raise TranslateError("module_import: relative branch does not try the package form first")
    # lookup-before-load requires `.module`
    looks = [n for n in ast.walk(mi) if isinstance(n, ast.BoolOp) and isinstance(n.op, ast.And) and len(n.values) == 2
             and getattr(n.values[0], "id", None) == "mod_ctx" and isinstance(n.values[1], ast.Attribute) and n.values[1].attr == "module"]
    one(looks, "`mod_ctx and mod_ctx.module` lookup")
    return out


def _b(x):
    return "true" if x else "false"


def gen_reload_consts():
    c = translate_reload()
    gs = lambda segs: "[" + "; ".join(segs) + "]"
    lines = ["(* GENERATED by harness/vh/props/c10_translate.py from __init__.py load_scripts and global_ctx.py module_import — do not edit *)",
             "From PV Require Import Common.Util Life.ReloadBase.", ""]
    rows = []
    for base, segs, chk, auto in c["load_paths"]:
        b = "None" if base is None else f"(Some {base}%N)"
        rows.append(f"  {{| lp_base := {b}; lp_pat := {gs(segs)}; lp_check := {_b(chk)}; lp_auto := {_b(auto)} |}}")
    lines.append("Definition load_paths : list load_path := [\n" + ";\n".join(rows) + "\n].")
    nl = lambda xs: "[" + "; ".join(f"{x}%N" for x in xs) + "]"
    lines.append(f"Definition ctx_roots : list N := {nl(c['ctx_roots'])}.")
    lines.append(f"Definition top_root : N := {c['top_root']}%N.")
    lines.append(f"Definition wr_roots : list N := {nl(c['wr_roots'])}.")
    lines.append(f"Definition widen_roots : list N := {nl(c['widen_roots'])}.")
    for k in ("cmp_source", "cmp_cfg", "cmp_mtime"):
        lines.append(f"Definition {k} : bool := {_b(c[k])}.")
    rows = [f"  {{| mr_root := {r}%N; mr_pkg := {_b(p)}; mr_gated := {_b(g)}; mr_rel := {_b(h)} |}}" for r, p, g, h in c["mi_abs"]]
    lines.append("Definition mi_abs : list mi_row := [\n" + ";\n".join(rows) + "\n].")
    return "\n".join(lines) + "\n"
