"""C01 helper: grammar-driven generator of straight-line programs (source text) over the modelled subset.

Programs are written in the *native* style of the property's quantifier: literals of every builtin kind with tracer
calls `t(k, e)` at operand positions.  The same text is also run on recording objects (the tracer then returns a
recording object), which needs one discipline: the *receiver* of every operator (left operand, operand of a unary
operator, subscripted / attribute base, right operand of `in`, callee) must be recording-valued, otherwise the
operation would be invisible on the tape.  The generator tracks a kind per expression:
   'R' definitely recording-valued in instrumented mode,  'D' native dict display,  'C' native list/tuple,
   'S' native set (its iteration order is not the model's, so it is never iterated unwrapped),  'N' anything else / unknown
and wraps a receiver of another kind in a tracer call.  Everything random comes from the given rng.
"""

LITS = {
    "int": ["0", "1", "2", "3"],
    "float": ["0.0", "1.5", "2.0"],
    "bool": ["True", "False"],
    "none": ["None"],
    "str": ["''", "'a'", "'ab'", "'k'"],
    "bytes": ["b''", "b'a'"],
    "list": ["[]", "[1, 2]", "[0]", "[[1], 2]", "['a', 'b', 'c']"],
    "tuple": ["()", "(1, 2)", "(3,)", "((1, 2), (3, 4))"],
    "dict": ["{}", "{'k': 1}", "{1: 2, 3: 4}"],
    "set": ["{1, 2}", "{'a'}"],
}
KINDS = list(LITS)
BINOPS = ["+", "-", "*", "/", "%", "**", "<<", ">>", "|", "^", "&", "//"]
CMPOPS = ["==", "!=", "<", "<=", ">", ">=", "is", "is not", "in", "not in"]
UNOPS = ["not ", "~", "+", "-"]


class Gen:
    def __init__(self, rng, max_depth=4):
        self.rng = rng
        self.k = 0
        self.max_depth = max_depth
        self.vars = {}  # name -> kind
        self.init = {}  # prebound name -> literal source
        self.loopvars = []
        self.no_scope = False  # lambda bodies: no binding constructs (walrus, comprehensions)

    # ---- leaves -------------------------------------------------------------------------------------
    def key(self):
        self.k += 1
        return self.k

    def lit(self, kind=None):
        kind = kind or self.rng.choice(KINDS)
        return self.rng.choice(LITS[kind])

    def wrap(self, src):
        return f"t({self.key()}, {src})"

    def leaf(self):
        r = self.rng.random()
        names = [n for n in self.vars]
        if names and r < 0.35:
            n = self.rng.choice(names)
            return n, self.vars[n]
        if r < 0.40:
            return "undefined_name", "N"
        if r < 0.55:
            kind = self.rng.choice(["int", "str", "bool", "none", "float"])
            return self.lit(kind), "N"
        return self.wrap(self.lit()), "R"

    def as_r(self, pair):
        src, kind = pair
        return src if kind == "R" else self.wrap(src)

    def as_iter(self, pair):
        src, kind = pair
        return src if kind in ("R", "C", "D") else self.wrap(src)

    # ---- expressions ----------------------------------------------------------------------------------
    def expr(self, d=0):
        rng = self.rng
        if d >= self.max_depth or rng.random() < 0.18 + 0.12 * d:
            return self.leaf()
        form = rng.choices(
            ["binop", "unary", "boolop", "compare", "ifexp", "call", "list", "tuple", "set", "dict", "subscript", "attr",
             "walrus", "listcomp", "setcomp", "dictcomp", "tracer", "fstring"],
            [14, 6, 9, 12, 6, 9, 5, 5, 3, 6, 8, 3, 3, 4, 2, 2, 6, 4])[0]
        if self.no_scope and form in ("walrus", "listcomp", "setcomp", "dictcomp"):
            form = "binop"
        return getattr(self, "e_" + form)(d + 1)

    SPECS = [">3", "<4", "03", ".1f", "x", "^5", "d", "q", ">8", "6", "*^7", ".2"]

    def e_fstring(self, d):
        """f-string: literal text and replacement fields; the formatted value is a receiver (format() is asked of it).
        Fields come with every combination of conversion (!r !s !a) x format spec (none, literal, nested {expr}): the
        conversion is applied first and the *string* is then formatted with the spec."""
        parts = []
        for _ in range(self.rng.choice([1, 1, 2, 3])):
            if self.rng.random() < 0.3:
                parts.append(self.rng.choice(["a", "<", " ", "x=", "%", "{{", "}}"]))
                continue
            r = self.rng.random()
            if r < 0.5:
                val = self.wrap(self.lit(self.rng.choice(["str", "none", "int", "float", "list", "bool", "dict", "tuple"])))
            else:
                val = self.as_r(self.expr(d + 1))
            conv = self.rng.choice(["", "", "!r", "!s", "!r", "!s", "!a"])
            r = self.rng.random()
            if r < 0.35:
                spec = ""
            elif r < 0.8:
                spec = ":" + self.rng.choice(self.SPECS)
            elif r < 0.9:
                spec = ":{" + self.wrap(self.rng.choice(["3", "'>6'", "2", "'x'"])) + "}"
            else:
                spec = ":" + self.rng.choice([">", "<", "^", ""]) + "{" + self.as_r(self.expr(d + 2)) + "}"
            parts.append("{" + val + conv + spec + "}")
        return "f'" + "".join(parts) + "'", "N"

    def e_tracer(self, d):
        return self.wrap(self.expr(d)[0]), "R"

    def e_binop(self, d):
        op = self.rng.choice(BINOPS)
        left = self.as_r(self.expr(d))
        right = self.expr(d)[0]
        if op in ("**", "<<"):
            right = self.rng.choice(["0", "1", "2", "3", self.wrap("2"), self.wrap("'a'")])
        return f"({left} {op} {right})", "R"

    def e_unary(self, d):
        op = self.rng.choice(UNOPS)
        if op == "not ":
            return f"(not {self.expr(d)[0]})", "N"
        return f"({op}{self.as_r(self.expr(d))})", "R"

    def e_boolop(self, d):
        op = self.rng.choice([" and ", " or "])
        parts = [self.expr(d) for _ in range(self.rng.choice([2, 2, 3, 4]))]
        kind = "R" if all(k == "R" for _s, k in parts) else "N"
        return "(" + op.join(s for s, _k in parts) + ")", kind

    def is_operand(self):
        """operands of is / is not: the identity of a recording object is not the identity of the value it stands for,
        so only operands whose identity relations are the same in both runs: the singletons themselves, and freshly
        built containers (identical to nothing else)"""
        if self.rng.random() < 0.5:
            return self.rng.choice(["None", "True", "False"])
        return self.wrap(self.lit(self.rng.choice(["list", "dict", "set"])))

    def e_compare(self, d):
        n = self.rng.choice([1, 1, 1, 2, 2, 3])
        ops = [self.rng.choice(CMPOPS) for _ in range(n)]
        if any(o in ("is", "is not") for o in ops):
            operands = [self.is_operand() for _ in range(n + 1)]
            # identity of a recording object differs from identity of the value it stands for, so the instrumented run
            # may leave a chain earlier than the native one: keep side effects out of the middle operands
            for i in range(1, n):
                operands[i] = self.rng.choice(["None", "True", "False"])
            ops = [o if o in ("is", "is not") else self.rng.choice(["is", "is not"]) for o in ops]
        else:
            operands = [self.expr(d) for _ in range(n + 1)]
            for i, o in enumerate(ops):
                # receiver: right operand of in / not in, left operand otherwise
                j = i + 1 if o in ("in", "not in") else i
                operands[j] = (self.as_r(operands[j]), "R")
            operands = [s for s, _k in operands]
        src = operands[0]
        for o, x in zip(ops, operands[1:]):
            src += f" {o} {x}"
        return f"({src})", "N"

    def e_ifexp(self, d):
        c = self.expr(d)[0]
        a, b = self.expr(d), self.expr(d)
        kind = a[1] if a[1] == b[1] and a[1] in ("R", "D", "C", "S") else "N"
        return f"({a[0]} if {c} else {b[0]})", kind

    def args(self, d, allow_kw=True):
        parts = []
        for _ in range(self.rng.choice([0, 1, 1, 2, 3])):
            if self.rng.random() < 0.25:
                parts.append("*" + self.as_iter(self.expr(d)))
            else:
                parts.append(self.expr(d)[0])
        used = set()
        if allow_kw:
            for _ in range(self.rng.choice([0, 0, 1, 2])):
                r = self.rng.random()
                if r < 0.3:
                    parts.append("**" + self.dict_operand(d))
                else:
                    name = self.rng.choice(["k", "j", "m"])
                    if name in used:
                        continue
                    used.add(name)
                    parts.append(f"{name}={self.expr(d)[0]}")
        return ", ".join(parts)

    def dict_operand(self, d):
        r = self.rng.random()
        ds = [n for n, k in self.vars.items() if k == "D"]
        if ds and r < 0.2:
            return self.rng.choice(ds)
        if r < 0.3:
            return self.rng.choice(["{1: 2}", "5", "None", "[1]"])  # ill-typed on purpose
        keys = self.rng.sample(["k", "j", "m", "n"], self.rng.choice([0, 1, 2]))
        return "{" + ", ".join(f"'{k}': {self.expr(d + 1)[0]}" for k in keys) + "}"

    def e_call(self, d):
        callee = self.rng.choice(["f", "f", "g", self.as_r(self.leaf())])
        for c in ("f", "g"):
            self.init.setdefault(c, "<callable>")
        return f"{callee}({self.args(d)})", "R"

    def elts(self, d, raw_keys=False):
        parts = []
        for _ in range(self.rng.choice([0, 1, 2, 2, 3])):
            if self.rng.random() < 0.2:
                # items spliced into a set must not be raw constants of mixed numeric types (2 == 2.0 == True would merge
                # natively, the model compares constants structurally): recording-valued iterables only
                parts.append("*" + (self.as_r(self.expr(d)) if raw_keys else self.as_iter(self.expr(d))))
            else:
                parts.append(self.hashable_elt(d) if raw_keys else self.expr(d)[0])
        return parts

    def hashable_elt(self, d):
        """set elements / dict keys: raw constants only from ints and strings (1 == True == 1.0 would merge natively)"""
        src, kind = self.expr(d)
        if kind == "R":
            return src
        if self.rng.random() < 0.5:
            return self.rng.choice(["1", "2", "'a'", "'k'", "0"])
        return self.wrap(src)

    def e_list(self, d):
        return "[" + ", ".join(self.elts(d)) + "]", "C"

    def e_tuple(self, d):
        parts = self.elts(d)
        if len(parts) == 1:
            return "(" + parts[0] + ",)", "C"
        return "(" + ", ".join(parts) + ")", "C"

    def e_set(self, d):
        parts = self.elts(d, raw_keys=True)
        if not parts:
            parts = [self.hashable_elt(d)]
        return "{" + ", ".join(parts) + "}", "S"

    def e_dict(self, d):
        parts = []
        for _ in range(self.rng.choice([0, 1, 2, 2, 3])):
            if self.rng.random() < 0.2:
                parts.append("**" + self.dict_operand(d))
            else:
                parts.append(f"{self.hashable_elt(d)}: {self.expr(d)[0]}")
        return "{" + ", ".join(parts) + "}", "D"

    def index(self, d):
        r = self.rng.random()
        if r < 0.3:
            b = lambda: self.rng.choice(["", "", self.expr(d + 1)[0], "1", "0"])  # noqa: E731
            lo, hi = b(), b()
            if self.rng.random() < 0.3:
                return f"{lo}:{hi}:{b()}"
            return f"{lo}:{hi}"
        if r < 0.4:
            return f"{self.expr(d + 1)[0]}, {self.expr(d + 1)[0]}"
        return self.expr(d)[0]

    def e_subscript(self, d):
        return f"{self.as_r(self.expr(d))}[{self.index(d)}]", "R"

    def e_attr(self, d):
        self.init.setdefault("o", "Plain()")
        self.vars.setdefault("o", "R")
        base = "o" if self.rng.random() < 0.7 else self.as_r(self.expr(d))
        return f"{base}.{self.rng.choice(['x', 'y', 'real'])}", "R"

    def e_walrus(self, d):
        name = self.rng.choice(["w", "v", "x"])
        if name in self.loopvars:
            name = "w"
        src, kind = self.expr(d)
        self.vars[name] = "N"  # may or may not be executed: never rely on its kind
        return f"({name} := {src})", kind

    def comp_clauses(self, d):
        """-> [(clause source, {name: kind before})].  Python makes every name bound by any clause local to the whole
        comprehension (reading it before its clause binds it is an UnboundLocalError, while pyscript would read the
        enclosing variable - noted in notes/C01.md, outside what is generated): all loop variable names are chosen first
        and hidden from the expressions generated before their binding."""
        rng = self.rng
        plan = []
        bound = []
        for _ in range(rng.choice([1, 1, 1, 2])):
            var = rng.choice(["i", "j", "x", "y"])
            while var in bound:
                var = var + "2"
            new = [var, var + "b"] if rng.random() < 0.15 else [var]
            bound += new
            plan.append(new)
        hidden = {n: self.vars.pop(n) for n in bound if n in self.vars}
        clauses = []
        for new in plan:
            it = self.as_iter(self.expr(d + 1))
            if len(new) == 2:
                target = f"{new[0]}, {new[1]}"
                if rng.random() < 0.6:
                    it = rng.choice(["[(1, 2), (3, 4)]", self.wrap("[(1, 2), (3, 4)]"), self.wrap("{'a': 1}") + ".items()",
                                     "[(1, 2, 3)]"])
                elif not it.startswith("t("):
                    it = self.wrap(it)  # the items are unpacked: keep native sets (hash order) out of them
            else:
                target = new[0]
            saved = {n: hidden.get(n) for n in new}
            for n in new:
                self.vars[n] = "N"
                self.loopvars.append(n)
            cl = f"for {target} in {it}"
            for _ in range(rng.choice([0, 0, 1, 2])):
                cl += f" if {self.expr(d + 1)[0]}"
            clauses.append((cl, saved))
        return clauses

    def comp_done(self, clauses):
        for _cl, saved in clauses:
            for n, k in saved.items():
                if n in self.loopvars:
                    self.loopvars.remove(n)
                if k is None:
                    self.vars.pop(n, None)
                else:
                    self.vars[n] = k

    def e_listcomp(self, d):
        cls = self.comp_clauses(d)
        elt = self.expr(d + 1)[0]
        self.comp_done(cls)
        return f"[{elt} " + " ".join(c for c, _s in cls) + "]", "C"

    def e_setcomp(self, d):
        cls = self.comp_clauses(d)
        elt = self.hashable_elt(d + 1)
        self.comp_done(cls)
        return "{" + f"{elt} " + " ".join(c for c, _s in cls) + "}", "S"

    def e_dictcomp(self, d):
        cls = self.comp_clauses(d)
        key = self.hashable_elt(d + 1)
        val = self.expr(d + 1)[0]
        self.comp_done(cls)
        return "{" + f"{key}: {val} " + " ".join(c for c, _s in cls) + "}", "D"

    # ---- statements -----------------------------------------------------------------------------------
    def new_name(self):
        return self.rng.choice(["x", "y", "z", "u", "v", "w"])

    def target(self, d, value_kind):
        """-> source of one assignment target; records the kinds of the names it binds"""
        r = self.rng.random()
        rs = [n for n, k in self.vars.items() if k == "R" and n not in ("f", "g")]
        if r < 0.12 and rs:
            return f"{self.rng.choice(rs)}[{self.index(d + 1)}]"
        if r < 0.18:
            self.init.setdefault("o", "Plain()")
            self.vars.setdefault("o", "R")
            return f"o.{self.rng.choice(['x', 'y'])}"
        n = self.new_name()
        self.vars[n] = value_kind
        return n

    def unpack_target(self, d, rhs_kind, depth=0):
        n = self.rng.choice([1, 2, 2, 3])
        star = self.rng.random() < 0.3
        names = []
        elem_kind = "R" if rhs_kind == "R" else "N"
        star_at = self.rng.randrange(n) if star else -1
        for i in range(n):
            if i == star_at:
                nm = self.new_name()
                self.vars[nm] = "C"
                names.append("*" + nm)
            elif depth == 0 and self.rng.random() < 0.12:
                names.append("(" + self.unpack_target(d, "N", depth + 1) + ")")
            elif self.rng.random() < 0.1:
                names.append(self.target(d, elem_kind))
            else:
                nm = self.new_name()
                self.vars[nm] = elem_kind
                names.append(nm)
        if len(names) == 1:
            return names[0] + ","
        return ", ".join(names)

    def stmt(self):
        rng = self.rng
        form = rng.choices(["assign", "unpack", "aug", "del", "expr", "multi", "pass", "shadow"], [30, 12, 14, 7, 12, 4, 1, 6])[0]
        d = 0
        if form == "shadow":
            return self.shadow()
        if form == "assign":
            src, kind = self.expr(d)
            return f"{self.target(d, kind)} = {src}"
        if form == "multi":
            src, kind = self.expr(d)
            return f"{self.target(d, kind)} = {self.target(d, kind)} = {src}"
        if form == "unpack":
            r = rng.random()
            if r < 0.5:
                n = rng.choice([1, 2, 2, 3, 4])
                items = [self.expr(1) for _ in range(n)]
                tgt = self.unpack_target(d, "C")
                # a nested target iterates an item natively: a native set (hash order is not the model's) may hide behind
                # any expression of unknown kind (conditional, and/or, walrus, variable), so with a nested target only
                # items known to be recording-valued or ordered native containers stay unwrapped; sets are always wrapped
                nested = "(" in tgt
                parts = [src if (kind in ("R", "C", "D") or (kind == "N" and not nested)) else self.wrap(src) for src, kind in items]
                rhs = "(" + ", ".join(parts) + ("," if n == 1 else "") + ")"
                if rng.random() < 0.4:
                    rhs = "[" + ", ".join(parts) + "]"
            else:
                rhs, kind = self.expr(d)
                rhs = self.as_iter((rhs, kind))
                kind = kind if kind in ("R", "C", "D") else "R"
                tgt = self.unpack_target(d, kind)
            if rng.random() < 0.2:
                tgt = "[" + tgt.rstrip(",") + "]"
            return f"{tgt} = {rhs}"
        if form == "aug":
            op = rng.choice(BINOPS)
            rs = [n for n, k in self.vars.items() if k == "R" and n not in ("f", "g", "o")]
            r = rng.random()
            if r < 0.45 and rs:
                tgt = rng.choice(rs)
            elif r < 0.8 and rs:
                tgt = f"{rng.choice(rs)}[{self.expr(1)[0]}]"
            elif r < 0.9:
                self.init.setdefault("o", "Plain()")
                self.vars.setdefault("o", "R")
                tgt = f"o.{rng.choice(['x', 'y'])}"
            else:
                nm = f"a{len(self.init)}"
                self.init[nm] = self.lit()
                self.vars[nm] = "R"
                tgt = nm
            val = self.expr(1)[0]
            if op in ("**", "<<"):
                val = rng.choice(["1", "2", self.wrap("2")])
            return f"{tgt} {op}= {val}"
        if form == "del":
            # one to three targets of mixed kinds (name / subscript / attribute), deleted left to right
            parts = []
            for _ in range(rng.choice([1, 1, 2, 2, 3])):
                r = rng.random()
                names = [n for n in self.vars if n not in ("f", "g", "o")]
                rs = [n for n, k in self.vars.items() if k == "R" and n not in ("f", "g", "o")]
                if r < 0.4 and names:
                    n = rng.choice(names)
                    self.vars.pop(n, None)
                    parts.append(n)
                elif r < 0.8 and rs:
                    parts.append(f"{rng.choice(rs)}[{self.index(1)}]")
                else:
                    self.init.setdefault("o", "Plain()")
                    self.vars.setdefault("o", "R")
                    parts.append(f"o.{rng.choice(['x', 'y'])}")
            return "del " + ", ".join(parts)
        if form == "expr":
            return self.expr(d)[0]
        return "pass"

    FALSY = ["None", "False", "0", "''", "0.0", "b''", "[]", "()", "{}"]

    def shadow(self):
        """a variable of ANY value kind (falsy ones included) or no binding at all, then a comprehension whose loop
        variable shadows it (possibly never assigned: empty iterable), then a later read of the variable: the
        enclosing binding must come back exactly (value and bound-ness)"""
        rng = self.rng
        v = rng.choice(["x", "y", "z", "u"])
        lines = []
        r = rng.random()
        if r < 0.3:
            lines.append(f"{v} = {rng.choice(self.FALSY)}")
            kind = "N"
        elif r < 0.5:
            lines.append(f"{v} = {self.lit()}")
            kind = "N"
        elif r < 0.65:
            lines.append(f"{v} = {self.wrap(rng.choice(self.FALSY + [self.lit()]))}")
            kind = "R"
        elif r < 0.85:
            if v in self.vars:
                lines.append(f"del {v}")
            kind = None
        else:
            kind = self.vars.get(v)
        self.vars.pop(v, None)
        # iterables are generated while the variable is hidden (Python would make reading it there an UnboundLocalError)
        outer = f"for j9 in {self.as_iter(self.expr(2))} " if rng.random() < 0.25 else ""
        it = rng.choice([self.wrap("[]"), self.wrap("[1, 2]"), "[3]", "()", self.as_iter(self.expr(2))])
        pair = rng.random() < 0.2
        if pair:
            it = rng.choice([self.wrap("[(1, 2), (3, 4)]"), "[(1, 2)]", self.wrap("[]")])
        self.vars[v] = "N"
        if outer:
            self.vars["j9"] = "N"
        cond = f" if {self.expr(2)[0]}" if rng.random() < 0.3 else ""
        target = f"{v}, {v}b" if pair else v
        shape = rng.random()
        if shape < 0.5:
            comp = f"[{self.expr(2)[0]} {outer}for {target} in {it}{cond}]"
        elif shape < 0.75:
            comp = "{" + f"{self.hashable_elt(2)} {outer}for {target} in {it}{cond}" + "}"
        else:
            comp = "{" + f"{self.hashable_elt(2)}: {self.expr(2)[0]} {outer}for {target} in {it}{cond}" + "}"
        self.vars.pop("j9", None)
        self.vars.pop(v, None)
        if kind is not None:
            self.vars[v] = kind
        res = self.new_name()
        while res == v:
            res = self.new_name()
        self.vars[res] = "D" if shape >= 0.75 else ("S" if shape >= 0.5 else "C")
        lines.append(f"{res} = {comp}")
        after = self.new_name()
        while after in (v, res):
            after = self.new_name()
        lines.append(f"{after} = ({v}, {res})" if rng.random() < 0.5 else f"{after} = {v}")
        self.vars[after] = "N"
        return "\n".join(lines)

    def program(self, nstmts):
        # a few prebound names so that statements have something to work on
        for _ in range(self.rng.choice([0, 1, 2, 3])):
            nm = f"a{len(self.init)}"
            self.init[nm] = self.lit()
            self.vars[nm] = "R"
        lines = [self.stmt() for _ in range(nstmts)]
        return "\n".join(lines)


def random_case(rng, mode, max_depth=None, nstmts=None):
    g = Gen(rng, max_depth=max_depth or rng.choice([2, 3, 3, 4, 5]))
    src = g.program(nstmts or rng.choice([1, 1, 2, 3, 4]))
    return {"src": src, "init": dict(g.init), "mode": mode, "seed": rng.randrange(1 << 30)}


# ------------------------------------------------------------------------------------------------
# bounded-exhaustive operator x operand-kind tables
# ------------------------------------------------------------------------------------------------
def table_cases():
    """every binary / comparison / augmented operator over every pair of literal kinds, every unary operator over
    every kind, subscripts and slices over every container kind; first literal of each kind, tracer at both operands"""
    cases = []
    first = {k: v[min(1, len(v) - 1)] for k, v in LITS.items()}
    for a in KINDS:
        for b in KINDS:
            for op in BINOPS:
                rb = first[b] if not (op in ("**", "<<") and b in ("int",)) else "2"
                cases.append({"src": f"x = t(1, {first[a]}) {op} t(2, {rb})", "init": {}, "mode": "native", "seed": 0,
                              "table": f"bin {op} {a} {b}"})
                cases.append({"src": f"a0 {op}= t(1, {rb})\nx = a1", "init": {"a0": first[a], "a1": first[a]}, "mode": "native", "seed": 0,
                              "table": f"aug {op} {a} {b}"})
            for op in CMPOPS:
                if op in ("is", "is not"):
                    continue
                if op in ("in", "not in"):
                    src = f"x = t(1, {first[a]}) {op} t(2, {first[b]})"
                else:
                    src = f"x = t(1, {first[a]}) {op} t(2, {first[b]})\ny = t(3, {first[a]}) {op} t(4, {first[b]}) {op} t(5, {first[a]})"
                cases.append({"src": src, "init": {}, "mode": "native", "seed": 0, "table": f"cmp {op} {a} {b}"})
            cases.append({"src": f"x = t(1, {first[a]})[t(2, {first[b]})]", "init": {}, "mode": "native", "seed": 0,
                          "table": f"subscript {a} {b}"})
            cases.append({"src": f"x = t(1, {first[a]}) and t(2, {first[b]})\ny = t(3, {first[a]}) or t(4, {first[b]})\n"
                                 f"z = t(5, 1) if t(6, {first[a]}) else t(7, {first[b]})", "init": {}, "mode": "native", "seed": 0,
                          "table": f"bool {a} {b}"})
        for op in UNOPS:
            cases.append({"src": f"x = {op}t(1, {first[a]})", "init": {}, "mode": "native", "seed": 0, "table": f"unary {op.strip()} {a}"})
        cases.append({"src": f"x = t(1, {first[a]})[t(2, 0):t(3, 2)]\ny = t(4, {first[a]})[::t(5, 2)]", "init": {}, "mode": "native",
                      "seed": 0, "table": f"slice {a}"})
        cases.append({"src": f"x = f'{{t(1, {first[a]})}}|{{t(2, {first[a]})!r}}|{{t(3, {first[a]})!s}}|{{t(4, {first[a]}):>4}}|{{t(5, {first[a]}):{{t(6, 3)}}}}'",
                      "init": {}, "mode": "native", "seed": 0, "table": f"fstring {a}"})
        for conv in ("!r", "!s", "!a"):
            cases.append({"src": f"x = f'{{t(1, {first[a]}){conv}:>8}}'\ny = f'{{t(2, {first[a]}){conv}:{{t(3, 6)}}}}|{{t(4, {first[a]}){conv}:<{{t(5, 4)}}}}'\n"
                                 f"z = f'{{t(6, {first[a]}){conv}:d}}'",
                          "init": {}, "mode": "native", "seed": 0, "table": f"fconvspec {conv} {a}"})
        cases.append({"src": f"x, y = t(1, {first[a]})\n", "init": {}, "mode": "native", "seed": 0, "table": f"unpack2 {a}"})
        cases.append({"src": f"x, *y = t(1, {first[a]})\n", "init": {}, "mode": "native", "seed": 0, "table": f"unpack* {a}"})
        cases.append({"src": f"x = [*t(1, {first[a]}), t(2, 1)]\ny = f(*t(3, {first[a]}))", "init": {"f": "<callable>"}, "mode": "native",
                      "seed": 0, "table": f"star {a}"})
        cases.append({"src": f"x = [i for i in t(1, {first[a]})]\ny = {{i: t(2, i) for i in t(3, {first[a]}) if t(4, i)}}", "init": {},
                      "mode": "native", "seed": 0, "table": f"comp {a}"})
    # comprehension loop variable shadowing a variable of every value kind (truthy and falsy) or no variable at all,
    # loop body run / never run (empty iterable), every comprehension form, then a later read
    inits = [("unbound", None)] + [(f"falsy{i}", v) for i, v in enumerate(Gen.FALSY)] + [(k, first[k]) for k in KINDS]
    comps = [("list", "[t(1, x) for x in t(2, [1, 2])]"), ("empty", "[x for x in t(2, [])]"), ("set", "{x for x in [3]}"),
             ("dict", "{x: xb for x, xb in t(2, [(1, 2)])}"), ("two", "[(j, x) for j in t(2, [1]) for x in t(3, [4])]"),
             ("cond", "[x for x in t(2, [0, 1]) if t(3, x)]")]
    for iname, init in inits:
        for cname, comp in comps:
            pre = f"x = {init}\n" if init is not None else ""
            pre += (f"xb = {init}\n" if init is not None else "") if cname == "dict" else ""
            post = "y = x" if cname != "dict" else "y = (x, xb)"
            cases.append({"src": f"{pre}r = {comp}\n{post}", "init": {}, "mode": "native", "seed": 0,
                          "table": f"shadow {cname} {iname}", "must": True})
    # del with one to three targets of every combination of kinds, then reads of what must be left
    tkinds = {"name": ("x", "x = 1\n"), "sub": ("a0[t(1, 0)]", ""), "attr": ("o.x", "o.x = 2\n"),
              "name2": ("y", "y = 3\n"), "sub2": ("a0[t(2, 0)]", "")}
    combos = [(a,) for a in ("name", "sub", "attr")]
    combos += [(a, b) for a in ("name", "sub", "attr") for b in ("name2", "sub2", "attr") if a != b]
    combos += [("sub", "name", "sub2"), ("sub", "attr", "name"), ("name", "sub", "attr"), ("attr", "sub", "name"), ("sub", "sub2", "name")]
    for combo in combos:
        pre = "".join(tkinds[k][1] for k in combo)
        src = f"{pre}del {', '.join(tkinds[k][0] for k in combo)}\nr = t(9, a0)\nz = (x, y)"
        cases.append({"src": src, "init": {"a0": "[1, 2, 3]", "o": "Plain()"}, "mode": "native", "seed": 0,
                      "table": f"del {'-'.join(combo)}", "must": True})
    for i, src in enumerate(LAMBDA_TABLE):
        cases.append({"src": src, "init": {}, "mode": "native", "seed": 0, "table": f"lambda {i}", "must": True, "nomodel": True})
    for c in cases:
        if c["table"].startswith("fconvspec"):
            c["must"] = True
    return cases


def mandatory_cases(mode):
    """table programs that are part of every run of either stream"""
    return [dict(c, mode=mode) for c in table_cases() if c.get("must") and not c.get("nomodel")]


# ------------------------------------------------------------------------------------------------
# lambda expressions: outside the Coq model (function values, parameter binding), checked by the native comparison
# ------------------------------------------------------------------------------------------------
def _lambda_params(g, loopvar=None):
    """-> (parameter list source, positional names, keyword-only names)"""
    rng = g.rng
    pos = rng.sample(["p", "q", "r"], rng.choice([0, 1, 1, 2, 3]))
    ndef = rng.randint(0, len(pos))
    parts = []
    for i, n in enumerate(pos):
        if i >= len(pos) - ndef:
            dflt = loopvar if (loopvar and rng.random() < 0.6) else g.wrap(g.lit())
            parts.append(f"{n}={dflt}")
        else:
            parts.append(n)
    if pos and rng.random() < 0.15:
        parts.insert(rng.randint(1, len(pos)), "/")
    star = rng.random() < 0.3
    if star:
        parts.append("*rest")
    kwonly = []
    if rng.random() < 0.35:
        if not star:
            parts.append("*")
        kwonly = ["k"]
        dflt = loopvar if (loopvar and rng.random() < 0.5) else g.wrap(g.lit())
        parts.append("k=" + dflt if rng.random() < 0.7 else "k")
    if rng.random() < 0.15:
        parts.append("**kw")
    g.lam_sig = {"npos": len(pos), "nreq": len(pos) - ndef, "star": star, "kreq": bool(kwonly) and parts[-1 - (1 if parts[-1] == "**kw" else 0)] == "k"}
    return ", ".join(parts), pos + (["rest"] if star else []), kwonly


def _lambda_body(g, names):
    saved = dict(g.vars)
    g.vars = {n: "N" for n in names}
    g.no_scope = True
    try:
        r = g.rng.random()
        if r < 0.55 and names:
            body = "(" + ", ".join(names) + ",)"
        else:
            body = g.expr(2)[0]
    finally:
        g.no_scope = False
        g.vars = saved
    return body


def _lambda_call(g, fn, pos, kwonly):
    """mostly well-formed calls (right number of positionals, required keyword-only given), sometimes deliberately not"""
    rng = g.rng
    sig = g.lam_sig
    val = lambda: g.wrap(g.lit()) if rng.random() < 0.5 else g.lit()  # noqa: E731
    if rng.random() < 0.75:
        n = rng.randint(sig["nreq"], sig["npos"] + (2 if sig["star"] else 0))
        args = [val() for _ in range(n)]
        if kwonly and (sig["kreq"] or rng.random() < 0.5):
            args.append(f"k={val()}")
    else:
        args = [val() for _ in range(rng.choice([0, 1, 2, 3, 4]))]
        pool = [n for n in pos + kwonly + ["zz"] if n != "rest"]
        for n in rng.sample(pool, min(len(pool), rng.choice([0, 1, 2]))):
            args.append(f"{n}={val()}")
    if rng.random() < 0.1:
        args.insert(len([a for a in args if "=" not in a]), "*" + g.wrap("[1, 2]"))
    return f"{fn}({', '.join(args)})"


def lambda_case(rng):
    """a lambda expression evaluated once or several times (inside a comprehension: every evaluation is a new function
    with freshly evaluated defaults), then called in several ways; defaults, *rest, keyword-only parameters, closures
    over globals, shared mutable defaults, identity of the functions"""
    g = Gen(rng, max_depth=3)
    lines = []
    shape = rng.random()
    if shape < 0.3:
        params, pos, kwonly = _lambda_params(g)
        lines.append(f"fn = lambda {params}: {_lambda_body(g, pos + kwonly)}")
        if rng.random() < 0.3:
            lines.append(f"g0 = {g.lit()}")
        for i in range(rng.choice([1, 2, 3])):
            lines.append(f"r{i} = {_lambda_call(g, 'fn', pos, kwonly)}")
    elif shape < 0.75:
        params, pos, kwonly = _lambda_params(g, loopvar="i")
        body = _lambda_body(g, pos + kwonly)
        it = rng.choice([g.wrap("[0, 1, 2]"), "(1, 2)", g.wrap("['a', 'b']"), g.wrap("[]"), "[3]"])
        if rng.random() < 0.7:
            lines.append(f"fs = [lambda {params}: {body} for i in {it}]")
            lines.append(f"rs = [{_lambda_call(g, 'fn', pos, kwonly)} for fn in fs]")
            lines.append("same = [a is b for a in fs for b in fs]")
            lines.append(f"r0 = {_lambda_call(g, 'fs[0]', pos, kwonly)}")
            if rng.random() < 0.4:
                lines.append(f"r1 = {_lambda_call(g, 'fs[-1]', pos, kwonly)}")
        else:
            lines.append(f"fd = {{i: (lambda {params}: {body}) for i in {it}}}")
            lines.append(f"rs = [{_lambda_call(g, 'fd[key]', pos, kwonly)} for key in fd]")
            lines.append("same = [fd[a] is fd[b] for a in fd for b in fd]")
    elif shape < 0.9:
        params, pos, kwonly = _lambda_params(g)
        call = _lambda_call(g, "", pos, kwonly)
        lines.append(f"r0 = (lambda {params}: {_lambda_body(g, pos + kwonly)}){call}")
    else:
        # a mutable default is shared by the calls of ONE function, not by the functions of several evaluations
        it = rng.choice(["[0, 1, 2]", g.wrap("[0, 1]")])
        lines.append(f"acc = [lambda base=[n]: base for n in {it}]")
        lines.append("r0 = [fn() for fn in acc]")
        lines.append(f"acc[0]().append({g.wrap(g.lit())})")
        lines.append("r1 = [fn() for fn in acc]")
    return {"src": "\n".join(lines), "init": dict(g.init), "mode": "native", "seed": rng.randrange(1 << 30), "nomodel": True}


LAMBDA_TABLE = [
    "fs = [lambda i=i: i * 10 for i in t(1, [0, 1, 2])]\nr = [f() for f in fs]\nsame = [a is b for a in fs for b in fs]",
    "g1 = [lambda d=t(i, i): d for i in [5, 6]]\nr = [f() for f in g1]\nr2 = g1[0](7)",
    "s = (lambda a, *b, c=t(1, 5): (a, b, c))(1, 2, 3)\ns2 = (lambda a, *b, c=t(2, 5): (a, b, c))(1, c=t(3, 9))",
    "d = {n: (lambda s, n=n: s * n) for n in (1, 2)}\nr = [d[1]('a'), d[2]('a')]",
    "fn = lambda x, y=t(1, 2), *z, k=t(2, 3), **kw: (x, y, z, k, kw)\na = fn(1)\nb = fn(1, 2, 3, 4, k=5, j=6)\nc = fn()",
    "fn = lambda x: t(1, x) + g0\ng0 = 5\na = fn(1)\nb = fn('s')",
    "acc = [lambda base=[n]: base for n in [0, 1, 2]]\nr = [f() for f in acc]\nacc[0]().append(9)\nr2 = acc[0]()\nr3 = acc[1]()",
    "fn = lambda a, b=1: a < b < t(1, 3)\nx = fn(0)\ny = fn(2, 1)\nz = fn(b=3, a=1)\nw = fn(1, 2, 3)",
    "x = 1\nfn = lambda: x\nx = 2\na = fn()\ng1 = lambda x=x: x\nx = 3\nb = g1()",
    "a, b = [lambda: 0 for j in (1, 2)]\nsame = a is b\nr = (a(), b())",
    "ks = {k: [lambda v=t(k, k), w=j: (v, w) for j in (1, 2)] for k in (3, 4)}\nr = [f() for k in ks for f in ks[k]]",
]


