"""C14 — every run is an independent task whose exit always cleans up."""
import ast
import copy

from .. import coqio as q
from ..core import Prop, Stream, cfg_prelude, run_workers_parallel, split_chunks
from ..translate import TranslateError, const, find_class, find_func, one, parse_file, walk_find


# ------------------------------------------------------------------------------------------------
# T1: the shape of run_coro / task_reaper / user_task_cancel and of the create_task call sites -> Gen/LifecycleConsts.v
# ------------------------------------------------------------------------------------------------
def _src(node):
    return ast.unparse(node)


def _is_call_stmt(node, text):
    return isinstance(node, ast.Expr) and isinstance(node.value, ast.Call) and _src(node.value) == text


def translate_lifecycle():
    out = {}
    fn_tree = parse_file("function.py")
    cls = find_class(fn_tree, "Function")
    rc = find_func(cls, "run_coro")
    tr = one([n for n in rc.body if isinstance(n, ast.Try)], "try statement in run_coro")
    # body: our_tasks.add before the await of the coroutine
    body_src = [_src(s) for s in tr.body]
    try:
        i_add = body_src.index("cls.our_tasks.add(task)")
        i_await = next(i for i, s in enumerate(tr.body) if walk_find(s, lambda n: isinstance(n, ast.Await)))
    except (ValueError, StopIteration) as exc:
        raise TranslateError("run_coro: no `cls.our_tasks.add(task)` / `await coro` in the try body") from exc
    out["lc_registers_first"] = i_add < i_await
    out["lc_start_cbrec_if_ctx"] = any(
        isinstance(s, ast.If) and _src(s.test) == "ast_ctx is not None" and _src(s.body[0]) == "cls.task_done_callback_ctx(task, ast_ctx)"
        for s in tr.body[:i_await])
    # handlers: CancelledError re-raised, Exception swallowed
    if len(tr.handlers) != 2:
        raise TranslateError("run_coro: expected two except clauses")
    h0, h1 = tr.handlers
    if not (_src(h0.type) == "asyncio.CancelledError" and len(h0.body) == 1 and isinstance(h0.body[0], ast.Raise) and h0.body[0].exc is None):
        raise TranslateError("run_coro: first handler is not `except asyncio.CancelledError: raise`")
    if _src(h1.type) != "Exception" or walk_find(h1, lambda n: isinstance(n, ast.Raise)):
        raise TranslateError("run_coro: second handler is not an `except Exception` that swallows")
    # finally: the order of the five actions (a nested try/finally around them, a copy of the dict being iterated and a
    # handler that remembers a CancelledError are accepted and reported: they are what a repair of D140/D141 looks like)
    order = []
    breaks = False
    awaits = False
    snapshot = False
    catches_cancel = False
    protected = False

    def flat(stmts):
        nonlocal protected
        for st in stmts:
            if isinstance(st, ast.Try) and not st.handlers and not st.orelse:
                protected = True
                yield from flat(st.body)
                yield from flat(st.finalbody)
            else:
                yield st

    # statements are classified by the registry they touch (so `del d[k]` instead of `d.pop(k, None)` is the same
    # action); statements touching none of the five registries are ignored; the behaviour itself is what T2 checks
    def mentions(st, name):
        return any(isinstance(n, ast.Attribute) and n.attr == name and _src(n.value) == "cls" for n in ast.walk(st))

    for st in flat(tr.finalbody):
        loops = [n for n in ast.walk(st) if isinstance(n, ast.For) and mentions(n.iter, "task2cb")]
        if loops:
            loop = one(loops, "for loop over the callbacks")
            it = _src(loop.iter)
            if it == "list(cls.task2cb[task]['cb'].items())":
                snapshot = True
            elif it != "cls.task2cb[task]['cb'].items()":
                raise TranslateError("run_coro: callback loop does not iterate cls.task2cb[task]['cb'].items()")
            inner = one(walk_find(loop, lambda n: isinstance(n, ast.Try)), "try in the callback loop")
            awaits = bool(walk_find(inner, lambda n: isinstance(n, ast.Await)))
            hs = list(inner.handlers)
            if len(hs) == 2 and _src(hs[0].type) == "asyncio.CancelledError" and not walk_find(hs[0], lambda n: isinstance(n, (ast.Raise, ast.Break))):
                catches_cancel = True
                hs = hs[1:]
            if len(hs) != 1 or _src(hs[0].type) != "Exception":
                raise TranslateError("run_coro: callback loop handler is not `except Exception`")
            breaks = bool(walk_find(hs[0], lambda n: isinstance(n, ast.Break)))
            code = 1
        elif mentions(st, "unique_task2name") or mentions(st, "unique_name2task"):
            if not (mentions(st, "unique_task2name") and mentions(st, "unique_name2task")):
                raise TranslateError("run_coro: unique-name release touches only one of the two maps")
            code = 2
        elif mentions(st, "task2context"):
            code = 3
        elif mentions(st, "task2cb"):
            code = 4
        elif mentions(st, "our_tasks"):
            code = 5
        else:
            continue
        if not order or order[-1] != code:
            order.append(code)
    out["lc_cb_loop_snapshot"] = snapshot
    out["lc_cb_loop_catches_cancel"] = catches_cancel
    out["lc_cleanup_protected"] = protected
    out["lc_finally_order"] = order
    out["lc_cb_loop_breaks"] = breaks
    out["lc_cb_loop_awaits"] = awaits
    # the reaper awaits the task it cancelled
    init = find_func(cls, "init")
    reaper = one([n for n in ast.walk(init) if isinstance(n, ast.AsyncFunctionDef) and n.name == "task_reaper"], "task_reaper")
    stmts = [_src(n) for n in ast.walk(reaper) if isinstance(n, ast.Expr)]
    try:
        out["lc_reaper_awaits"] = stmts.index("cmd[1].cancel()") < stmts.index("await cmd[1]")
    except ValueError:
        out["lc_reaper_awaits"] = False
    # task.cancel: membership test, reaper, sleep
    uc = find_func(cls, "user_task_cancel")
    out["lc_cancel_checks_ours"] = any(
        isinstance(n, ast.If) and _src(n.test) == "task not in cls.our_tasks" and isinstance(n.body[0], ast.Raise) for n in ast.walk(uc))
    out["lc_cancel_via_reaper"] = any(_is_call_stmt(n, "cls.reaper_cancel(task)") for n in ast.walk(uc))
    sl = [n for n in ast.walk(uc) if isinstance(n, ast.Call) and _src(n.func) == "asyncio.sleep"]
    out["lc_self_cancel_sleep"] = const(one(sl, "asyncio.sleep in user_task_cancel").args[0])
    # remove_done_callback / add_done_callback
    rm = find_func(cls, "user_task_remove_done_callback")
    out["lc_remove_pops_one"] = [_src(s) for s in rm.body if not isinstance(s, ast.Expr) or not isinstance(s.value, ast.Constant)] == [
        "cls.task2cb[task]['cb'].pop(callback, None)"]
    ad = find_func(cls, "task_add_done_callback")
    out["lc_add_sets_entry"] = _src(ad.body[-1]) == "cls.task2cb[task]['cb'][callback] = [ast_ctx, args, kwargs]"

    # create_task call sites
    def create_calls(tree):
        return [n for n in ast.walk(tree) if isinstance(n, ast.Call) and _src(n.func) == "Function.create_task"]

    def has_ctx(call):
        return any(k.arg == "ast_ctx" for k in call.keywords)

    ev = parse_file("eval.py")
    svc_l = [c for c in create_calls(ev) if "do_service_call" in _src(c)]
    out["lc_service_ctx_legacy"] = has_ctx(one(svc_l, "service create_task in eval.py"))
    sv = parse_file("decorators/service.py")
    svc_d = [c for c in create_calls(sv) if "do_service_call" in _src(c)]
    out["lc_service_ctx_dm"] = has_ctx(one(svc_d, "service create_task in decorators/service.py"))
    trg = parse_file("trigger.py")
    dec = parse_file("decorator.py")

    def followed_by_rec(tree, what):
        n_ok = 0
        for fn in [n for n in ast.walk(tree) if isinstance(n, (ast.FunctionDef, ast.AsyncFunctionDef))]:
            for blk in [fn.body] + [n.body for n in ast.walk(fn) if isinstance(n, ast.If)]:
                for a, b in zip(blk, blk[1:]):
                    if (isinstance(a, ast.Assign) and isinstance(a.value, ast.Call) and _src(a.value.func) == "Function.create_task"
                            and has_ctx(a.value) and isinstance(b, ast.Expr) and _src(b).startswith("Function.task_done_callback_ctx(task, ")):
                        n_ok += 1
        if n_ok == 0:
            raise TranslateError(f"{what}: no create_task(..., ast_ctx=...) followed by task_done_callback_ctx")
        return n_ok
    out["lc_trigger_cbrec_sites"] = followed_by_rec(trg, "trigger.py") + followed_by_rec(dec, "decorator.py")
    return out


def gen_lifecycle_consts():
    c = translate_lifecycle()
    lines = ["(* GENERATED by harness/vh/props/c14.py from function.py / trigger.py / decorator.py / eval.py / decorators/service.py",
             "   - do not edit *)", "From PV Require Import Common.Util.", ""]
    for k, v in c.items():
        if isinstance(v, bool):
            lines.append(f"Definition {k} : bool := {q.boolean(v)}.")
        elif isinstance(v, list):
            lines.append(f"Definition {k} : list N := {q.lst(q.N(x) for x in v)}.")
        else:
            lines.append(f"Definition {k} : N := {q.N(v)}.")
    return "\n".join(lines) + "\n"


# ------------------------------------------------------------------------------------------------
# stream 1: generated task graphs x fault placements on the virtual clock, both subsystems
# ------------------------------------------------------------------------------------------------
SWITCHES = [("d_cb_raise_breaks", "D22"), ("d_service_no_cbrec", "D20"), ("d_fin_cancel_escapes", "D140"), ("d_live_iter", "D141"),
            ("d_call_cancel_kills", "D142"), ("d_shutdown_no_cbrec", "D143")]
HORIZON = 2 ** 28          # ticks of 2**-12 s; every instant of a case is a sum of distinct powers of two below this
LOW_BITS = [0, 1, 2, 3]    # reserved for fault offsets
HIGH_BITS = list(range(4, 28))
EXC = {"KeyError": 1, "TypeError": 2, "ValueError": 3}      # anything else (e.g. NameError) is 0: not raisable by a generated program
KINDS = {"ev": "KTrig", "st": "KTrig", "svc": "KSvc", "create": "KCreate", "csvc": "KSvc"}


def _gen_base(rng):
    """one task graph without faults; -> (case, points, spare_bits) or None if it needs too many timers"""
    n = rng.choice([1, 2, 2, 3, 3, 3, 4, 4, 4])
    # 60 %: every task starts with a sleep and a wait is followed by a sleep (few same-instant races); 40 %: no such
    # restriction - several tasks act within one virtual instant, in asyncio's ready-queue order
    relaxed = rng.random() < 0.4
    kinds = [rng.choice(["ev", "st", "svc"])]
    for _ in range(1, n):
        kinds.append(rng.choice(["ev", "st", "svc", "create", "create"]))
    # 40 % of the graphs with >= 2 tasks contain a @service that is started by a blocking service.call of another task
    callee = rng.randrange(1, n) if n >= 2 and rng.random() < 0.4 else None
    if callee is not None:
        kinds[callee] = "csvc"
    # 30 % "names" graphs: many task.unique steps over 3 names (tasks holding several names, take-overs, exits)
    names_mode = rng.random() < 0.3
    # 30 % "callback" graphs: add/remove_done_callback steps dominate, over 1-2 callbacks and 1-2 target tasks, so that
    # every short history of add / remove / re-add of one callback on one task occurs before the task ends
    cb_mode = (not names_mode) and rng.random() < 0.43
    ncb = rng.choice([1, 2, 2]) if cb_mode else rng.choice([1, 2, 2, 3, 3, 4])
    cb_targets_only = rng.sample(range(n), min(n, rng.choice([1, 1, 2]))) if cb_mode else None
    nexec = 0
    cbs = []
    for _j in range(ncb):
        cbs.append({"sleep": 1 if rng.random() < 0.35 else 0, "raise": rng.random() < 0.2})
    nonsvc = [k for k in range(n) if kinds[k] not in ("svc", "csvc")]
    # a suspending callback is only ever registered on this task
    cb_target = [(rng.choice(nonsvc) if nonsvc and rng.random() < 0.85 else rng.randrange(n)) for _ in range(ncb)]
    bits = HIGH_BITS[:]
    rng.shuffle(bits)
    adds_on = [0] * n
    tasks = []
    for i in range(n):
        steps = [] if relaxed else [["sleep", 0]]
        length = rng.choice([1, 2, 3, 3, 4, 4, 5, 6])
        after_wait = False
        while len(steps) < length + 1:
            r = rng.random()
            if names_mode and r < 0.45 and not (after_wait and not relaxed):
                steps.append(["claim", rng.randrange(3)])
                continue
            if cb_mode and r < 0.5 and not (after_wait and not relaxed):
                j = rng.randrange(ncb)
                x = cb_target[j] if cbs[j]["sleep"] else rng.choice(cb_targets_only)
                if rng.random() < 0.6:
                    if adds_on[x] < 5:
                        adds_on[x] += 1
                        steps.append(["add", x, j, rng.randrange(1, 50)])
                else:
                    steps.append(["rem", x, j])
                continue
            if r > 0.97 and nexec < 2 and not (after_wait and not relaxed):
                nexec += 1
                steps.append(["exec", 0])
                continue
            if after_wait and not relaxed:
                steps.append(["sleep", 0])
                after_wait = False
                continue
            if r < 0.26:
                steps.append(["sleep", 0])
            elif r < 0.52:
                j = rng.randrange(ncb)
                x = cb_target[j] if cbs[j]["sleep"] else (rng.choice(nonsvc) if nonsvc and rng.random() < 0.8 else rng.randrange(n))
                if adds_on[x] >= 5:
                    continue
                adds_on[x] += 1
                steps.append(["add", x, j, rng.randrange(1, 50)])
            elif r < 0.60:
                steps.append(["rem", rng.choice(nonsvc) if nonsvc and rng.random() < 0.8 else rng.randrange(n), rng.randrange(ncb)])
            elif r < 0.74 and n > 1:
                x = rng.choice([k for k in range(n) if k != i])
                steps.append(["wait", x])
                after_wait = True
            elif r < 0.80:
                steps.append(["cancel", rng.randrange(n)])
            elif r < 0.84:
                steps.append(["cancelself"])
                break
            elif r < 0.90:
                steps.append(["claim", rng.randrange(3)])
            elif r < 0.94:
                steps.append(["raise"])
                break
            else:
                steps.append(["ret", rng.randrange(1, 20)])
                break
        tasks.append({"kind": kinds[i], "at": None, "steps": steps})
    # every task.create'd task gets exactly one creating step in another task, after that task's first sleep
    for c in range(n):
        if kinds[c] != "create":
            continue
        parents = [p for p in range(n) if p != c and (kinds[p] != "create" or p < c)]
        if not parents:
            tasks[c]["kind"] = kinds[c] = "ev"
            continue
        p = rng.choice(parents)
        st = tasks[p]["steps"]
        stop = len(st)
        for k, s in enumerate(st):
            if s[0] in ("raise", "ret", "cancelself"):
                stop = k
                break
        lo = min(0 if relaxed else 1, stop)
        pos = min(1, stop) if rng.random() < 0.6 else rng.randint(lo, stop)
        while pos < len(st) and pos > 0 and st[pos - 1][0] == "wait":
            pos -= 1
        st.insert(max(pos, lo), ["create", c])
    if callee is not None:
        callers = [p for p in range(n) if p != callee]
        p = rng.choice(callers)
        st = tasks[p]["steps"]
        stop = len(st)
        for k, s_ in enumerate(st):
            if s_[0] in ("raise", "ret", "cancelself"):
                stop = k
                break
        lo = min(0 if relaxed else 1, stop)
        st.insert(rng.randint(lo, stop), ["call", callee])
    # 40 %: two or three tasks of one kind are runs of the SAME function (told apart by an argument): overlapping runs
    if n >= 2 and rng.random() < 0.45:
        done = False
        for kd in rng.sample(["ev", "svc", "create"], 3):
            same = [i for i in range(n) if kinds[i] == kd]
            if len(same) >= 2:
                for i in rng.sample(same, rng.choice([2, len(same)])):
                    tasks[i]["fn"] = 0
                done = True
                break
        inj = [i for i in range(n) if kinds[i] in ("ev", "st", "svc")]
        if not done and len(inj) >= 2:
            kd = rng.choice(["ev", "svc"])
            for i in rng.sample(inj, 2):
                tasks[i]["kind"] = kinds[i] = kd
                tasks[i]["fn"] = 0
    # 20 % (at most 4 tasks): an extra run of a @time_trigger("shutdown") function in a file of its own that is reloaded;
    # it only acts on itself (its names live in that file's context)
    if n < 4 and rng.random() < 0.2:
        st = [["sleep", 0]] if not relaxed else []
        for _ in range(rng.choice([1, 2, 3, 4])):
            r = rng.random()
            if r < 0.3:
                st.append(["sleep", 0])
            elif r < 0.55:
                st.append(["claim", rng.randrange(2)])
            elif r < 0.75:
                st.append(["add", n, rng.choice([j for j in range(ncb) if not cbs[j]["sleep"]] or [0]), rng.randrange(1, 50)])
            elif r < 0.8:
                st.append(["rem", n, rng.randrange(ncb)])
            elif r < 0.9:
                st.append(["cancelself"])
                break
            else:
                st.append(rng.choice([["raise"], ["ret", 7]]))
                break
        if not any(cb["sleep"] for cb in cbs) or True:
            tasks.append({"kind": "shut", "at": None, "steps": st})
            kinds.append("shut")
    # allocate distinct power-of-two durations
    # 25 % of the graphs without suspending callbacks and without a shutdown file: the pyscript config entry and / or the
    # script file is reloaded while runs are in flight (runs survive a reload; nothing about them may change)
    ops = []
    if not any(cb["sleep"] for cb in cbs) and "shut" not in kinds and rng.random() < 0.5:
        ops = [[rng.choice(["reload_entry", "reload_entry", "reload_file"]), 0] for _ in range(rng.choice([1, 1, 2]))]
    need = len(ops) + sum(1 for t in tasks for s in t["steps"] if s[0] in ("sleep", "exec")) + sum(1 for cb in cbs if cb["sleep"]) + sum(
        1 for t in tasks if t["kind"] not in ("create", "csvc"))
    if need > len(bits) - 3:
        return None
    # injections mostly early; in 70 % of the graphs each task's sleeps grow along its program (operations happen while
    # most other tasks are still alive), otherwise durations are in random order
    ninj = sum(1 for t in tasks if t["kind"] not in ("create", "csvc"))
    if rng.random() < 0.8:
        low = sorted(bits)[:ninj + 2]
        inj_bits = rng.sample(low, ninj)
    else:
        inj_bits = rng.sample(bits, ninj)
    bits = [b for b in bits if b not in inj_bits]
    ascending = rng.random() < 0.7
    for t in tasks:
        if t["kind"] not in ("create", "csvc"):
            t["at"] = 2 ** inj_bits.pop()
        mine = [bits.pop() for s in t["steps"] if s[0] in ("sleep", "exec")]
        if ascending:
            mine.sort(reverse=True)          # popped from the end below: ascending along the program
        for s in t["steps"]:
            if s[0] in ("sleep", "exec"):
                s[1] = 2 ** mine.pop()
    for cb in cbs:
        if cb["sleep"]:
            cb["sleep"] = 2 ** bits.pop()
    for o in ops:
        o[1] = 2 ** bits.pop()
    case = {"sub": rng.choice(["legacy", "dm"]), "horizon": HORIZON, "cbform": rng.choice(["func", "method"]), "tasks": tasks, "cbs": cbs,
            "ops": ops, "faults": []}
    # suspension points: (task, ["step", k], duration or None) and (task, ["cb", j], duration)
    points = []
    for i, t in enumerate(tasks):
        for k, s in enumerate(t["steps"]):
            if s[0] in ("sleep", "exec"):
                points.append((i, ["step", k], s[1]))
            elif s[0] in ("wait", "call"):
                points.append((i, ["step", k], None))
    for j, cb in enumerate(cbs):
        if cb["sleep"]:
            points.append((cb_target[j], ["cb", j], cb["sleep"]))
    return case, points, bits


def _offset(rng, dur, spare, low):
    off = 2 ** low
    usable = [b for b in spare if dur is None or 2 ** b < dur]
    for b in usable:
        if rng.random() < 0.5:
            off += 2 ** b
    return off


def _variants(rng, base, points, spare):
    """the graph itself, then every suspension point as a cancellation point and as a raise point"""
    out = [base]
    for (i, pt, dur) in points:
        c = copy.deepcopy(base)
        c["faults"] = [{"task": i, "pt": pt, "off": _offset(rng, dur, spare, LOW_BITS[0])}]
        if rng.random() < 0.2 and len(points) > 1:
            (i2, pt2, dur2) = rng.choice(points)
            if (i2, pt2) != (i, pt):
                c["faults"].append({"task": i2, "pt": pt2, "off": _offset(rng, dur2, [], LOW_BITS[1])})
        out.append(c)
        r = copy.deepcopy(base)
        if pt[0] == "step":
            r["tasks"][i]["steps"] = r["tasks"][i]["steps"][: pt[1] + 1] + [["raise"]]
            # a task.create'd task whose creating step was cut off is simply never started
        else:
            r["cbs"][pt[1]]["raise"] = True
        out.append(r)
    return out


FIXED = [
    # D22 / D20 / D140 / D141 style graphs and a conformant one, in both subsystems
    {"tasks": [{"kind": "ev", "at": 2 ** 10, "steps": [["sleep", 2 ** 12], ["add", 0, 0, 5], ["add", 0, 1, 6], ["sleep", 2 ** 13], ["ret", 3]]}],
     "cbs": [{"sleep": 0, "raise": True}, {"sleep": 0, "raise": False}], "faults": []},
    {"tasks": [{"kind": "svc", "at": 2 ** 10, "steps": [["sleep", 2 ** 12], ["add", 0, 0, 5], ["sleep", 2 ** 13], ["ret", 3]]}],
     "cbs": [{"sleep": 0, "raise": False}], "faults": []},
    {"tasks": [{"kind": "ev", "at": 2 ** 10, "steps": [["sleep", 2 ** 12], ["create", 1], ["sleep", 2 ** 20]]},
               {"kind": "create", "at": None, "steps": [["sleep", 2 ** 13], ["add", 1, 0, 5], ["add", 1, 1, 6], ["claim", 1], ["ret", 7]]}],
     "cbs": [{"sleep": 2 ** 15, "raise": False}, {"sleep": 0, "raise": False}], "faults": [{"task": 1, "pt": ["cb", 0], "off": 2 ** 14 + 1}]},
    {"tasks": [{"kind": "ev", "at": 2 ** 10, "steps": [["sleep", 2 ** 12], ["create", 1], ["sleep", 2 ** 14], ["add", 1, 1, 9], ["sleep", 2 ** 20]]},
               {"kind": "create", "at": None, "steps": [["sleep", 2 ** 13], ["add", 1, 0, 5], ["ret", 7]]}],
     "cbs": [{"sleep": 2 ** 15, "raise": False}, {"sleep": 0, "raise": False}], "faults": []},
    {"tasks": [{"kind": "st", "at": 2 ** 10, "steps": [["sleep", 2 ** 12], ["create", 1], ["add", 1, 0, 4], ["add", 1, 1, 5], ["add", 1, 0, 6],
                                                        ["rem", 1, 1], ["wait", 1], ["sleep", 2 ** 14], ["ret", 2]]},
               {"kind": "create", "at": None, "steps": [["sleep", 2 ** 13], ["claim", 0], ["sleep", 2 ** 16], ["ret", 7]]},
               {"kind": "svc", "at": 2 ** 11, "steps": [["sleep", 2 ** 15], ["cancel", 1], ["sleep", 2 ** 17], ["cancelself"]]}],
     "cbs": [{"sleep": 0, "raise": False}, {"sleep": 0, "raise": False}], "faults": []},
]


FIXED += [
    # D142: the service run started by a blocking call is cancelled: the caller must not be
    {"tasks": [{"kind": "ev", "at": 2 ** 10, "steps": [["sleep", 2 ** 12], ["add", 0, 0, 5], ["call", 1], ["sleep", 2 ** 16], ["ret", 4]]},
               {"kind": "csvc", "at": None, "steps": [["sleep", 2 ** 14], ["ret", 9]]}],
     "cbs": [{"sleep": 0, "raise": False}], "faults": [{"task": 1, "pt": ["step", 0], "off": 3}]},
    # the caller is cancelled while blocked in the call (C14-3 style): it ends there, and so does the service run
    {"tasks": [{"kind": "st", "at": 2 ** 10, "steps": [["sleep", 2 ** 12], ["add", 0, 0, 5], ["call", 1], ["sleep", 2 ** 16], ["ret", 4]]},
               {"kind": "csvc", "at": None, "steps": [["sleep", 2 ** 14], ["ret", 9]]},
               {"kind": "ev", "at": 2 ** 11, "steps": [["sleep", 2 ** 13], ["cancel", 0], ["sleep", 2 ** 15], ["wait", 0], ["ret", 1]]}],
     "cbs": [{"sleep": 0, "raise": False}], "faults": []},
    # callbacks that are distinct callables over one underlying function (C14-2 style): re-registration replaces, removal
    # removes that one only
    {"cbform": "method",
     "tasks": [{"kind": "ev", "at": 2 ** 10, "steps": [["sleep", 2 ** 12], ["add", 0, 0, 5], ["add", 0, 1, 6], ["add", 0, 2, 7], ["add", 0, 0, 8],
                                                        ["rem", 0, 1], ["sleep", 2 ** 13], ["ret", 3]]}],
     "cbs": [{"sleep": 0, "raise": False}, {"sleep": 0, "raise": False}, {"sleep": 0, "raise": False}], "faults": []},
]


FIXED += [
    # callback histories on one task: add, remove, re-add (C14-9 style), ending by return / raise / cancel
    {"tasks": [{"kind": "ev", "at": 2 ** 10, "steps": [["sleep", 2 ** 12], ["add", 0, 0, 1], ["add", 0, 1, 2], ["rem", 0, 0], ["add", 0, 0, 3],
                                                        ["add", 0, 2, 4], ["rem", 0, 2], ["sleep", 2 ** 13], ["ret", 3]]}],
     "cbs": [{"sleep": 0, "raise": False}, {"sleep": 0, "raise": False}, {"sleep": 0, "raise": False}], "faults": []},
    {"tasks": [{"kind": "svc", "at": 2 ** 10, "steps": [["sleep", 2 ** 12], ["rem", 0, 0], ["add", 0, 0, 1], ["rem", 0, 0], ["add", 0, 0, 2], ["raise"]]},
               {"kind": "st", "at": 2 ** 11, "steps": [["sleep", 2 ** 9], ["add", 1, 0, 5], ["rem", 1, 0], ["add", 1, 0, 6], ["sleep", 2 ** 14], ["ret", 1]]}],
     "cbs": [{"sleep": 0, "raise": False}], "faults": [{"task": 1, "pt": ["step", 4], "off": 5}]},
    # a run cancelled inside task.executor while its thread is busy, a second cancellation right behind it (C14-7 style)
    {"tasks": [{"kind": "ev", "at": 2 ** 10, "steps": [["sleep", 2 ** 12], ["claim", 0], ["add", 0, 0, 1], ["exec", 2 ** 16], ["ret", 3]]},
               {"kind": "st", "at": 2 ** 11, "steps": [["sleep", 2 ** 17], ["ret", 1]]},
               {"kind": "svc", "at": 2 ** 9, "steps": [["sleep", 2 ** 14], ["cancel", 0], ["cancel", 1], ["sleep", 2 ** 13], ["claim", 0], ["ret", 2]]}],
     "cbs": [{"sleep": 0, "raise": False}], "faults": []},
    # the config entry, then the script file, is reloaded while runs are in flight (C14-8 style)
    {"tasks": [{"kind": "ev", "at": 2 ** 10, "steps": [["sleep", 2 ** 12], ["claim", 0], ["add", 0, 0, 1], ["sleep", 2 ** 16], ["ret", 3]]},
               {"kind": "svc", "at": 2 ** 15, "steps": [["sleep", 2 ** 11], ["add", 0, 0, 2], ["claim", 0], ["sleep", 2 ** 17], ["ret", 1]]},
               {"kind": "st", "at": 2 ** 18, "steps": [["sleep", 2 ** 9], ["cancel", 1], ["wait", 1], ["ret", 2]]}],
     "cbs": [{"sleep": 0, "raise": False}], "ops": [["reload_entry", 2 ** 14], ["reload_file", 2 ** 8 + 2 ** 17]], "faults": []},
    # a task holding two unique names loses one to another task and exits: both names must be forgotten (C14-4 style);
    # the taker re-claims a name it holds
    {"tasks": [{"kind": "ev", "at": 2 ** 10, "steps": [["sleep", 2 ** 12], ["claim", 0], ["claim", 1], ["claim", 2], ["sleep", 2 ** 16], ["ret", 1]]},
               {"kind": "st", "at": 2 ** 11, "steps": [["sleep", 2 ** 14], ["claim", 1], ["claim", 1], ["claim", 2], ["sleep", 2 ** 13], ["claim", 2],
                                                        ["sleep", 2 ** 15], ["ret", 2]]}],
     "cbs": [{"sleep": 0, "raise": False}], "faults": []},
    # three overlapping runs of ONE trigger function / ONE service, resumed in non-nested order (C14-5 style)
    {"tasks": [{"kind": "ev", "fn": 0, "at": 2 ** 10, "steps": [["sleep", 2 ** 15], ["add", 0, 0, 5], ["sleep", 2 ** 13], ["ret", 1]]},
               {"kind": "ev", "fn": 0, "at": 2 ** 11, "steps": [["sleep", 2 ** 12], ["add", 1, 0, 6], ["sleep", 2 ** 16], ["ret", 2]]},
               {"kind": "ev", "fn": 0, "at": 2 ** 9, "steps": [["sleep", 2 ** 14], ["wait", 1], ["ret", 3]]}],
     "cbs": [{"sleep": 0, "raise": False}], "faults": []},
    {"tasks": [{"kind": "svc", "fn": 0, "at": 2 ** 10, "steps": [["sleep", 2 ** 15], ["claim", 0], ["sleep", 2 ** 13], ["ret", 1]]},
               {"kind": "svc", "fn": 0, "at": 2 ** 11, "steps": [["sleep", 2 ** 12], ["create", 2], ["create", 3], ["sleep", 2 ** 16], ["ret", 2]]},
               {"kind": "create", "fn": 1, "at": None, "steps": [["sleep", 2 ** 14], ["ret", 3]]},
               {"kind": "create", "fn": 1, "at": None, "steps": [["sleep", 2 ** 9], ["sleep", 2 ** 17], ["ret", 4]]}],
     "cbs": [{"sleep": 0, "raise": False}], "faults": []},
    # a shutdown-trigger run (file reloaded): unique name, own done-callback, task.cancel() inside (C14-6 style; D143 in legacy)
    {"tasks": [{"kind": "ev", "at": 2 ** 10, "steps": [["sleep", 2 ** 15], ["claim", 0], ["ret", 1]]},
               {"kind": "shut", "at": 2 ** 11, "steps": [["sleep", 2 ** 12], ["claim", 0], ["add", 1, 0, 5], ["sleep", 2 ** 13], ["cancelself"]]}],
     "cbs": [{"sleep": 0, "raise": False}], "faults": []},
    {"tasks": [{"kind": "shut", "at": 2 ** 11, "steps": [["sleep", 2 ** 12], ["claim", 1], ["sleep", 2 ** 13], ["ret", 3]]}],
     "cbs": [{"sleep": 0, "raise": False}], "faults": []},
]


def _names(case):
    return sorted({s[1] + (10 if t["kind"] == "shut" else 0) for t in case["tasks"] for s in t["steps"] if s[0] == "claim"})


def _q_step(s, name_off=0):
    op = s[0]
    if op in ("sleep", "exec"):        # task.executor of a function that is busy for d ticks: a suspension of d ticks for the Model
        return f"SSleep {q.N(s[1])}"
    if op == "add":
        return f"SAdd {q.N(s[1])} {q.N(s[2])} {q.N(s[3])}"
    if op == "rem":
        return f"SRem {q.N(s[1])} {q.N(s[2])}"
    if op == "wait":
        return f"SWait {q.N(s[1])}"
    if op == "cancel":
        return f"SCancel {q.N(s[1])}"
    if op == "cancelself":
        return "SCancelSelf"
    if op == "create":
        return f"SCreate {q.N(s[1])}"
    if op == "claim":
        return f"SClaim {q.N(s[1] + name_off)}"
    if op == "raise":
        return "SRaise"
    if op == "ret":
        return f"SRet {q.N(s[1])}"
    if op == "call":
        return f"SCall {q.N(s[1])}"
    raise ValueError(s)


def _res_code(r):
    if r is None:
        return 0
    if isinstance(r, int):
        return r + 1
    return 999 if str(r).startswith("exc:") else 998


def _who(w):
    return 99 if w < 0 else w


def _q_event(e):
    t, who, kind = e[0], _who(e[1]), e[2]
    snap = e[-1]
    if kind == "m":
        k = f"EM {q.N(e[3])}"
    elif kind == "x":
        k = f"EX {q.N(EXC.get(e[3], 0))}"
    elif kind == "w":
        k = f"EW {q.N(e[3])} {q.boolean(e[4])} {q.boolean(e[5])} {q.N(_res_code(e[6]))}"
    elif kind == "r":
        k = f"ER {q.N(e[3])} {q.boolean(e[4])} {q.boolean(e[5])} {q.N(_res_code(e[6]))}"
    elif kind == "l":
        k = f"EL {q.N(e[3])}"
    elif kind == "cb":
        k = f"ECb {q.N(e[3])} {q.N(e[4])}"
    elif kind == "ce":
        k = f"ECe {q.N(e[3])}"
    elif kind == "f":
        k = f"EF {q.N(e[3])} {q.boolean(e[4])}"
    else:
        raise ValueError(e)
    return f"mkE {q.N(t)} {q.N(who)} ({k}) {q.N(snap)}"


class GraphStream(Stream):
    name = "graphs"
    rule = ("task graphs of 1-4 tasks started by @event_trigger / @state_trigger / @service / task.create, each a straight-line "
            "program of sleep / add_done_callback / remove_done_callback / wait / cancel(other|self|no-arg) / task.unique / "
            "raise / return / blocking service.call of a generated @service (40 % of the graphs) steps over 1-4 callbacks (plain "
            "functions or, per graph, bound methods of distinct instances of one pyscript class; some suspend, some raise), every duration a distinct power of "
            "two so that all timers fall on distinct virtual instants (= one schedule per graph; in 40 % of the graphs tasks may also act right after being created / right after a wait, i.e. several tasks act inside one instant in ready-queue order); per graph: the graph itself "
            "+ EVERY suspension point (sleep, wait, blocking service call, suspended done-callback) once as a cancellation point (the real "
            "user_task_cancel is invoked at a random instant inside the suspension, 20 % with a second fault) and once as a "
            "raise point; 30 % of the graphs are dense in task.unique steps over 3 names (several names per task, take-overs, exits); in 40 % "
            "two or three tasks are overlapping runs of ONE function (event trigger / service / task.create target, told apart by an "
            "argument; every event carries the run's local variable, which must be its own); 20 % have an extra run of a "
            "@time_trigger('shutdown') function started by reloading its file; 17 fixed graphs x 2 subsystems; 30 % of the graphs are dense in add/remove_done_callback steps over 1-2 callbacks and 1-2 targets (all short add/remove/re-add histories); task.executor steps whose worker thread is busy for a virtual duration (a suspension point like sleep); 25 % of the graphs without suspending callbacks reload the config entry and/or the script file while runs are in flight; legacy and default subsystem chosen per graph; the script reports "
            "through event.fire, the listener records virtual time, the running task and a registry snapshot per event; "
            "non-trivial = at least 2 tasks or a fault or a callback; distinct by the whole case")
    requires = "From PV Require Import Task.Lifecycle Task.LifecycleCheck."
    case_type = "lcase"
    check_model = "lcase_model_ok pv_cfg"
    check_spec = "lcase_spec_ok"
    attrib = "lcase_attrib pv_cfg"
    explain = "lcase_explain pv_cfg"
    shard_size = 60
    coqc_timeout = 600

    def budget(self, tier):
        return 1100 if tier == "quick" else 12000

    def prelude(self, ctx, findings, witness_terms):
        return cfg_prelude(SWITCHES, findings, witness_terms, "lcase_spec_ok")

    def generate(self, ctx, budget, focus=None):
        rng = ctx.rng
        cases = []
        for f in FIXED:
            for sub in ("legacy", "dm"):
                c = copy.deepcopy(f)
                c["sub"] = sub
                c["horizon"] = HORIZON
                cases.append(c)
        while len(cases) < budget:
            g = _gen_base(rng)
            if g is None:
                continue
            base, points, spare = g
            cases.extend(_variants(rng, base, points, spare))
        return cases[:budget] if budget >= 1 else cases[:1]

    def run_impl(self, ctx, cases):
        chunks = split_chunks(cases, 12)
        res = run_workers_parallel(ctx, "vh.workers.c14_tasks", [{"cases": c} for c in chunks], timeout=1500)
        return [o for r in res for o in r]

    def to_coq(self, case, obs):
        tasks = q.lst(
            "mkTd %s %s %s" % (("KShutL" if case["sub"] == "legacy" else "KTrig") if t["kind"] == "shut" else KINDS[t["kind"]],
                               q.N(2 ** 40 if t["kind"] == "csvc" else (t["at"] or 0)),
                               q.lst(_q_step(s, 10 if t["kind"] == "shut" else 0) for s in t["steps"]))
            for t in case["tasks"])
        cbs = q.lst("mkCd %s %s" % (q.N(cb["sleep"]), q.boolean(cb["raise"])) for cb in case["cbs"])
        faults = q.lst("mkF %s (%s) %s" % (q.N(f["task"]), ("FStep %s" if f["pt"][0] == "step" else "FCb %s") % q.N(f["pt"][1]), q.N(f["off"]))
                       for f in case.get("faults", []))
        clean = not obs.get("harness_error") and not obs.get("err") and obs.get("final") is not None
        if obs.get("final") is None:
            fin, names, rq, stray, events = "[]", "[]", "0%N", "0%N", "[]"
        else:
            fl = obs["final"]
            fin = q.lst("mkFt %s %s %s %s %s" % (q.boolean(k), q.boolean(d), q.boolean(cn), q.N(_res_code(r)), q.N(b))
                        for (k, d, cn, r, b) in fl["tasks"])
            names = q.lst("(%s, %s)" % (q.N(max(n, 0) if n >= 0 else 98), q.N(_who(o))) for n, o in fl["names"])
            rq = q.N(max(fl["reaper_q"], 0))
            stray = q.N(fl["stray"])
            events = q.lst(_q_event(e) for e in obs["events"])
        return "mkLc %s %s %s %s %s %s %s %s %s %s %s" % (
            q.boolean(case["sub"] == "legacy"), tasks, cbs, faults, q.lst(q.N(n) for n in _names(case)), events, fin, names, rq, stray,
            q.boolean(clean))

    def nontrivial(self, case, obs):
        return len(case["tasks"]) >= 2 or bool(case.get("faults")) or any(s[0] == "add" for t in case["tasks"] for s in t["steps"])

    def kind(self, case, obs):
        ncancel = len(case.get("faults", []))
        kinds = "".join(sorted(t["kind"][0] for t in case["tasks"]))
        return f"{case['sub']}/{len(case['tasks'])}tasks[{kinds}]/faults={ncancel}"

    def describe(self, case, obs):
        return {"case": case, "events": (obs.get("events") or [])[:40], "final": obs.get("final"), "err": obs.get("err")}


# ------------------------------------------------------------------------------------------------
# stream 2: task.executor, a handful of differential cases (value / exception pass-through); not modelled
# ------------------------------------------------------------------------------------------------
XEXC = {"ValueError": 1, "ZeroDivisionError": 2, "TypeError": 3}


def _q_xres(r):
    if r[0] == "value" and isinstance(r[1], int) and r[1] >= 0:
        return f"(true, {q.N(r[1])})"
    if r[0] == "exc":
        return f"(false, {q.N(XEXC.get(str(r[1]).split(':')[0], 9))})"
    return "(false, 99%N)"


class ExecutorStream(Stream):
    name = "executor"
    rule = ("task.executor called from a service run with a native function (positional, keyword arguments; returning or raising), "
            "a raising builtin, a pyscript function, a coroutine function and a non-callable, both subsystems; the value / the "
            "exception type must be the one plain Python gives (TypeError for the rejected kinds); differential only, no model")
    requires = ""
    case_type = "((bool * N) * (bool * N))%type"
    check_model = None
    check_spec = "fun c : (bool * N) * (bool * N) => Bool.eqb (fst (fst c)) (fst (snd c)) && N.eqb (snd (fst c)) (snd (snd c))"
    shard_size = 100

    def budget(self, tier):
        return 18 if tier == "quick" else 60

    def generate(self, ctx, budget, focus=None):
        cases = []
        budget = min(budget, 60)       # a handful of differential cases only (VERIF_BUDGET applies to every stream)
        modes = ["value", "kwargs", "raise", "builtin", "pyfunc", "coro", "notcallable"]
        k = 0
        while len(cases) < budget:
            for sub in ("legacy", "dm"):
                for m in modes:
                    cases.append({"sub": sub, "exec": m, "arg": (k * 7 + 3) % 40 + 1})
            k += 1
        return cases[:budget]

    def run_impl(self, ctx, cases):
        chunks = split_chunks(cases, 4)
        res = run_workers_parallel(ctx, "vh.workers.c14_tasks", [{"cases": c} for c in chunks], timeout=900)
        return [o for r in res for o in r]

    def to_coq(self, case, obs):
        if obs.get("harness_error") or obs.get("n") != 1:
            return "((false, 98%N), (false, 97%N))"
        return f"({_q_xres(obs['exec'])}, {_q_xres(obs['ref'])})"

    def kind(self, case, obs):
        return f"{case['sub']}/{case['exec']}"

    def describe(self, case, obs):
        return {"case": case, "observed": obs.get("exec"), "python": obs.get("ref")}


class C14(Prop):
    id = "C14"
    title = "Every run is an independent task whose exit always cleans up"
    coq_targets = ["Properties/C14.vo"]
    property_file = "Properties/C14.v"
    streams = [GraphStream(), ExecutorStream()]
    trusted_base = [
        "modelled, not verified: Function.run_coro/create_task/task_done_callback_ctx/task_add_done_callback/"
        "user_task_remove_done_callback/user_task_cancel/task_reaper/task_unique(kill_me=False), user_task_create, the create_task "
        "call sites of both trigger subsystems and of @service (Task/Lifecycle.v); asyncio is modelled as: atomic stretches between "
        "suspensions, Task.cancel() raising CancelledError at the suspension the target is in, CPython dict iteration "
        "(insertion order, size check on every next())",
        "the scheduler of Task/LifecycleCheck.v (virtual clock, FIFO inside an instant) is validated by the correspondence only; "
        "theorems are about the transition system it drives, for all label sequences",
        "task.executor, shutdown and task.unique(kill_me=True) are not modelled",
    ]
    assumptions = ["all timers of a generated case fall on distinct virtual instants (constructed; a tie is reported as a model error)",
                   "C14_independent: the callback loop does not iterate the live dict (switch D141 off)"]
    partial_note = ("task.executor runs in a real thread pool: covered by differential cases (value / exception pass-through), not modelled; "
                    "shutdown does not cancel running action tasks in this code base and is not modelled")

    def translate(self, ctx):
        return {"Gen/LifecycleConsts.v": gen_lifecycle_consts()}


PROP = C14()

MANIFEST_ENTRY = {
    "technique": "Rocq proof (invariants over all label sequences of a transition system of run_coro and the five registries) + in-Coq "
                 "correspondence: a scheduler drives the same transition system through generated task graphs x fault placements that the "
                 "real pyscript executed on a virtual clock",
    "level_text": ("Theorems C14_cleanup / C14_callbacks_once / C14_independent / C14_reaper_serialises hold for every interleaving of any "
                   "number of tasks and every placement of cancellations and exceptions (including inside run_coro's finally), about a "
                   "Gallina transition system whose behaviour is compared inside Coq, event by event with virtual times and registry "
                   "snapshots, with the real code on generated task graphs; the conformant statements are proved with the deviation "
                   "switches off, C14_refuted_D20/D22/D140/D141 exhibit the four open findings."),
    "level_note": ("Trusted: Coq kernel+vm_compute; the asyncio/dict abstraction named in the trusted base; scheduler of LifecycleCheck.v "
                   "(validated by correspondence); translator and drivers in /verif/harness. Not modelled: task.executor (differential "
                   "cases only), shutdown, kill_me."),
    "design_ref": "DESIGN.md §4 C14",
}
