"""C07 — @state_active / @time_active / hold_off gate every trigger correctly (both decorator subsystems)."""
import ast
import datetime as dt

from .. import coqio as q
from ..core import Prop, Stream, cfg_prelude, run_workers_parallel, split_chunks
from ..translate import CMP, TranslateError, find_class, find_func, one, parse_file, walk_find

TICK = 2 ** 20                       # monotonic ticks per second (exactly representable virtual instants)
EPOCH = dt.datetime(1970, 1, 1)
US = dt.timedelta(microseconds=1)
DAY = 86400 * 10 ** 6
HOUR = 3600 * 10 ** 6
MINUTE = 60 * 10 ** 6
SEC = 10 ** 6


# ------------------------------------------------------------------------------------------------
# T1: comparison operators and any/all combination of the guards -> Gen/GuardConsts.v
# ------------------------------------------------------------------------------------------------
def _is_name(n, name):
    return isinstance(n, ast.Name) and n.id == name


def _is_self_attr(n, attr):
    return isinstance(n, ast.Attribute) and n.attr == attr and _is_name(n.value, "self")


def _is_monotonic(n):
    return (isinstance(n, ast.Call) and isinstance(n.func, ast.Attribute) and n.func.attr == "monotonic"
            and _is_name(n.func.value, "time") and not n.args)


def _cmp(node, what):
    if not (isinstance(node, ast.Compare) and all(type(o) in CMP for o in node.ops)):
        raise TranslateError(f"{what}: not a plain comparison: {ast.dump(node)[:120]}")
    return [CMP[type(o)] for o in node.ops]


def _results_sub(n, key):
    return (isinstance(n, ast.Subscript) and _is_name(n.value, "results") and isinstance(n.slice, ast.Constant)
            and n.slice.value == key)


def translate_guards():
    out = {}
    tree = parse_file("trigger.py")
    fn = find_func(find_class(tree, "TrigTime"), "timer_active_check")
    # ---- if start <= end: this_match = start <= now <= end   else: this_match = now >= start or now <= end
    iff = one(walk_find(fn, lambda n: isinstance(n, ast.If) and isinstance(n.test, ast.Compare) and _is_name(n.test.left, "start")),
              "`if start <cmp> end` in timer_active_check")
    if not (len(iff.test.comparators) == 1 and _is_name(iff.test.comparators[0], "end")):
        raise TranslateError("timer_active_check: range order test is not `start <cmp> end`")
    out["wa_order_cmp"] = one(_cmp(iff.test, "range order test"), "operator in range order test")
    body = one(iff.body, "statement in the start<=end branch")
    if not (isinstance(body, ast.Assign) and _is_name(body.targets[0], "this_match") and isinstance(body.value, ast.Compare)
            and _is_name(body.value.left, "start") and len(body.value.comparators) == 2
            and _is_name(body.value.comparators[0], "now") and _is_name(body.value.comparators[1], "end")):
        raise TranslateError("timer_active_check: in-range test is not `this_match = start <cmp> now <cmp> end`")
    out["wa_in_lo_cmp"], out["wa_in_hi_cmp"] = _cmp(body.value, "in-range test")
    other = one(iff.orelse, "statement in the wrapping branch")
    ok = (isinstance(other, ast.Assign) and _is_name(other.targets[0], "this_match") and isinstance(other.value, ast.BoolOp)
          and len(other.value.values) == 2 and all(isinstance(v, ast.Compare) and len(v.ops) == 1 for v in other.value.values))
    if ok:
        lo, hi = other.value.values
        ok = (_is_name(lo.left, "now") and _is_name(lo.comparators[0], "start") and _is_name(hi.left, "now")
              and _is_name(hi.comparators[0], "end"))
    if not ok:
        raise TranslateError("timer_active_check: wrapping test is not `this_match = now <cmp> start or/and now <cmp> end`")
    out["wa_wrap_lo_cmp"] = _cmp(lo, "wrap test")[0]
    out["wa_wrap_hi_cmp"] = _cmp(hi, "wrap test")[0]
    out["wa_wrap_or"] = isinstance(other.value.op, ast.Or)
    # ---- if negate: results["-"].append(not this_match) else: results["+"].append(this_match)
    ifn = one(walk_find(fn, lambda n: isinstance(n, ast.If) and _is_name(n.test, "negate")), "`if negate:` in timer_active_check")

    def _append(stmts, key):
        st = one(stmts, f"statement appending to results[{key!r}]")
        if not (isinstance(st, ast.Expr) and isinstance(st.value, ast.Call) and isinstance(st.value.func, ast.Attribute)
                and st.value.func.attr == "append" and _results_sub(st.value.func.value, key) and len(st.value.args) == 1):
            raise TranslateError(f"timer_active_check: expected results[{key!r}].append(...)")
        return st.value.args[0]

    neg_arg = _append(ifn.body, "-")
    pos_arg = _append(ifn.orelse, "+")
    if not (isinstance(neg_arg, ast.UnaryOp) and isinstance(neg_arg.op, ast.Not) and _is_name(neg_arg.operand, "this_match")
            and _is_name(pos_arg, "this_match")):
        raise TranslateError("timer_active_check: results are not (not this_match) / this_match")
    # ---- result = (any(results["+"]) if results["+"] else True) and all(results["-"])
    res = one([n for n in ast.walk(fn) if isinstance(n, ast.Assign) and _is_name(n.targets[0], "result")], "assignment to result")
    v = res.value
    ok = (isinstance(v, ast.BoolOp) and len(v.values) == 2 and isinstance(v.values[0], ast.IfExp) and isinstance(v.values[1], ast.Call))
    if ok:
        ife, negc = v.values
        ok = (_results_sub(ife.test, "+") and isinstance(ife.body, ast.Call) and isinstance(ife.body.func, ast.Name)
              and ife.body.func.id in ("any", "all") and len(ife.body.args) == 1 and _results_sub(ife.body.args[0], "+")
              and isinstance(ife.orelse, ast.Constant) and isinstance(ife.orelse.value, bool)
              and isinstance(negc.func, ast.Name) and negc.func.id in ("any", "all") and len(negc.args) == 1
              and _results_sub(negc.args[0], "-"))
    if not ok:
        raise TranslateError('timer_active_check: result is not `(any|all(results["+"]) if results["+"] else CONST) and|or any|all(results["-"])`')
    out["wa_pos_any"] = ife.body.func.id == "any"
    out["wa_pos_empty"] = ife.orelse.value
    out["wa_neg_all"] = negc.func.id == "all"
    out["wa_comb_and"] = isinstance(v.op, ast.And)
    rets = [n for n in ast.walk(fn) if isinstance(n, ast.Return) and _is_name(n.value, "result")]
    if len(rets) != 1:
        raise TranslateError("timer_active_check: `return result` not found exactly once")
    # ---- legacy hold_off: time.monotonic() < last_trig_time + self.time_active_hold_off
    tw = find_func(find_class(tree, "TrigInfo"), "trigger_watch")
    cands = walk_find(tw, lambda n: isinstance(n, ast.Compare) and _is_monotonic(n.left) and len(n.ops) == 1
                      and isinstance(n.comparators[0], ast.BinOp) and isinstance(n.comparators[0].op, ast.Add)
                      and _is_name(n.comparators[0].left, "last_trig_time") and _is_self_attr(n.comparators[0].right, "time_active_hold_off"))
    out["lg_hold_cmp"] = _cmp(one(cands, "`time.monotonic() <cmp> last_trig_time + self.time_active_hold_off` in trigger_watch"), "legacy hold_off")[0]
    sets = walk_find(tw, lambda n: isinstance(n, ast.Assign) and _is_name(n.targets[0], "last_trig_time") and _is_monotonic(n.value))
    one(sets, "`last_trig_time = time.monotonic()` in trigger_watch")
    # ---- new hold_off: time.monotonic() - self.last_trig_time < self.hold_off
    ttree = parse_file("decorators/timing.py")
    hd = find_func(find_class(ttree, "TimeActiveDecorator"), "handle_dispatch")
    cands = walk_find(hd, lambda n: isinstance(n, ast.Compare) and len(n.ops) == 1 and isinstance(n.left, ast.BinOp)
                      and isinstance(n.left.op, ast.Sub) and _is_monotonic(n.left.left) and _is_self_attr(n.left.right, "last_trig_time")
                      and _is_self_attr(n.comparators[0], "hold_off"))
    out["nw_hold_cmp"] = _cmp(one(cands, "`time.monotonic() - self.last_trig_time <cmp> self.hold_off` in handle_dispatch"), "new hold_off")[0]
    for attr in ("last_trig_time", "hold_off"):
        g = walk_find(hd, lambda n, a=attr: isinstance(n, ast.Compare) and len(n.ops) == 1 and isinstance(n.ops[0], ast.Gt)
                      and _is_self_attr(n.left, a) and isinstance(n.comparators[0], ast.Constant) and n.comparators[0].value == 0.0)
        one(g, f"`self.{attr} > 0.0` in handle_dispatch")
    return out


def gen_guard_consts():
    c = translate_guards()
    lines = ["(* GENERATED by harness/vh/props/c07.py from trigger.py / decorators/timing.py — do not edit *)",
             "From PV Require Import Common.Util.", ""]
    for k, v in c.items():
        if isinstance(v, bool):
            lines.append(f"Definition {k} : bool := {q.boolean(v)}.")
        else:
            lines.append(f"Definition {k} : cmpop := {v}.")
    return "\n".join(lines) + "\n"


# ------------------------------------------------------------------------------------------------
# time helpers (python side: only used to *place* occurrences and to render strings; verdicts come from Coq)
# ------------------------------------------------------------------------------------------------
def us_of_dt(d):
    return (d - EPOCH) // US


def dt_of_us(us):
    return EPOCH + dt.timedelta(microseconds=us)


def tick_us(t):
    """microseconds hassenv's wall clock shows `t` ticks after START (same rounding as hassenv.dt_now)"""
    return dt.timedelta(seconds=t / TICK) // US


def tick_for_us(d):
    """a tick whose wall-clock offset is exactly d microseconds"""
    t0 = d * TICK // SEC
    for t in range(t0 - 2, t0 + 4):
        if t >= 0 and tick_us(t) == d:
            return t
    raise ValueError(d)


DOW_NAMES = [["sun", "sunday"], ["mon", "monday"], ["tue", "tuesday"], ["wed", "wednesday"], ["thu", "thursday"],
             ["fri", "friday"], ["sat", "saturday"]]


def fmt_tod(us, rng):
    h, r = divmod(us, HOUR)
    m, r = divmod(r, MINUTE)
    s, f = divmod(r, SEC)
    if f:
        return f"{h:02d}:{m:02d}:{s:02d}.{f:06d}"
    if s:
        return f"{h:02d}:{m:02d}:{s:02d}"
    if h == 12 and m == 0 and rng.random() < 0.5:
        return "noon"
    if h == 0 and m == 0 and rng.random() < 0.5:
        return "midnight"
    return f"{h}:{m:02d}" if rng.random() < 0.3 else f"{h:02d}:{m:02d}"


def fmt_off(us, rng):
    if us == 0:
        return ""
    sign = "+" if us > 0 else "-"
    a = abs(us)
    if a % HOUR == 0:
        txt = f"{a // HOUR}{rng.choice(['h', 'hr', ' hours'])}"
    elif a % (HOUR // 2) == 0 and rng.random() < 0.5:
        txt = f"{a / HOUR}h"
    elif a % MINUTE == 0:
        txt = f"{a // MINUTE}{rng.choice(['m', 'min', ' minutes'])}"
    elif a % SEC == 0:
        txt = f"{a // SEC}{rng.choice(['s', 'sec', ''])}"
    else:
        txt = f"{a // SEC}.{a % SEC:06d}s"
    return f" {sign} {txt}" if rng.random() < 0.7 else f" {sign}{txt}"


def fmt_date(d, rng):
    k = d[0]
    if k == "none":
        return ""
    if k in ("today", "tomorrow"):
        return k + " "
    if k == "dow":
        return rng.choice(DOW_NAMES[d[1]]) + " "
    sep = rng.choice("/-")
    if k == "md":
        return (f"{d[1]}{sep}{d[2]} " if rng.random() < 0.5 else f"{d[1]:02d}{sep}{d[2]:02d} ")
    return f"{d[1]}{sep}{d[2]:02d}{sep}{d[3]:02d} "


def mk_ep(rng, d, tod, off=0):
    return {"d": d, "tod": tod, "off": off, "txt": fmt_date(d, rng) + fmt_tod(tod, rng) + fmt_off(off, rng)}


def mk_now(rng, off):
    return {"now": True, "off": off, "txt": "now" + fmt_off(off, rng)}


def mk_sun(rng, sunset, off):
    return {"sun": "sunset" if sunset else "sunrise", "d": ["none"], "off": off, "txt": ("sunset" if sunset else "sunrise") + fmt_off(off, rng)}


def approx_sun(day, sunset):
    """generator-side estimate (placement of probes only): the HA test fixture's location, via astral"""
    try:
        import zoneinfo

        from astral import LocationInfo
        from astral.location import Location

        loc = Location(LocationInfo("x", "y", "US/Pacific", 32.87336, -117.22743))
        date = (EPOCH + dt.timedelta(days=day)).date()
        t = (loc.sunset if sunset else loc.sunrise)(date)
        return us_of_dt(dt.datetime(t.year, t.month, t.day, t.hour, t.minute, t.second))
    except Exception:  # pylint: disable=broad-except
        return day * DAY + (18 if sunset else 6) * HOUR


def resolve_py(ep, startup_us, ref_us):
    """python re-statement of parse_date_time on the parsed form (placement of probes only)"""
    if ep.get("now"):
        return startup_us + ep["off"]
    ref = dt_of_us(ref_us)
    mid = dt.datetime(ref.year, ref.month, ref.day)
    d = ep["d"]
    if d[0] in ("none", "today"):
        day = mid
    elif d[0] == "tomorrow":
        day = mid + dt.timedelta(days=1)
    elif d[0] == "dow":
        day = mid + dt.timedelta(days=(d[1] - ref.isoweekday() % 7) % 7)
    elif d[0] == "md":
        day = dt.datetime(ref.year, d[1], d[2])
    else:
        day = dt.datetime(d[1], d[2], d[3])
    if "sun" in ep:
        return approx_sun(us_of_dt(day) // DAY, ep["sun"] == "sunset") + ep["off"]
    return us_of_dt(day) + ep["tod"] + ep["off"]


CRON_RANGES = [(0, 59), (0, 23), (1, 31), (1, 12), (0, 6)]


def cron_expand(field, lo, hi):
    vals = set()
    for part in field.split(","):
        step = 1
        if "/" in part:
            part, s = part.split("/")
            step = int(s)
        if part == "*":
            a, b = lo, hi
        elif "-" in part:
            a, b = (int(x) for x in part.split("-"))
        else:
            a = b = int(part)
            if step != 1:
                b = hi
        vals.update(range(a, b + 1, step))
    return sorted(vals)


def gen_cron_field(rng, lo, hi, want):
    """a cron field that matches `want` with probability ~0.75"""
    r = rng.random()
    if r < 0.3:
        return "*"
    hit = rng.random() < 0.7
    v = want if hit else rng.randint(lo, hi)
    r = rng.random()
    if r < 0.35:
        return str(v)
    if r < 0.6:
        a = max(lo, v - rng.randint(0, 3))
        b = min(hi, v + rng.randint(0, 3))
        return f"{a}-{b}" if a < b else str(v)
    if r < 0.8:
        others = {rng.randint(lo, hi) for _ in range(rng.randint(1, 3))} | {v}
        return ",".join(str(x) for x in sorted(others))
    if r < 0.9:
        n = rng.choice([2, 3, 5, 10, 15])
        return f"*/{n}"
    a = max(lo, v - rng.randint(0, 5))
    if a >= hi:                     # never a degenerate range N-N[/k]: croniter 6.2.4 reads it as "*"[/k] (see notes/C07.md)
        a = hi - 1
    return f"{a}-{hi}/{rng.choice([1, 2, 3])}"


def gen_cron(rng, at_us):
    d = dt_of_us(at_us)
    want = [d.minute, d.hour, d.day, d.month, d.isoweekday() % 7]
    fields = [gen_cron_field(rng, lo, hi, w) for (lo, hi), w in zip(CRON_RANGES, want)]
    if rng.random() < 0.5:
        fields[3] = "*"
    if rng.random() < 0.4:
        fields[rng.choice([2, 4])] = "*"
    if "*" not in (fields[2], fields[3], fields[4]):
        # never a day-of-month list that occurs in none of the listed months (31 in 2,4; 30-31 in 2) together with a
        # restricted day of week: crontab still fires on the weekdays, croniter 6.2.4's match() never does (notes/C07.md)
        maxd = {1: 31, 2: 29, 3: 31, 4: 30, 5: 31, 6: 30, 7: 31, 8: 31, 9: 30, 10: 31, 11: 30, 12: 31}
        doms = cron_expand(fields[2], 1, 31)
        if not any(v <= maxd[m] for v in doms for m in cron_expand(fields[3], 1, 12)):
            fields[2] = "*"
    return {"cron": fields, "txt": "cron(" + " ".join(fields) + ")"}


# ------------------------------------------------------------------------------------------------
# generation of guards and occurrence timelines
# ------------------------------------------------------------------------------------------------
BASE_DAYS = [dt.datetime(2024, 3, 4), dt.datetime(2024, 2, 28), dt.datetime(2023, 12, 30), dt.datetime(2024, 3, 9),
             dt.datetime(2025, 2, 27), dt.datetime(2024, 6, 30), dt.datetime(2024, 3, 7)]


def rand_tod(rng):
    r = rng.random()
    if r < 0.35:
        return rng.randrange(0, 24) * HOUR + rng.choice([0, 15, 30, 45]) * MINUTE
    if r < 0.6:
        return rng.randrange(0, 24 * 60) * MINUTE
    if r < 0.8:
        return rng.randrange(0, 86400) * SEC
    return rng.randrange(0, DAY)


def rand_off(rng):
    if rng.random() < 0.7:
        return 0
    return rng.choice([-1, 1]) * rng.choice([30 * MINUTE, 90 * MINUTE, HOUR, 2 * HOUR, 45 * SEC, 10 * MINUTE, 1500001, 25 * HOUR])


def gen_range(rng, base_us, kinds):
    """-> spec dict {"range": [a, b], "txt": ...}"""
    kind = rng.choice(kinds)
    bday = dt_of_us(base_us)
    btod = base_us % DAY
    near = lambda: (btod + rng.randrange(-3 * HOUR, 6 * HOUR)) % DAY // SEC * SEC if rng.random() < 0.7 else rand_tod(rng)  # noqa: E731
    if kind == "daily":
        a = mk_ep(rng, ["none"], near(), rand_off(rng) if rng.random() < 0.3 else 0)
        b = mk_ep(rng, ["none"], near(), rand_off(rng) if rng.random() < 0.3 else 0)
    elif kind == "wrap":
        t1, t2 = sorted([near(), near()])
        if t1 == t2:
            t2 = (t1 + HOUR) % DAY
            t1, t2 = sorted([t1, t2])
        a = mk_ep(rng, ["none"], t2)
        b = mk_ep(rng, ["none"], t1)
    elif kind == "day":
        a = mk_ep(rng, [rng.choice(["today", "none", "tomorrow"])], near())
        b = mk_ep(rng, [rng.choice(["today", "none", "tomorrow"])], near())
    elif kind == "dow":
        k = (bday.isoweekday() % 7 + rng.choice([0, 0, 1, 2, 6])) % 7
        a = mk_ep(rng, ["dow", k], near())
        b = mk_ep(rng, rng.choice([["none"], ["dow", (k + rng.choice([0, 1, 3])) % 7]]), near())
    elif kind == "dated":
        d1 = bday + dt.timedelta(days=rng.choice([0, 0, 1, -1, 2]))
        d2 = d1 + dt.timedelta(days=rng.choice([0, 1, 1, 2, -1]))
        f1 = ["md", d1.month, d1.day] if rng.random() < 0.5 else ["ymd", d1.year, d1.month, d1.day]
        f2 = rng.choice([["md", d2.month, d2.day], ["ymd", d2.year, d2.month, d2.day], ["none"]])
        a = mk_ep(rng, f1, near())
        b = mk_ep(rng, f2, near())
    elif kind == "point":            # end == start: the closed interval is a single instant (not a wrapping range)
        r = rng.random()
        if r < 0.5:
            t = near()
            a, b = mk_ep(rng, ["none"], t), mk_ep(rng, ["none"], t)
        elif r < 0.75:
            d1 = bday + dt.timedelta(days=rng.choice([0, 0, 1]))
            t = near()
            a, b = mk_ep(rng, ["ymd", d1.year, d1.month, d1.day], t), mk_ep(rng, rng.choice([["ymd", d1.year, d1.month, d1.day], ["none"]]), t)
        else:
            off = rng.choice([0, 10 * SEC, MINUTE])
            a, b = mk_now(rng, off), mk_now(rng, off)
    elif kind == "now":
        a = mk_now(rng, -rng.choice([0, 5 * SEC, MINUTE, 1500001]))
        b = mk_now(rng, rng.choice([10 * SEC, MINUTE, HOUR, 30 * SEC + 1]))
        if rng.random() < 0.2:
            a, b = b, a
    elif kind == "sun":
        a = mk_sun(rng, rng.random() < 0.5, rng.choice([0, -HOUR, 30 * MINUTE]))
        b = mk_sun(rng, rng.random() < 0.5, rng.choice([0, HOUR, -30 * MINUTE])) if rng.random() < 0.6 else mk_ep(rng, ["none"], near())
    else:
        raise ValueError(kind)
    sep = rng.choice([", ", ","])
    return {"range": [a, b], "txt": f"range({a['txt']}{sep}{b['txt']})"}


def spec_points(spec, base_us, startup_us):
    """wall-clock instants worth probing for one specification"""
    pts = []
    if "cron" in spec:
        return pts
    a, b = spec["range"]
    for dd in range(0, 3):
        ref = base_us + dd * DAY
        try:
            s = resolve_py(a, startup_us, ref)
            e = resolve_py(b, startup_us, s)
        except ValueError:
            continue
        for p in (s, e):
            pts += [p - 1, p, p + 1]
    return pts


def place_ops(rng, base_us, walls, kinds, exact=True):
    """wall-clock instants -> sorted ops (each >= 2 ms apart, after base + 2 s)"""
    ops = []
    used = []
    for w in sorted(set(walls)):
        if w < base_us + 2 * SEC or w > base_us + 12 * DAY:
            continue
        if any(abs(w - u) < 5000 for u in used):
            continue
        used.append(w)
        k = rng.choice(kinds)
        if k == "time":
            ops.append({"k": "time", "w": w, "t": (w - base_us) * TICK // SEC, "exact": True})
        else:
            ops.append({"k": k, "t": tick_for_us(w - base_us), "exact": exact})
    return ops


def finish_state(rng, ops, case):
    """give state ops values (always a change), add sety ops, pick the state_active expression"""
    cur = {}
    for op in ops:
        if op["k"] == "state":
            j = op.get("src", 0)
            v = rng.choice([c for c in range(4) if c != cur.get(j)])
            op["v"] = v
            cur[j] = v
    return ops


def maybe_repeat(rng, case, p=0.3):
    """with probability p the function repeats its trigger decorators of a kind (2-3 @event_trigger, 2 @state_trigger on
    different entities, 2 @time_trigger); every occurrence comes from one of them (`src`)"""
    ops = case["ops"]
    # "now"-relative end points refer to the start-up time of the trigger task; in the legacy subsystem every repeated
    # decorator has its own task (start-up instants one clock reading apart), the Model has one start-up time per case
    has_now = any(e.get("now") for sp in ((case.get("ta") or {}).get("specs") or []) if "range" in sp for e in sp["range"])
    if rng.random() >= p or has_now or any(o.get("burst") for o in ops):
        return case
    kinds = {o["k"] for o in ops}
    ntrig = {}
    if "event" in kinds:
        ntrig["event"] = rng.choice([2, 2, 3])
    if "state" in kinds and rng.random() < 0.6:
        ntrig["state"] = 2
    if "time" in kinds and rng.random() < 0.6:
        ntrig["time"] = 2
    for o in ops:
        if o["k"] in ntrig:
            o["src"] = rng.randrange(0, ntrig[o["k"]])
    case["ntrig"] = ntrig
    finish_state(rng, ops, None)
    return case


def gen_expr(rng, atoms, depth=2):
    r = rng.random()
    if depth == 0 or r < 0.45:
        if rng.random() < 0.08:
            return ["const", rng.random() < 0.5]
        return ["eq", rng.choice(atoms), rng.randrange(0, 3)]
    if r < 0.6:
        return ["not", gen_expr(rng, atoms, depth - 1)]
    return [rng.choice(["and", "or"]), gen_expr(rng, atoms, depth - 1), gen_expr(rng, atoms, depth - 1)]


def add_sety(rng, ops, n):
    """insert `sety` ops at instants at least 5 ms away from every other op"""
    if not ops:
        return ops
    lo = max(0, ops[0]["t"] - 2 * TICK)
    hi = ops[-1]["t"]
    out = list(ops)
    for _ in range(n):
        for _try in range(10):
            t = rng.randrange(lo + TICK // 2, max(lo + TICK, hi))
            if all(abs(t - o["t"]) > TICK // 200 for o in out):
                out.append({"k": "sety", "t": t, "v": rng.randrange(0, 3)})
                break
    out.sort(key=lambda o: o["t"])
    return out


def time_ops_ok(ops, hold):
    """time-trigger occurrences fire a fraction of a microsecond late: keep them off every hold_off boundary and 1 ms
    away from every other op"""
    for o in ops:
        if o["k"] != "time":
            continue
        for p in ops:
            if p is o:
                continue
            d = abs(o["t"] - p["t"])
            if d < TICK // 500:
                return False
            if hold and abs(d - hold) < TICK // 500:
                return False
    return True


def gen_windows_case(rng, focus=None):
    legacy = rng.random() < 0.5
    base_day = rng.choice(BASE_DAYS) + dt.timedelta(days=rng.randrange(0, 3) if rng.random() < 0.3 else 0)
    base_us = us_of_dt(base_day) + rand_tod(rng) // SEC * SEC
    nspec = rng.choice([1, 1, 2, 2, 3, 4])
    specs = []
    want_sun = False
    r = rng.random()
    kinds = (["daily", "wrap", "daily", "wrap", "point"] if r < 0.45 else ["daily", "wrap", "day", "dow", "dated", "point"] if r < 0.8
             else ["now", "daily", "point"] if r < 0.9 else ["sun", "daily", "wrap"])
    for _ in range(nspec):
        if rng.random() < 0.22:
            s = gen_cron(rng, base_us + rng.randrange(0, 6 * HOUR))
        else:
            s = gen_range(rng, base_us, kinds)
        s["neg"] = rng.random() < 0.45
        specs.append(s)
        want_sun = want_sun or ("range" in s and any("sun" in e for e in s["range"]))
    pts = []
    for s in specs:
        pts += spec_points(s, base_us, base_us)
        if "cron" in s:
            for _ in range(2):
                m0 = (base_us + rng.randrange(0, 8 * HOUR)) // MINUTE * MINUTE
                pts += [m0 - 1, m0, m0 + MINUTE - 1, m0 + MINUTE]
    pts = [p for p in pts if base_us + 2 * SEC <= p <= base_us + 3 * DAY]
    rng.shuffle(pts)
    n = rng.randint(3, 7)
    walls = pts[: max(1, n - 2)] + [base_us + rng.randrange(3 * SEC, 2 * DAY) for _ in range(2)]
    trig_kinds = rng.choice([["event"], ["event"], ["event", "time"], ["event", "state", "time"], ["time"], ["state"]])
    ops = place_ops(rng, base_us, walls, trig_kinds)
    if not time_ops_ok(ops, None):
        ops = [o for o in ops if o["k"] != "time"] or place_ops(rng, base_us, walls, ["event"])
    ops = finish_state(rng, ops, None)
    case = {"legacy": legacy, "ta_first": rng.random() < 0.5, "sa": None, "ta": {"specs": specs, "hold": None},
            "y_watched": False, "base_us": base_us, "ops": ops, "want_sun": want_sun, "trig_above": rng.random() < 0.2}
    if rng.random() < 0.15:
        case["sa"] = ["const", True]
    return maybe_repeat(rng, case, 0.25)


HOLDS = [TICK, 2 * TICK, TICK // 2, 3 * TICK + 7, TICK // 4 + 1, 5 * TICK]


def gen_hold_case(rng, focus=None):
    legacy = rng.random() < 0.5
    base_us = us_of_dt(rng.choice(BASE_DAYS)) + rand_tod(rng) // SEC * SEC
    hold = rng.choice(HOLDS)
    r = rng.random()
    if r < 0.1:
        hold_v = None
    elif r < 0.17:
        hold_v = 0
    else:
        hold_v = hold
    # occurrence timeline in tick space: gaps around the hold_off boundary
    t = 2 * TICK + rng.randrange(0, TICK)
    ops = []
    n = rng.randint(3, 9)
    kinds = rng.choice([["event"], ["event", "state"], ["event", "direct"], ["event", "state", "direct"], ["state"]])
    for _ in range(n):
        ops.append({"k": rng.choice(kinds), "t": t, "exact": True})
        g = rng.choice([hold - 1, hold, hold + 1, hold // 2, hold * 2, hold - rng.randrange(2, 2000), hold + rng.randrange(2, 2000),
                        rng.randrange(TICK // 100, 3 * hold)])
        t += max(64, g)
    # sometimes a time-trigger occurrence well away from every boundary
    if rng.random() < 0.25:
        hold_us = tick_us(hold)
        w = base_us + tick_us(ops[-1]["t"]) + rng.randrange(3 * hold_us, 9 * hold_us + 1)
        ops.append({"k": "time", "w": w, "t": (w - base_us) * TICK // SEC, "exact": True})
    ops = finish_state(rng, ops, None)
    # guards: a state_active that flips with y (exercises "last ACCEPTED"), windows that are mostly open
    sa = None
    if rng.random() < 0.7:
        sa = rng.choice([["eq", 1, 1], ["not", ["eq", 1, 0]], ["or", ["eq", 1, 1], ["eq", 1, 2]]])
        ops = add_sety(rng, ops, rng.randint(1, 4))
    specs = []
    r = rng.random()
    if r < 0.35:
        btod = base_us % DAY
        t1 = (btod + 3 * SEC + rng.randrange(0, 6) * SEC) % DAY
        a = mk_ep(rng, ["none"], t1)
        b = mk_ep(rng, ["none"], (t1 + rng.choice([2, 3, 5, 3600]) * SEC) % DAY)
        specs = [{"range": [a, b], "txt": f"range({a['txt']}, {b['txt']})", "neg": rng.random() < 0.5}]
    elif r < 0.45:
        specs = [{"cron": ["*", "*", "*", "*", "*"], "txt": "cron(* * * * *)", "neg": False}]
    case = {"legacy": legacy, "ta_first": rng.random() < 0.6, "sa": sa, "ta": {"specs": specs, "hold": hold_v},
            "y_watched": rng.random() < 0.3, "base_us": base_us, "ops": ops, "want_sun": False, "trig_above": rng.random() < 0.2}
    if not time_ops_ok(ops, hold):
        case["ops"] = [o for o in ops if o["k"] != "time"]
    return maybe_repeat(rng, case, 0.35)


def gen_state_case(rng, focus=None):
    legacy = rng.random() < 0.5
    base_us = us_of_dt(rng.choice(BASE_DAYS)) + rand_tod(rng) // SEC * SEC
    state_only = rng.random() < 0.4
    kinds = ["state"] if state_only else rng.choice([["state", "event"], ["event"], ["state", "event", "direct"], ["state", "time", "event"]])
    t = 2 * TICK
    ops = []
    for _ in range(rng.randint(3, 8)):
        t += rng.randrange(TICK // 50, 4 * TICK)
        k = rng.choice(kinds)
        if k == "time":
            w = base_us + tick_us(t)
            ops.append({"k": "time", "w": w, "t": (w - base_us) * TICK // SEC, "exact": True})
        else:
            ops.append({"k": k, "t": t, "exact": True})
            if k == "state" and rng.random() < 0.25:
                ops.append({"k": "state", "t": t, "exact": False, "burst": True})   # a second change in the same instant
                ops[-2]["exact"] = False
    ops = finish_state(rng, ops, None)
    ops = add_sety(rng, ops, rng.randint(0, 4))
    atoms = [0, 1, 1, 2] + ([10, 10] if state_only else [])
    sa = gen_expr(rng, atoms)
    ta = None
    r = rng.random()
    if r < 0.3:
        ta = {"specs": [], "hold": rng.choice([None, TICK, 2 * TICK])}
    elif r < 0.45:
        btod = base_us % DAY
        a = mk_ep(rng, ["none"], (btod + 4 * SEC) % DAY)
        b = mk_ep(rng, ["none"], (btod + 14 * SEC) % DAY)
        ta = {"specs": [{"range": [a, b], "txt": f"range({a['txt']}, {b['txt']})", "neg": rng.random() < 0.3}], "hold": None}
    case = {"legacy": legacy, "ta_first": rng.random() < 0.5, "sa": sa, "ta": ta, "y_watched": rng.random() < 0.4,
            "base_us": base_us, "ops": ops, "want_sun": False, "trig_above": rng.random() < 0.2}
    if not time_ops_ok(ops, (ta or {}).get("hold")):
        case["ops"] = [o for o in ops if o["k"] != "time"]
    if not state_only:
        case = maybe_repeat(rng, case, 0.35)
    return case


def gen_held_case(rng, focus=None):
    """@state_trigger("pyscript.x", state_hold=S): every change of x is an occurrence that is processed S later (changes are
    further apart than S, so each one is held exactly once); the guard must see that change's value and .old"""
    legacy = rng.random() < 0.5
    base_us = us_of_dt(rng.choice(BASE_DAYS)) + rand_tod(rng) // SEC * SEC
    S = rng.choice([TICK // 4 + 37, TICK + 12345, 3 * TICK // 2 + 1, TICK // 100 + 3, 2 * TICK + 777])   # off the second grid
    t = 2 * TICK
    ops = []
    x = None
    for _ in range(rng.randint(2, 6)):
        t += S + rng.randrange(TICK // 20, 3 * TICK)
        if rng.random() < 0.2:
            ops.append({"k": "direct", "t": t - TICK // 40, "exact": False})
        v = rng.choice([c for c in range(4) if c != x])
        x = v
        ops.append({"k": "xset", "t": t, "v": v})
        ops.append({"k": "held", "t": t + S, "v": v, "exact": False})
        t += S
    ops = add_sety(rng, ops, rng.randint(0, 4))
    sa = gen_expr(rng, [0, 10, 10, 10, 1, 2])
    if rng.random() < 0.3:
        sa = ["and", ["eq", 10, rng.randrange(0, 4)], ["eq", 0, rng.randrange(0, 4)]] if rng.random() < 0.5 else ["eq", 10, rng.randrange(0, 4)]
    ta = None
    if rng.random() < 0.25:
        ta = {"specs": [], "hold": None}
    return {"legacy": legacy, "ta_first": rng.random() < 0.5, "sa": sa, "ta": ta, "y_watched": rng.random() < 0.4,
            "base_us": base_us, "ops": ops, "want_sun": False, "trig_above": rng.random() < 0.2, "state_hold": S}


def gen_multi_case(rng, focus=None):
    """2-3 functions triggered by the same entity x, all guarded on the shared entities y (watched by a fourth function, so
    its value comes from State.notify_var_last), x and x.old; some are delayed by state_hold, and y may change between the
    change of x and a delayed evaluation.  Every function is judged on its own occurrences."""
    legacy = rng.random() < 0.5
    base_us = us_of_dt(rng.choice(BASE_DAYS)) + rand_tod(rng) // SEC * SEC
    holds = [TICK // 4 + 37, TICK + 12345, TICK // 2 + 5, 3 * TICK // 2 + 1]
    nf = rng.choice([2, 2, 3])
    funcs = []
    for i in range(nf):
        r = rng.random()
        sa = ["eq", 1, rng.randrange(0, 2)] if r < 0.5 else gen_expr(rng, [1, 1, 1, 0, 10], depth=1) if r < 0.85 else ["not", ["eq", 1, rng.randrange(0, 2)]]
        funcs.append({"sa": sa, "hold": rng.choice(holds) if rng.random() < 0.55 else None, "trig_above": rng.random() < 0.2})
    if all(f["hold"] is None for f in funcs):
        funcs[-1]["hold"] = rng.choice(holds)
    smax = max(f["hold"] or 0 for f in funcs)
    ops = [{"k": "sety", "t": TICK, "v": rng.randrange(0, 2)}]
    t = 2 * TICK
    x = None
    for _ in range(rng.randint(2, 5)):
        t += rng.randrange(TICK // 10, 2 * TICK)
        v = rng.choice([c for c in range(4) if c != x])
        x = v
        ops.append({"k": "xset", "t": t, "v": v})
        marks = sorted({f["hold"] for f in funcs if f["hold"] is not None})
        for m in marks:
            ops.append({"k": "collect", "t": t + m})
        for _y in range(rng.choice([0, 1, 1, 2])):
            for _try in range(8):
                ty = t + rng.randrange(TICK // 100, smax + TICK // 4)
                if all(abs(ty - o["t"]) > TICK // 150 for o in ops):
                    ops.append({"k": "sety", "t": ty, "v": rng.randrange(0, 2)})
                    break
        t += smax + TICK // 3
    ops.sort(key=lambda o: o["t"])
    # a value must change for HA to fire state_changed: drop sety ops that repeat the current value
    y = None
    keep = []
    for o in ops:
        if o["k"] == "sety":
            if o["v"] == y:
                continue
            y = o["v"]
        keep.append(o)
    return {"multi": True, "legacy": legacy, "funcs": funcs, "base_us": base_us, "ops": keep}


def multi_occurrences(case, fn):
    """occurrences of one function of a multi case: every change of x, processed `hold` later"""
    ops = case["ops"]
    hold = fn.get("hold") or 0
    occs = []
    x = None
    for op in ops:
        if op["k"] != "xset":
            continue
        tp = op["t"] + hold
        y = None
        for o in ops:
            if o["k"] == "sety" and o["t"] <= tp:
                y = o["v"]
        occs.append({"kind": "state", "grp": 0, "mono": tp, "wall": case["base_us"] + tick_us(tp), "trig": [(0, op["v"]), (10, x)],
                     "last": [(0, op["v"])] + ([(1, y)] if y is not None else []), "cur": [(0, op["v"]), (1, y), (2, None)],
                     "exact": False, "value": str(op["v"])})
        x = op["v"]
    return occs


def gen_stateactive_mixed(rng, focus=None):
    r = rng.random()
    return gen_held_case(rng, focus) if r < 0.3 else gen_multi_case(rng, focus) if r < 0.55 else gen_state_case(rng, focus)


# ------------------------------------------------------------------------------------------------
# case -> occurrences -> Gallina
# ------------------------------------------------------------------------------------------------
def occurrences(case):
    """the occurrence list the Model and the Spec are evaluated on: (kind, mono, wall, trig env, cur env, exact)"""
    x = None
    y = None
    occs = []
    ops = case["ops"]
    x_watched = any(o["k"] in ("state", "held") for o in ops) or "state" in case.get("extra_trig", [])
    held_trig = []            # triggering values of the change whose state_hold is running
    w = None                  # second trigger entity (pyscript.w, id 3; its .old is id 13)
    y_watched = bool(case.get("y_watched"))
    i = 0
    while i < len(ops):
        j = i + 1
        while j < len(ops) and ops[j].get("burst") and ops[j]["t"] == ops[i]["t"]:
            j += 1
        group = ops[i:j]
        pend = []
        for n, op in enumerate(group):
            k = op["k"]
            if k == "sety":
                y = op["v"]
                continue
            if k == "xset":
                held_trig = [(0, op["v"]), (10, x)]
                x = op["v"]
                continue
            if k == "held":
                pend.append(["state", op["t"], case["base_us"] + tick_us(op["t"]), held_trig, False, 0])
                continue
            wall = op["w"] if k == "time" else case["base_us"] + tick_us(op["t"]) + n
            trig = []
            if k == "state" and op.get("src", 0) == 1:
                trig = [(3, op["v"]), (13, w)]
                w = op["v"]
            elif k == "state":
                trig = [(0, op["v"]), (10, x)]
                x = op["v"]
            pend.append([k, op["t"], wall, trig, bool(op.get("exact")) and len(group) == 1, op.get("src", 0)])
        last = ([(0, x)] if x_watched and x is not None else []) + ([(1, y)] if y_watched and y is not None else [])
        for k, t, wall, trig, ex, grp in pend:
            occs.append({"kind": k, "grp": grp, "mono": t, "wall": wall, "trig": trig, "last": last, "cur": [(0, x), (1, y), (2, None)], "exact": ex})
        i = j
    return occs


def _q_env(env):
    return q.lst(f"({k}%N, {q.option(None if v is None else q.N(v))})" for k, v in env)


def _q_dspec(d):
    k = d[0]
    if k == "none":
        return "DNone"
    if k == "today":
        return "DToday"
    if k == "tomorrow":
        return "DTomorrow"
    if k == "dow":
        return f"(DDow {q.Z(d[1])})"
    if k == "md":
        return f"(DMonthDay {q.Z(d[1])} {q.Z(d[2])})"
    return f"(DYmd {q.Z(d[1])} {q.Z(d[2])} {q.Z(d[3])})"


def _q_ep(e):
    if e.get("now"):
        return f"(ENow {q.Z(e['off'])})"
    if "sun" in e:
        return f"(ESun {_q_dspec(e['d'])} {q.boolean(e['sun'] == 'sunset')} {q.Z(e['off'])})"
    return f"(EDay {_q_dspec(e['d'])} {q.Z(e['tod'] + e['off'])})"


def _q_spec(s):
    if "cron" in s:
        f = s["cron"]
        sets = [cron_expand(x, lo, hi) for x, (lo, hi) in zip(f, CRON_RANGES)]
        body = " ".join(q.lst(q.Z(v) for v in vs) for vs in sets)
        w = f"(mk_cron {body} {q.boolean(f[2] == '*')} {q.boolean(f[4] == '*')})"
    else:
        a, b = s["range"]
        w = f"(WRange {_q_ep(a)} {_q_ep(b)})"
    return f"({q.boolean(s['neg'])}, {w})"


def _q_expr(e):
    k = e[0]
    if k == "const":
        return f"(SConst {q.boolean(e[1])})"
    if k == "eq":
        return f"(SEq {q.N(e[1])} {q.N(e[2])})"
    if k == "not":
        return f"(SNot {_q_expr(e[1])})"
    return f"({'SAnd' if k == 'and' else 'SOr'} {_q_expr(e[1])} {_q_expr(e[2])})"


KIND = {"event": "KEvent", "state": "KState", "time": "KTime", "direct": "KDirect"}


class GuardStream(Stream):
    requires = "From PV Require Import Time.Windows Trig.Guards Trig.GuardsCheck."
    case_type = "mcase"
    check_model = "mcase_model_ok pv_cfg"
    check_spec = "mcase_spec_ok"
    attrib = "mcase_attrib pv_cfg"
    explain = "mcase_explain pv_cfg"
    shard_size = 150
    gen_fn = None
    quick = 300
    thorough = 4000

    def __init__(self, name, rule, gen_fn, quick, thorough):
        self.name = name
        self.rule = rule
        self.gen_fn = gen_fn
        self.quick = quick
        self.thorough = thorough

    def budget(self, tier):
        return self.quick if tier == "quick" else self.thorough

    def generate(self, ctx, budget, focus=None):
        return [self.gen_fn(ctx.rng, focus) for _ in range(budget)]

    def run_impl(self, ctx, cases):
        chunks = split_chunks(cases, 12)
        res = run_workers_parallel(ctx, "vh.workers.c07_guards", [{"cases": c} for c in chunks], timeout=1500)
        return [o for r in res for o in r]

    def prelude(self, ctx, findings, witness_terms):
        return cfg_prelude([("d_time_active_per_arg", "D15"), ("d_hold_early_update", "D70"), ("d_stale_active_vars", "D71"), ("d_hold_per_trigger", "D72")], findings, witness_terms, "mcase_spec_ok")

    @staticmethod
    def _q_occs(occs):
        return q.lst("mk_occ %s %s %s %s %s %s %s %s" % (
            KIND[o["kind"]], q.N(o["grp"]), q.Z(o["mono"]), q.Z(o["wall"]), _q_env(o["trig"]), _q_env(o["last"]),
            q.option(None if o["cur"][0][1] is None else q.N(o["cur"][0][1])),
            q.option(None if o["cur"][1][1] is None else q.N(o["cur"][1][1]))) for o in occs)

    def multi_verdicts(self, case, obs):
        """attribute the reported runs to the occurrences of each function -> ([runs per function], unattributed)"""
        runs = [list(r) for r in obs.get("multi_runs", [])]
        out = []
        for i, fn in enumerate(case["funcs"]):
            got = []
            for o in multi_occurrences(case, fn):
                want_us = tick_us(o["mono"])
                hit = None
                for r in runs:
                    if r[0] == i and r[1] == o["value"] and abs(r[2] - want_us) < 2000:
                        hit = r
                        break
                if hit is not None:
                    runs.remove(hit)
                got.append(hit is not None)
            out.append(got)
        return out, len(runs)

    def to_coq_multi(self, case, obs):
        verdicts, unattributed = self.multi_verdicts(case, obs)
        terms = []
        for i, fn in enumerate(case["funcs"]):
            occs = multi_occurrences(case, fn)
            extra = (unattributed + int(obs.get("extra", 0))) if i == 0 else 0
            terms.append("(Build_gcase %s (mk_guards (Some %s) None None false) %s [] %s %s %s %s %s)" % (
                q.boolean(case["legacy"]), _q_expr(fn["sa"]), q.Z(case["base_us"]), self._q_occs(occs),
                q.lst("false" for _ in occs), q.lst("None" for _ in occs), q.lst(q.boolean(b) for b in verdicts[i]),
                q.N(min(extra, 999))))
        return q.lst(terms)

    def to_coq(self, case, obs):
        if case.get("multi"):
            return self.to_coq_multi(case, obs)
        occs = occurrences(case)
        ta = case.get("ta")
        g = "(mk_guards %s %s %s %s)" % (
            q.option(_q_expr(case["sa"]) if case.get("sa") is not None else None),
            q.option(q.lst(_q_spec(s) for s in ta["specs"]) if ta is not None else None),
            q.option(q.Z(ta["hold"]) if ta is not None and ta.get("hold") is not None else None),
            q.boolean(case.get("ta_first")))
        qo = q.lst("mk_occ %s %s %s %s %s %s %s %s" % (
            KIND[o["kind"]], q.N(o["grp"]), q.Z(o["mono"]), q.Z(o["wall"]), _q_env(o["trig"]), _q_env(o["last"]),
            q.option(None if o["cur"][0][1] is None else q.N(o["cur"][0][1])),
            q.option(None if o["cur"][1][1] is None else q.N(o["cur"][1][1]))) for o in occs)
        startup = obs.get("startup")
        if startup is None:
            startup = case["base_us"]
        seen = list(obs.get("seen", []))
        seen += [None] * (len(occs) - len(seen))
        return "[Build_gcase %s %s %s %s %s %s %s %s %s]" % (
            q.boolean(case["legacy"]), g, q.Z(startup),
            q.lst(f"({q.boolean(s)}, {q.Z(d)}, {q.Z(t)})" for s, d, t in obs.get("sun", [])), qo,
            q.lst(q.boolean(o["exact"]) for o in occs),
            q.lst(q.option(q.Z(s) if s is not None else None) for s in seen[: len(occs)]),
            q.lst(q.boolean(b) for b in obs.get("runs", [])), q.N(min(int(obs.get("extra", 0)), 999)))

    def nontrivial(self, case, obs):
        if case.get("multi"):
            return len(case["funcs"]) >= 2
        runs = obs.get("runs", [])
        return len(runs) >= 2 and (case.get("ta") is not None or case.get("sa") is not None)

    def kind(self, case, obs):
        if case.get("multi"):
            return f"{'legacy' if case['legacy'] else 'new'}:multi{len(case['funcs'])}:{sum(1 for f in case['funcs'] if f['hold'])}held"
        ta = case.get("ta")
        kinds = "+".join(sorted({o["k"] for o in case["ops"] if o["k"] not in ("sety", "xset")}))
        sp = "none" if ta is None else "/".join(sorted({("not-" if s["neg"] else "") + ("cron" if "cron" in s else "range") for s in ta["specs"]})) or "nospec"
        if case.get("ntrig"):
            kinds += "*rep"
        return f"{'legacy' if case['legacy'] else 'new'}:{kinds}:{sp}:{'hold' if ta and ta.get('hold') else 'nohold'}:{'sa' if case.get('sa') else 'nosa'}"

    def describe(self, case, obs):
        if case.get("multi"):
            verdicts, unattributed = self.multi_verdicts(case, obs)
            return {"legacy": case["legacy"], "functions": [{"state_active": f["sa"], "state_hold_s": (f["hold"] / TICK if f["hold"] else None)} for f in case["funcs"]],
                    "ops": [{k: (v / TICK if k == "t" else v) for k, v in o.items()} for o in case["ops"]], "ran": verdicts,
                    "unattributed_runs": unattributed, "errors": obs.get("errors")}
        ta = case.get("ta")
        return {"legacy": case["legacy"], "time_active": [("not " if s["neg"] else "") + s["txt"] for s in ta["specs"]] if ta else None,
                "hold_off_s": (ta["hold"] / TICK if ta and ta.get("hold") is not None else None),
                "state_active": case.get("sa"), "ta_first": case.get("ta_first"), "base": str(dt_of_us(case["base_us"])),
                "repeated_triggers": case.get("ntrig"),
                "occurrences": [{"kind": o["kind"], "trigger_no": o["grp"], "wall": str(dt_of_us(o["wall"])), "mono_s": o["mono"] / TICK} for o in occurrences(case)],
                "ran": obs.get("runs"), "extra": obs.get("extra"), "errors": obs.get("errors")}


class C07(Prop):
    id = "C07"
    title = "@state_active / @time_active / hold_off gate every trigger correctly"
    coq_targets = ["Properties/C07.vo"]
    property_file = "Properties/C07.v"
    streams = [
        GuardStream("windows",
                    "lists of 1-4 positive/negated range()/cron() specifications (daily, wrapping, today/tomorrow, weekday, dated, "
                    "now-relative, sunrise/sunset; with offsets) rendered to strings and given to @time_active of a function with "
                    "event/state/time triggers under both subsystems; occurrences placed at every resolved end point -1/0/+1 us, at "
                    "cron minute boundaries and at random instants up to 3 days ahead; non-trivial = at least two occurrences behind a "
                    "guard; distinct by the whole case", gen_windows_case, 600, 8000),
        GuardStream("hold",
                    "hold_off in {0, None, 0.25 s .. 5 s} with consecutive occurrence gaps N-1, N, N+1 ticks (2^-20 s), N/2, 2N and random, "
                    "state_active flipping through an unwatched entity between occurrences (so 'last accepted' differs from 'last "
                    "occurrence'), both decorator orders, direct calls in between, event/state/time occurrences, both subsystems",
                    gen_hold_case, 300, 5000),
        GuardStream("stateactive",
                    "random state_active expressions (==, not, and, or) over the trigger variable, its .old, an unwatched entity (optionally "
                    "watched by another function) and a non-existent entity; state occurrences incl. two changes in the same instant, "
                    "event/time occurrences and direct calls; optional @time_active(hold_off=) without windows; 35 % of the cases use "
                    "@state_trigger(x, state_hold=S) with S off the second grid, so the run is started S after the change by the hold "
                    "timer and the guard must still see that change's value and .old (unwatched entity may change during the hold); "
                    "both subsystems", gen_stateactive_mixed, 300, 5000),
    ]
    trusted_base = [
        "modelled, not verified: timer_active_check on parsed specifications (Time/Windows.v), trigger_watch l.1284-1320 and "
        "FunctionDecoratorManager.dispatch + TimeActiveDecorator/StateActiveDecorator.handle_dispatch (Trig/Guards.v)",
        "tested through the correspondence, not modelled: the regex parsing of parse_date_time/parse_time_offset (strings are rendered "
        "from the parsed form by the generator), croniter's field expansion (expanded by the generator), astral (sunrise/sunset table "
        "measured in the worker), the AstEval evaluation of state_active expressions (==, not, and, or over string states)",
        "the virtual clock of harness/vh/hassenv.py (time.monotonic and dt_now both derived from the loop's virtual time)",
    ]
    assumptions = ["monotonic clock positive and non-decreasing along the occurrence list; hold_off >= 0",
                   "at most one @state_active and one @time_active per function (the legacy subsystem rejects more)"]
    partial_note = ("six-field (seconds) cron expressions, cron names/L/#, month-only and year-crossing date forms other than M/D and Y/M/D, "
                    "mqtt/webhook triggers and task.wait_until are not generated; `.old` inside state_active is only generated for "
                    "functions that have only a state trigger")

    def translate(self, ctx):
        return {"Gen/GuardConsts.v": gen_guard_consts()}


PROP = C07()

MANIFEST_ENTRY = {
    "technique": "Rocq proof (window algebra; induction over occurrence lists with a simulation between Spec state and each subsystem's "
                 "state) + in-Coq correspondence with the real decorator paths of both subsystems on a virtual clock",
    "level_text": ("C07_windows (active_check = Spec for every list of signed windows, every start-up time, sun table and instant), the "
                   "inclusive-end-point, wrap and crontab lemmas, and C07_pipeline (for conformant switches the legacy and the new guard "
                   "pipeline accept exactly the occurrences the Spec accepts, for every occurrence list) are proved about Gallina models whose "
                   "comparison operators/any-all structure are regenerated from trigger.py and decorators/timing.py on every run and whose "
                   "behaviour is compared inside Coq with the real code (event, state and time triggers, both subsystems). "
                   "C07_refuted_D15/D70 exhibit the two deviations of the new subsystem."),
    "level_note": ("Trusted: Coq kernel+vm_compute; translator and drivers in /verif/harness; HomeAssistant test fixture and virtual clock. "
                   "String parsing, croniter and astral are exercised, not modelled."),
    "design_ref": "DESIGN.md §4 C07",
}
