"""C11 — each file has an isolated global context; modules are shared singletons."""
import ast

from .. import coqio as q
from ..core import Prop, Stream, cfg_prelude, run_workers_parallel, split_chunks
from ..translate import TranslateError, find_class, find_func, parse_file, walk_find


# ------------------------------------------------------------------------------------------------
# T1: shape facts about EvalFunc.call / ast_importfrom / module_import -> Gen/CtxConsts.v
# ------------------------------------------------------------------------------------------------
PTRS = ["global_sym_table", "sym_table", "sym_table_stack", "global_ctx"]


def _is_attr(node, obj, attr):
    return isinstance(node, ast.Attribute) and isinstance(node.value, ast.Name) and node.value.id == obj and node.attr == attr


def _restore_stmts(nodes):
    """the tuple assignment `(ast_ctx.global_sym_table, .sym_table, .sym_table_stack, .global_ctx) = prev_sym_table`"""
    res = []
    for n in nodes:
        for a in walk_find(n, lambda x: isinstance(x, ast.Assign)):
            t = a.targets[0]
            if (len(a.targets) == 1 and isinstance(t, ast.Tuple) and isinstance(a.value, ast.Name) and a.value.id == "prev_sym_table"
                    and [e.attr for e in t.elts if _is_attr(e, "ast_ctx", getattr(e, "attr", None))] == PTRS):
                res.append(a)
    return res


def _pop_stmts(nodes):
    """`ast_ctx.sym_table = ast_ctx.sym_table_stack.pop()`"""
    res = []
    for n in nodes:
        for a in walk_find(n, lambda x: isinstance(x, ast.Assign)):
            v = a.value
            if (len(a.targets) == 1 and _is_attr(a.targets[0], "ast_ctx", "sym_table") and isinstance(v, ast.Call)
                    and isinstance(v.func, ast.Attribute) and v.func.attr == "pop" and _is_attr(v.func.value, "ast_ctx", "sym_table_stack")):
                res.append(a)
    return res


def translate_ctx():
    out = {}
    # ---- EvalFunc.call
    tree = parse_file("eval.py")
    call = find_func(find_class(tree, "EvalFunc"), "call")
    sw = [n for n in walk_find(call, lambda x: isinstance(x, ast.If))
          if isinstance(n.test, ast.Compare) and len(n.test.ops) == 1 and isinstance(n.test.ops[0], (ast.NotEq, ast.IsNot))
          and _is_attr(n.test.left, "ast_ctx", "global_ctx") and _is_attr(n.test.comparators[0], "self", "global_ctx")]
    if len(sw) != 1:
        raise TranslateError("EvalFunc.call: expected exactly one `if ast_ctx.global_ctx != self.global_ctx:`")
    sw = sw[0]
    assigned = {}
    for a in sw.body:
        if isinstance(a, ast.Assign) and len(a.targets) == 1 and isinstance(a.targets[0], ast.Attribute) and _is_attr(a.targets[0], "ast_ctx", a.targets[0].attr):
            assigned[a.targets[0].attr] = ast.unparse(a.value)
    want = {"global_sym_table": "self.global_ctx.get_global_sym_table()", "sym_table_stack": "[ast_ctx.global_sym_table]", "global_ctx": "self.global_ctx"}
    if assigned != want:
        raise TranslateError(f"EvalFunc.call: context switch assigns {assigned}, expected {want}")
    saved = [a for a in sw.body if isinstance(a, ast.Assign) and isinstance(a.targets[0], ast.Name) and a.targets[0].id == "prev_sym_table"]
    if len(saved) != 1 or not isinstance(saved[0].value, (ast.List, ast.Tuple)) or [e.attr for e in saved[0].value.elts if _is_attr(e, "ast_ctx", getattr(e, "attr", None))] != PTRS:
        raise TranslateError("EvalFunc.call: prev_sym_table is not [global_sym_table, sym_table, sym_table_stack, global_ctx]")
    push = [a for a in sw.orelse if isinstance(a, ast.Expr) and ast.unparse(a.value) == "ast_ctx.sym_table_stack.append(ast_ctx.sym_table)"]
    if len(push) != 1:
        raise TranslateError("EvalFunc.call: same-context branch does not push sym_table")
    tries = [n for n in call.body if isinstance(n, ast.Try)]
    if len(tries) != 1:
        raise TranslateError("EvalFunc.call: expected one try statement around the body loop")
    tr = tries[0]
    in_fin = len(_restore_stmts(tr.finalbody)) == 1 and len(_pop_stmts(tr.finalbody)) == 1
    anywhere = len(_restore_stmts([call])) == 1 and len(_pop_stmts([call])) == 1
    if not anywhere:
        raise TranslateError("EvalFunc.call: restore of the context pointers not found")
    if tr.handlers:
        raise TranslateError("EvalFunc.call: unexpected except handlers around the body")
    func_restore = [a for n in tr.finalbody for a in walk_find(n, lambda x: isinstance(x, ast.Assign))
                    if _is_attr(a.targets[0], "ast_ctx", "curr_func") and isinstance(a.value, ast.Name) and a.value.id == "prev_func"]
    out["call_restore_in_finally"] = bool(in_fin and len(func_restore) == 1)
    # ---- ast_importfrom: star import filter
    imf = find_func(find_class(tree, "AstEval"), "ast_importfrom")
    stars = [n for n in walk_find(imf, lambda x: isinstance(x, ast.If)) if ast.unparse(n.test) in ("imp.name == '*'",)]
    if len(stars) != 1:
        raise TranslateError("ast_importfrom: `if imp.name == \"*\":` not found")
    loops = [n for n in stars[0].body if isinstance(n, ast.For)]
    if len(loops) != 1 or ast.unparse(loops[0].iter) != "mod.__dict__.items()":
        raise TranslateError("ast_importfrom: star import does not iterate over mod.__dict__.items()")
    body = loops[0].body
    if len(body) == 1 and isinstance(body[0], ast.If) and ast.unparse(body[0].test) in ("name[0] != '_'", "not name.startswith('_')") and not body[0].orelse \
            and [ast.unparse(s) for s in body[0].body] == ["self.sym_table[name] = value"]:
        out["star_skip_underscore"] = True
    elif [ast.unparse(s) for s in body] == ["self.sym_table[name] = value"]:
        out["star_skip_underscore"] = False
    else:
        raise TranslateError("ast_importfrom: unexpected star import loop body")
    # ---- module_import: lookup before load
    gtree = parse_file("global_ctx.py")
    mi = find_func(find_class(gtree, "GlobalContext"), "module_import")
    finds = [n for n in walk_find(mi, lambda x: isinstance(x, ast.Call)) if any(isinstance(a, ast.Name) and a.id == "find_first_file" for a in n.args)]
    if len(finds) != 1:
        raise TranslateError("module_import: executor call of find_first_file not found")
    lookups = []
    for n in mi.body:
        if isinstance(n, ast.For) and ast.unparse(n.iter) == "file_paths":
            txt = ast.unparse(n)
            if "self.manager.get(ctx_name)" in txt and "return mod_ctx.module" in txt and "mod_ctx and mod_ctx.module" in txt:
                lookups.append(n)
    if len(lookups) > 1:
        raise TranslateError("module_import: more than one lookup loop")
    out["lookup_before_load"] = bool(lookups and lookups[0].lineno < finds[0].lineno)
    return out


def gen_ctx_consts():
    c = translate_ctx()
    lines = ["(* GENERATED by harness/vh/props/c11.py from eval.py EvalFunc.call / ast_importfrom and global_ctx.py module_import — do not edit *)"]
    for k, v in c.items():
        lines.append(f"Definition {k} : bool := {q.boolean(v)}.")
    return "\n".join(lines) + "\n"


# ------------------------------------------------------------------------------------------------
# names <-> ids (mirrors the reserved ids of Interp/Ctx.v)
# ------------------------------------------------------------------------------------------------
NAME_ID = {"file": 1, "apps": 2, "modules": 3, "scripts": 4, "__init__": 5, "__all__": 900, "_u": 901, "_v": 902}
_POOLS = {
    10: ["a", "b", "c", "s1", "m1", "m2", "pkg", "sib", "other", "app1", "app2", "helper", "m3"],
    100: ["g", "h", "k", "cnt", "x", "y", "z", "r", "e1", "e2", "last", "cx", "cy", "thresh"],
    200: ["bump", "setg", "get", "boom", "chain", "loc", "early", "tsk", "tf", "tg", "f1", "f2", "f3", "imp", "inner", "slow", "quick"],
    250: ["q1", "q2"],          # functions defined as `def q(p):` (Interp/Ctx.v needs_arg)
    260: ["w1", "w2"],          # user decorators `def w(f):` (Interp/Ctx.v is_deco)
    300: ["ma", "mb", "mc", "md", "lm", "t", "u", "fa", "fb", "fc", "fd"],
}
for _base, _names in _POOLS.items():
    for _i, _n in enumerate(_names):
        NAME_ID[_n] = _base + _i


QFUNCS = ("q1", "q2")
WFUNCS = ("w1", "w2")
LOCAL_ONLY = ["t", "u", "lm"]     # names the generator only ever uses as function locals


def nid(s):
    return NAME_ID[s]


def qpath(dotted):
    return q.lst(q.N(nid(p)) for p in dotted.split(".")) if dotted else "[]"


# ------------------------------------------------------------------------------------------------
# rendering a program (JSON) as Python source and as a Gallina term
# ------------------------------------------------------------------------------------------------
def r_expr(e):
    k = e[0]
    if k == "lit":
        return str(e[1])
    if k == "none":
        return "None"
    if k == "names":
        return "[" + ", ".join(repr(x) for x in e[1]) + "]"
    if k == "name":
        return e[1]
    if k == "add":
        return f"{e[1]} + {e[2]}"
    if k == "attr":
        return f"{e[1]}.{e[2]}"
    if k == "ctx":
        return "pyscript.get_global_ctx()"
    raise ValueError(e)


def r_cref(c):
    return c[1] if c[0] == "n" else f"{c[1]}.{c[2]}"


def r_items(items):
    return ", ".join(n if n == b else f"{n} as {b}" for n, b in items)


def r_block(stmts, ind, ctxname):
    if not stmts:
        return [ind + "pass"]
    out = []
    for s in stmts:
        out += r_stmt(s, ind, ctxname)
    return out


def ev_name(ctxname, f):
    return "pv_t_" + ctxname.replace(".", "_") + "_" + f


def trig_decorators(trig, ctxname, f):
    """trig = True (plain event trigger) or {"kind": event|state|active, "v": V, "g": global name}: the trigger expression
    "V > g" is a string written in THIS file, so g must be read from this file's globals"""
    ev = ev_name(ctxname, f)
    if trig is True:
        return [f'@event_trigger("{ev}")']
    kind, g = trig["kind"], trig["g"]
    if kind == "event":
        return [f'@event_trigger("{ev}", "val > {g}")']
    if kind == "active":
        return [f'@event_trigger("{ev}")', f'@state_active("{trig["v"]} > {g}")']
    if kind == "state":
        return [f'@state_trigger("int(pyscript.{ev}) > {g}")']
    raise ValueError(trig)


def r_stmt(s, ind, ctxname):
    k = s[0]
    if k == "assign":
        return [f"{ind}{s[1]} = {r_expr(s[2])}"]
    if k == "attrassign":
        return [f"{ind}{s[1]}.{s[2]} = {r_expr(s[3])}"]
    if k in ("def", "defdeco"):
        if k == "def":
            _, f, gl, body, trig = s
            deco = None
        else:
            _, f, deco, gl, body, trig = s
        out = []
        if trig:
            out += [ind + line for line in trig_decorators(trig, ctxname, f)]
        if deco:
            out.append(f"{ind}@{r_cref(deco)}")
        out.append(f"{ind}def {f}(p):" if f in QFUNCS else f"{ind}def {f}(f):" if f in WFUNCS else f"{ind}def {f}(**kw):")
        if gl:
            out.append(f"{ind}    global " + ", ".join(gl))
            out += r_block(body, ind + "    ", ctxname) if body else []
        else:
            out += r_block(body, ind + "    ", ctxname)
        return out
    if k == "call":
        return [f"{ind}{s[1]} = {r_cref(s[2])}()" if s[1] else f"{ind}{r_cref(s[2])}()"]
    if k == "task":
        return [f"{ind}task.wait({{task.create({r_cref(s[1])})}})"]
    if k == "return":
        return [f"{ind}return {r_expr(s[1])}"]
    if k == "raise":
        return [f'{ind}raise ValueError("pv")']
    if k == "if":
        out = [f"{ind}if {r_expr(s[1])}:"] + r_block(s[2], ind + "    ", ctxname)
        if s[3]:
            out += [f"{ind}else:"] + r_block(s[3], ind + "    ", ctxname)
        return out
    if k == "try":
        return [f"{ind}try:"] + r_block(s[1], ind + "    ", ctxname) + [f"{ind}except Exception:"] + r_block(s[2], ind + "    ", ctxname)
    if k == "import":
        return [f"{ind}import {s[1]}" if s[1] == s[2] else f"{ind}import {s[1]} as {s[2]}"]
    if k == "from":
        return [f"{ind}from {'.' * s[2]}{s[1]} import {r_items(s[3])}"]
    if k == "star":
        return [f"{ind}from {'.' * s[2]}{s[1]} import *"]
    if k == "fromdot":
        return [f"{ind}from {'.' * s[1]} import {r_items(s[2])}"]
    if k == "setctx":
        return [f'{ind}pyscript.set_global_ctx("{s[1]}")']
    if k == "sleep":
        return [f"{ind}task.sleep({s[1]})"]
    if k == "callbad":
        # an argument list that cannot be bound: extra positional for `def f(**kw)`, unexpected keyword (and missing p) for `def q(p)`
        c = s[1]
        return [f"{ind}{r_cref(c)}(zz=1)" if c[-1] in QFUNCS + WFUNCS else f"{ind}{r_cref(c)}(1)"]
    raise ValueError(s)


def render(prog, ctxname):
    return "\n".join(r_block(prog, "", ctxname)) + "\n"


def c_expr(e):
    k = e[0]
    if k == "lit":
        return f"(ELit {q.Z(e[1])})"
    if k == "none":
        return "ENone"
    if k == "names":
        return f"(ENames {q.lst(q.N(nid(x)) for x in e[1])})"
    if k == "name":
        return f"(EName {q.N(nid(e[1]))})"
    if k == "add":
        return f"(EAddLit {q.N(nid(e[1]))} {q.Z(e[2])})"
    if k == "attr":
        return f"(EAttr {q.N(nid(e[1]))} {q.N(nid(e[2]))})"
    if k == "ctx":
        return "ECtx"
    raise ValueError(e)


def c_cref(c):
    return f"(CName {q.N(nid(c[1]))})" if c[0] == "n" else f"(CAttr {q.N(nid(c[1]))} {q.N(nid(c[2]))})"


def c_items(items):
    return q.lst(f"({q.N(nid(n))}, {q.N(nid(b))})" for n, b in items)


def c_block(stmts):
    return q.lst(c_stmt(s) for s in stmts)


def c_stmt(s):
    k = s[0]
    if k == "assign":
        return f"SAssign {q.N(nid(s[1]))} {c_expr(s[2])}"
    if k == "attrassign":
        return f"SAttrAssign {q.N(nid(s[1]))} {q.N(nid(s[2]))} {c_expr(s[3])}"
    if k == "def":
        return f"SDef {q.N(nid(s[1]))} {q.lst(q.N(nid(x)) for x in s[2])} {c_block(s[3])}"
    if k == "call":
        return f"SCall {q.option(q.N(nid(s[1])) if s[1] else None)} {c_cref(s[2])}"
    if k == "task":
        return f"STask {c_cref(s[1])}"
    if k == "return":
        return f"SReturn {c_expr(s[1])}"
    if k == "raise":
        return "SRaise"
    if k == "if":
        return f"SIf {c_expr(s[1])} {c_block(s[2])} {c_block(s[3])}"
    if k == "try":
        return f"STry {c_block(s[1])} {c_block(s[2])}"
    if k == "import":
        return f"SImport {qpath(s[1])} {q.N(nid(s[2]))}"
    if k == "from":
        return f"SFrom {qpath(s[1])} {q.nat(s[2])} {c_items(s[3])}"
    if k == "star":
        return f"SFromStar {qpath(s[1])} {q.nat(s[2])}"
    if k == "fromdot":
        return f"SFromDot {q.nat(s[1])} {c_items(s[2])}"
    if k == "setctx":
        return f"SSetCtx {qpath(s[1])}"
    if k == "callbad":
        return f"SCallBad {c_cref(s[1])}"
    if k == "defdeco":
        return f"SDefDeco {q.N(nid(s[1]))} {c_cref(s[2])} {q.lst(q.N(nid(x)) for x in s[3])} {c_block(s[4])}"
    if k == "sleep":
        return "SSleep"
    raise ValueError(s)


# ------------------------------------------------------------------------------------------------
# file path -> context name, rel_import_path, python module name  (mirrors __init__.py glob_read_files)
# ------------------------------------------------------------------------------------------------
def file_info(rel):
    """-> dict(ctx, relimp (dir or None), autoload, pymod, fspath (dotted, without .py))"""
    assert rel.endswith(".py")
    mod = rel[:-3]
    relimp = None
    if mod.endswith("/__init__"):
        relimp = mod[: -len("/__init__")]
    dotted_fs = mod.replace("/", ".")
    name = (relimp if relimp else mod).replace("/", ".")
    top = rel.split("/")[0]
    if top in ("apps", "modules", "scripts") and "/" in rel:
        ctx = name
        pymod = name.split(".", 1)[1]
        depth = rel.count("/")
        if top == "apps":
            autoload = depth == 1 or (depth == 2 and rel.endswith("/__init__.py"))
        elif top == "scripts":
            autoload = True
        else:
            autoload = False
    else:
        ctx = "file." + name
        pymod = name
        autoload = True
    return {"ctx": ctx, "relimp": relimp, "autoload": autoload, "pymod": pymod, "fspath": dotted_fs}


def has_stmt(prog, kind):
    for s in prog:
        if s[0] == kind:
            return True
        if s[0] == "def" and has_stmt(s[3], kind):
            return True
        if s[0] == "defdeco" and has_stmt(s[4], kind):
            return True
        if s[0] == "if" and (has_stmt(s[2], kind) or has_stmt(s[3], kind)):
            return True
        if s[0] == "try" and (has_stmt(s[1], kind) or has_stmt(s[2], kind)):
            return True
    return False


def prepare(case):
    """worker payload of a case"""
    files = {}
    ctxmap = {}
    autoload = []
    use_oracle = True
    for f in case["files"]:
        info = file_info(f["path"])
        files[f["path"]] = render(f["prog"], info["ctx"])
        ctxmap[info["pymod"]] = info["ctx"]
        if info["autoload"]:
            autoload.append((info["ctx"], info["pymod"]))
        if has_stmt(f["prog"], "setctx"):
            use_oracle = False
    autoload.sort()
    fires = [[fr[0], fr[1], ev_name(fr[0], fr[1]), (fr[2] if len(fr) > 2 else {})] for fr in case["fires"]]
    out = {"legacy": case["legacy"], "files": files, "apps": case.get("apps", []), "fires": fires, "oracle": use_oracle,
           "ctxmap": ctxmap, "load_order": [m for _c, m in autoload]}
    if case.get("reload"):
        # the configuration is first started with the OLD sources of the edited files; then they are rewritten and pyscript.reload
        # is called.  `files` (what the Model and the oracle run) are the sources after the edit.
        out["before"] = {pth: render(prog, file_info(pth)["ctx"]) for pth, prog in case["reload"]["before"].items()}
    return out


def q_oval(v):
    k = v[0]
    if k == "i":
        return f"OInt {q.Z(v[1])}"
    if k == "n":
        return "ONone"
    if k == "l":
        return "ONames " + q.lst(q.N(NAME_ID.get(x, 999)) for x in v[1])
    if k == "f":
        return f"OFun {qpath_lenient(v[1])} {q.N(NAME_ID.get(v[2], 999))}"
    if k == "m":
        return f"OMod {qpath_lenient(v[1])}"
    if k == "s":
        return f"OStr {qpath_lenient(v[1])}"
    return "OOther"


def qpath_lenient(dotted):
    return q.lst(q.N(NAME_ID.get(p, 999)) for p in (dotted or "?").split("."))


def q_tables(tables):
    rows = []
    for ctx in sorted(tables):
        tab = tables[ctx]
        ents = q.lst(f"({q.N(NAME_ID.get(k, 998))}, {q_oval(v)})" for k, v in sorted(tab.items()))
        rows.append(f"({qpath_lenient(ctx)}, {ents})")
    return q.lst(rows)


# ------------------------------------------------------------------------------------------------
# generator
# ------------------------------------------------------------------------------------------------
GLOBALS = ["g", "h", "k", "cnt"]


class Gen:
    """Builds one configuration: modules first (acyclic import order), then scripts/apps that use them."""

    def __init__(self, rng):
        self.rng = rng
        self.files = []          # {"path", "prog"}
        self.exports = {}        # module dotted name (absolute, as imported from a script) -> {"ints": [...], "funcs": [...]}
        self.fires = []
        self.apps = []

    # -- function bodies that touch the defining file's globals
    def func_defs(self, ints, callees, allow_task=True, importable=()):
        """-> list of def statements; callees = list of crefs callable from inside the bodies"""
        rng = self.rng
        defs = []
        kinds = rng.sample(["bump", "setg", "get", "boom", "loc", "early", "chain", "tsk"], rng.randint(2, 5))
        if importable and rng.random() < 0.35:
            kinds.append("imp")
        if rng.random() < 0.3:
            kinds.append("q1")
        names = []
        # a bare imported name that this file also defines resolves to the file's own function at call time: never call it
        # from a body (the own call graph must stay acyclic - only earlier own functions are called)
        callees = [c for c in callees if not (c[0] == "n" and c[1] in kinds)]
        for kd in kinds:
            a, b = rng.choice(ints), rng.choice(ints)
            if kd == "bump":
                body, gl = [["assign", a, ["add", a, 1]]], [a]
            elif kd == "setg":
                body, gl = [["assign", a, ["add", b, 3]]], [a]
            elif kd == "get":
                body, gl = [["return", ["name", a]]], []
            elif kd == "boom":
                body, gl = [["assign", a, ["add", a, 10]], ["raise"], ["assign", a, ["lit", 0]]], [a]
            elif kd == "loc":
                body, gl = [["assign", "t", ["add", b, 2]], ["assign", a, ["name", "t"]]], [a]
            elif kd == "early":
                body = [["if", ["name", b], [["assign", a, ["add", a, 5]], ["return", ["name", b]]], []], ["assign", a, ["add", a, 7]]]
                gl = [a]
            elif kd == "chain":
                tgt = rng.choice(callees + [["n", n] for n in names]) if (callees or names) else None
                if tgt is None:
                    continue
                inner = ["call", None, tgt]
                if rng.random() < 0.5:
                    inner = ["try", [inner], [["assign", b, ["add", b, 100]]]]
                    gl = [a, b]
                else:
                    gl = [a]
                body = [["assign", a, ["add", a, 20]], inner, ["assign", a, ["add", a, 1]]]
            elif kd == "q1":
                body, gl = [["assign", a, ["add", a, 50]]], [a]     # never runs: every generated call of q1 fails to bind
            elif kd == "imp":
                # an import executed inside a function body: binds a local, and the importer is the *defining* context
                m = rng.choice(list(importable))
                src = rng.choice(self.exports[m]["ints"])
                if rng.random() < 0.5:
                    body, gl = [["import", m, "lm"], ["assign", a, ["attr", "lm", src]]], [a]
                else:
                    body, gl = [["from", m, 0, [[src, "u"]]], ["assign", a, ["add", "u", 1]]], [a]
            else:  # tsk
                tgt = rng.choice(callees + [["n", n] for n in names]) if (callees or names) else None
                if tgt is None or not allow_task:
                    continue
                body, gl = [["task", tgt], ["assign", a, ["add", a, 2]]], [a]
            if rng.random() < 0.08 and gl:
                gl = []      # forgot `global`: the write is local (UnboundLocalError when it also reads the name)
            defs.append(["def", kd, gl, body, False])
            names.append(kd)
        return defs, names

    def int_inits(self, ints):
        return [["assign", n, ["lit", self.rng.randint(0, 9)]] for n in ints]

    def pick_ints(self):
        rng = self.rng
        n = rng.randint(2, 4)
        return rng.sample(GLOBALS, n)

    # -- modules
    def make_module(self, path, absname, importable, rel_imports=None, extra_top=None, force=()):
        """importable: list of absolute module names this module may import (already generated)."""
        rng = self.rng
        ints = self.pick_ints()
        prog = self.int_inits(ints)
        callees = []
        for st, crefs in (rel_imports or []):
            prog.append(st)
            callees += crefs
        for m in importable:
            if rng.random() < 0.5 or m in force:
                st, crefs, _ = self.import_stmt(m, alias_pool=["ma", "mb"])
                prog.append(st)
                callees += crefs
        if rng.random() < 0.3:
            prog.append(["assign", rng.choice(["_u", "_v"]), ["lit", rng.randint(1, 9)]])
        defs, names = self.func_defs(ints, callees, importable=[m for m in importable if "." not in m])
        prog += defs
        if rng.random() < 0.3:
            # a user decorator: returns a fresh function defined HERE, which works on this module's globals
            x, y = rng.choice(ints), rng.choice(ints)
            inner = [["assign", x, ["add", x, 1]], ["assign", y, ["add", x, 7]], ["assign", "cx", ["ctx"]]]
            if rng.random() < 0.3:
                inner.append(["return", ["name", y]])
            prog.append(["def", "w1", [], [["def", "inner", sorted({x, y, "cx"}), inner, False], ["return", ["name", "inner"]]], False])
            names = names + ["w1"]
        if rng.random() < 0.12:
            al = rng.sample(ints + names, rng.randint(1, min(3, len(ints + names))))
            prog.append(["assign", "__all__", ["names", al]])
        if extra_top:
            prog += extra_top
        if rng.random() < 0.06:
            prog.append(["raise"])       # a module whose load fails
        self.files.append({"path": path, "prog": prog})
        self.exports[absname] = {"ints": ints, "funcs": names}

    def import_stmt(self, m, alias_pool, level=0, relname=None):
        """-> (stmt, crefs made callable, names bound)"""
        rng = self.rng
        ex = self.exports[m]
        shown = relname if level else m
        r = rng.random()
        if "." in shown and level == 0:
            r = 0.5   # absolute dotted: not generated (see notes); callers avoid this
        if r < 0.35 and "." not in shown:
            if level:
                alias = shown if rng.random() < 0.7 else rng.choice(alias_pool)
                return ["fromdot", level, [[shown, alias]]], [["a", alias, f] for f in ex["funcs"]], [alias]
            alias = shown if rng.random() < 0.5 else rng.choice(alias_pool)
            return ["import", shown, alias], [["a", alias, f] for f in ex["funcs"]], [alias]
        if r < 0.8:
            pool = ex["funcs"] + ex["ints"]
            picks = rng.sample(pool, rng.randint(1, min(3, len(pool))))
            items = []
            crefs = []
            for p in picks:
                b = p
                if rng.random() < 0.25 and p not in QFUNCS + WFUNCS:
                    b = rng.choice(["fa", "fb", "fc", "fd"])
                items.append([p, b])
                if p in ex["funcs"]:
                    crefs.append(["n", b])
            if rng.random() < 0.05:
                items.append(["z", "z"])      # a name the module does not define
            return ["from", shown, level, items], crefs, [b for _p, b in items]
        return ["star", shown, level], [["n", f] for f in ex["funcs"]], list(ex["funcs"]) + list(ex["ints"])

    # -- scripts and apps
    def make_script(self, path, importable, rel_imports=None, setctx_targets=None, force=()):
        rng = self.rng
        info = file_info(path)
        ints = self.pick_ints()
        prog = self.int_inits(ints)
        callees = []
        own_defs, own_names = self.func_defs(ints, [], allow_task=True, importable=[m for m in importable if "." not in m])
        pending = []
        unsafe = set()      # aliases that may stay undefined: `alias.x = v` would then be a pyscript state-variable write
        for st, crefs in (rel_imports or []):
            pending.append((st, crefs))
        for m in importable:
            if rng.random() < 0.75 or m in force:
                st, crefs, _ = self.import_stmt(m, alias_pool=["ma", "mb", "mc", "md"])
                if rng.random() < 0.15:
                    st = ["try", [st], [["assign", "e2", ["lit", 1]]]]
                    unsafe.update(c[1] for c in crefs if c[0] == "a")
                pending.append((st, crefs))
                if rng.random() < 0.2:       # import the same module a second time in another form
                    st2, crefs2, _ = self.import_stmt(m, alias_pool=["mc", "md"])
                    pending.append((st2, crefs2))
        # interleave: imports, own defs, then actions
        for st, crefs in pending:
            prog.append(st)
            callees += crefs
        if rng.random() < 0.5:
            # re-initialise some globals after a star import may have overwritten them
            prog += [["assign", n, ["lit", rng.randint(0, 9)]] for n in rng.sample(ints, 1)]
        prog += own_defs
        own = [["n", n] for n in own_names]
        decos = [c for c in callees if c[-1] in WFUNCS]
        callees = [c for c in callees if c[-1] not in WFUNCS or rng.random() < 0.2]     # a bare w1() call is just a TypeError
        if decos:
            # a function of THIS file wrapped by a decorator imported from a module: what the name is bound to is the module's
            # wrapper; it is called directly from this file's code (module level, functions, triggers, tasks) like any own function
            x = rng.choice(ints)
            prog.append(["defdeco", "f2", rng.choice(decos), [x], [["assign", x, ["add", x, 300]]], False])
            own.append(["n", "f2"])
            own.append(["n", "f2"])
        # a function that calls into other files, wrapped in try/except
        if callees:
            body = []
            for _ in range(rng.randint(1, 3)):
                c = rng.choice(callees + [x for x in own if x == ["n", "f2"]])
                st = ["call", rng.choice([None, "r", "last"]), c]
                if st[1]:
                    pass
                if rng.random() < 0.6:
                    st = ["try", [st], [["assign", "e1", ["add", "e1", 1]]]]
                body.append(st)
                if rng.random() < 0.35:
                    # a cross-file call whose arguments cannot be bound, caught by the caller, then the caller's own globals
                    a = rng.choice(ints)
                    body += [["try", [["callbad", rng.choice(callees)]], [["assign", "e1", ["add", "e1", 1]]]],
                             ["assign", a, ["add", a, 1]], ["assign", "cx", ["ctx"]]]
            gl = ["r", "last", "e1", "cx"] + ints
            prog.append(["assign", "e1", ["lit", 0]])
            prog.append(["def", "f1", gl, body, False])
            own.append(["n", "f1"])
        # trigger functions
        ntrig = rng.choice([0, 1, 1, 2])
        for i in range(ntrig):
            tname = ["tf", "tg"][i]
            body = []
            pool = callees + own
            for _ in range(rng.randint(1, 3)):
                c = rng.choice(pool) if pool else None
                if c is None:
                    break
                kind = rng.random()
                if kind < 0.15 and callees:
                    body += [["try", [["callbad", rng.choice(callees)]], [["assign", "x", ["add", "x", 1]]]], ["assign", "cx", ["ctx"]]]
                    continue
                if kind < 0.25:
                    st = ["task", c]
                else:
                    st = ["call", None, c]
                    if rng.random() < 0.5:
                        st = ["try", [st], [["assign", "x", ["add", "x", 1]]]]
                body.append(st)
            a = rng.choice(ints)
            body.append(["assign", a, ["add", a, 1000]])
            prog.append(["assign", "x", ["lit", 0]])
            prog.append(["def", tname, [a, "x", "cx"], body, True])
            self.fires.append([info["ctx"], tname])
        # top-level actions
        mods = [c for c in callees if c[0] == "a"]
        for _ in range(rng.randint(2, 6)):
            r = rng.random()
            pool = callees + own
            if r < 0.45 and pool:
                c = rng.choice(pool)
                st = ["call", rng.choice([None, None, "y"]), c]
                if rng.random() < 0.55:
                    st = ["try", [st], [["assign", "z", ["lit", 1]]]]
                prog.append(st)
            elif r < 0.6 and pool:
                prog.append(["task", rng.choice(pool)])
            elif r < 0.75 and mods:
                m = rng.choice(mods)[1]
                prog.append(["assign", rng.choice(ints + ["y"]), ["attr", m, rng.choice(GLOBALS)]])
            elif r < 0.83 and [c for c in mods if c[1] not in unsafe]:
                m = rng.choice([c for c in mods if c[1] not in unsafe])[1]
                prog.append(["attrassign", m, rng.choice(GLOBALS), ["lit", rng.randint(50, 59)]])
            elif r < 0.86 and callees:
                a = rng.choice(ints)
                prog += [["try", [["callbad", rng.choice(callees)]], [["assign", "z", ["lit", 2]]]],
                         ["assign", a, ["add", a, 1]], ["assign", "cy", ["ctx"]]]
            elif r < 0.9:
                a = rng.choice(ints)
                prog.append(["assign", a, ["add", rng.choice(GLOBALS), 1]])     # may read a name this file never defined
            elif r < 0.94:
                prog.append(["call", None, ["n", rng.choice(["bump", "get", "helper", "f3"])]])   # likely undefined here
            elif setctx_targets and r < 0.97:
                prog.append(["setctx", rng.choice(setctx_targets)])
                prog.append(["assign", rng.choice(GLOBALS), ["lit", 77]])
        if rng.random() < 0.05:
            prog.append(["raise"])
        self.files.append({"path": path, "prog": prog})


def gen_case(rng, with_setctx=False):
    g = Gen(rng)
    layout = rng.choice(["flat", "flat", "pkg", "pkg", "pkg", "app", "mixed"])
    mods = []
    if layout in ("flat", "mixed", "app") or rng.random() < 0.4:
        if rng.random() < 0.6:
            g.make_module("modules/m2.py", "m2", [])
            mods.append("m2")
        g.make_module("modules/m1.py", "m1", list(mods))
        mods.append("m1")
    if layout in ("pkg", "mixed"):
        # package with members; `othn` is imported relatively by `sibn` (and possibly by __init__).  Member names are drawn from a
        # pool that overlaps with the package's own name, with top-level modules and with app names: context names are built from
        # these components, so equal components at different levels must not confuse the resolution of relative imports
        sibn = rng.choice(["sib", "sib", "sib", "pkg", "pkg", "m1", "helper"])
        othn = rng.choice([n for n in ["other", "other", "other", "m2", "app1", "pkg"] if n != sibn])
        g.make_module(f"modules/pkg/{othn}.py", "pkg." + othn, [m for m in mods if rng.random() < 0.3])
        sib_rel = []
        if rng.random() < 0.6:
            st, crefs, _ = g.import_stmt("pkg." + othn, ["ma", "mb"], level=1, relname=othn)
            sib_rel.append((st, crefs))
        g.make_module(f"modules/pkg/{sibn}.py", "pkg." + sibn, [], rel_imports=sib_rel)
        init_rel = []
        order = [sibn, othn] if rng.random() < 0.5 else [othn, sibn]
        for nm in order:
            # whatever a sibling imports relatively is imported by __init__ too: CPython binds an imported submodule as an
            # attribute of its parent package, which pyscript (legitimately) does not; an explicit import makes both agree
            if rng.random() < 0.75 or (nm == othn and sib_rel):
                # `from . import nm` first, then possibly `from .nm import ...`
                init_rel.append((["fromdot", 1, [[nm, nm]]], [["a", nm, f] for f in g.exports["pkg." + nm]["funcs"]]))
                if rng.random() < 0.5:
                    st, crefs, _ = g.import_stmt("pkg." + nm, ["ma", "mb"], level=1, relname=nm)
                    if st[0] != "fromdot":
                        init_rel.append((st, crefs))
        if rng.random() < 0.1:
            init_rel.append((["fromdot", 2, [["m1", "m1"]]], []))     # above the top-level package
        g.make_module("modules/pkg/__init__.py", "pkg", [m for m in mods if rng.random() < 0.4], rel_imports=init_rel)
        mods.append("pkg")
    scripts = []
    if layout in ("app", "mixed") or rng.random() < 0.15:
        hn = rng.choice(["helper", "helper", "app1", "m1"])       # an app member may be named like the app or like a module
        g.make_module(f"apps/app1/{hn}.py", "app1." + hn, [m for m in mods if rng.random() < 0.5])
        rel = [(["fromdot", 1, [[hn, hn]]], [["a", hn, f] for f in g.exports["app1." + hn]["funcs"]])]
        if rng.random() < 0.5:
            st, crefs, _ = g.import_stmt("app1." + hn, ["ma"], level=1, relname=hn)
            if st[0] != "fromdot":
                rel.append((st, crefs))
        g.make_script("apps/app1/__init__.py", [m for m in mods if "." not in m], rel_imports=rel)
        g.apps.append("app1")
        scripts.append("apps/app1/__init__.py")
    nscripts = rng.choice([1, 2, 2, 3]) if not scripts else rng.choice([1, 1, 2])
    names = rng.sample(["a.py", "b.py", "c.py", "scripts/s1.py"], nscripts)
    targets = None
    for nm in sorted(names):
        if with_setctx:
            targets = [file_info(f["path"])["ctx"] for f in g.files if file_info(f["path"])["autoload"]] + ["modules." + m for m in mods] + ["file.nonexistent"]
        g.make_script(nm, [m for m in mods if "." not in m] or [], setctx_targets=targets)
    rng.shuffle(g.fires)
    fires = g.fires + ([rng.choice(g.fires)] if g.fires and rng.random() < 0.3 else [])
    return {"legacy": rng.random() < 0.5, "files": g.files, "apps": g.apps, "fires": fires}


NAME_ID.setdefault("nonexistent", 399)


def _bump_literals(prog, delta):
    """the edit of a reload scenario: every top-level integer initialisation gets another value"""
    out = []
    for st in prog:
        if st[0] == "assign" and st[2][0] == "lit":
            out.append(["assign", st[1], ["lit", st[2][1] + delta]])
        else:
            out.append(st)
    return out


def gen_reload_case(rng):
    """import chain of depth 2-3 (m1 -> m2 -> m3, scripts importing different links of it); after the start the deepest module
    is edited and pyscript.reload is called: every direct and indirect importer must be re-executed against ONE new instance, so
    the final tables must be those of a fresh start on the edited sources (scripts importing nothing keep their state)."""
    g = Gen(rng)
    depth3 = rng.random() < 0.6
    g.make_module("modules/m3.py", "m3", [])
    g.make_module("modules/m2.py", "m2", ["m3"], force=("m3",))
    chain = ["m3", "m2"]
    if depth3:
        g.make_module("modules/m1.py", "m1", ["m2"], force=("m2",))
        chain.append("m1")
    top = chain[-1]
    names = rng.sample(["a.py", "b.py", "c.py", "scripts/s1.py"], rng.choice([2, 3, 3]))
    for i, nm in enumerate(sorted(names)):
        if i == 0:
            g.make_script(nm, [top], force=(top,))                 # reaches m3 only through the chain
        elif i == 1:
            g.make_script(nm, ["m3"] + ([rng.choice(chain[1:])] if rng.random() < 0.4 else []), force=("m3",))
        else:
            g.make_script(nm, [], force=())                        # imports nothing: must not be touched by the reload
    before = {}
    for f in g.files:
        if f["path"] == "modules/m3.py":
            before[f["path"]] = f["prog"]
            f["prog"] = _bump_literals(f["prog"], rng.choice([3, 7, 11]))
    rng.shuffle(g.fires)
    return {"legacy": rng.random() < 0.5, "files": g.files, "apps": [], "fires": g.fires, "reload": {"before": before}}


def gen_deco_case(rng):
    """trigger expressions (event filter / @state_active / @state_trigger strings) that read a global name defined differently
    in several files, on a function wrapped by a user decorator imported from a module; plus an undecorated twin"""
    lo, hi = rng.choice([(5, 100), (100, 5), (20, 60)])
    files = []
    mod_ints = rng.sample(GLOBALS, 2)
    a, b = mod_ints
    inner_body = [["assign", a, ["add", a, 1]], ["assign", b, ["add", "thresh", 1000]]]
    if rng.random() < 0.3:
        inner_body.append(["assign", "cx", ["ctx"]])
    m1 = [["assign", "thresh", ["lit", hi]]] + [["assign", n, ["lit", rng.randint(0, 9)]] for n in mod_ints] + [
        ["def", "w1", [], [["def", "inner", sorted({a, b, "cx"}), inner_body, False], ["return", ["name", "inner"]]], False]]
    files.append({"path": "modules/m1.py", "prog": m1})
    fires = []
    scripts = rng.sample(["a.py", "b.py", "scripts/s1.py"], rng.choice([1, 2]))
    for nm in sorted(scripts):
        info = file_info(nm)
        th = lo if nm == sorted(scripts)[0] else rng.choice([lo, hi, 50])
        ints = rng.sample(GLOBALS, 2)
        prog = [["assign", "thresh", ["lit", th]]] + [["assign", n, ["lit", rng.randint(0, 9)]] for n in ints]
        if rng.random() < 0.5:
            prog.append(["from", "m1", 0, [["w1", "w1"]]])
            deco = ["n", "w1"]
        else:
            alias = rng.choice(["m1", "ma"])
            prog.append(["import", "m1", alias])
            deco = ["a", alias, "w1"]
        for tname, wrapped in (("tf", True), ("tg", False)):
            kind = rng.choice(["event", "active", "state"])
            v = rng.choice([min(lo, hi) - 2, (lo + hi) // 2, max(lo, hi) + 3])
            trig = {"kind": kind, "v": v, "g": "thresh"}
            x = rng.choice(ints)
            body = [["assign", x, ["add", x, 1]], ["assign", "y", ["add", "thresh", 2000]]]
            if wrapped:
                prog.append(["defdeco", tname, deco, [x, "y"], body, trig])
            else:
                prog.append(["def", tname, [x, "y"], body, trig])
            fires.append([info["ctx"], tname, {"kind": kind, "v": v, "g": "thresh"}])
        # the wrapped function is also called directly from the decorating file's own code
        if rng.random() < 0.8:
            prog += [["call", rng.choice([None, "r"]), ["n", "tf"]], ["assign", "cy", ["ctx"]]]
        if rng.random() < 0.6:
            x = rng.choice(ints)
            prog.append(["def", "f1", [x, "cx", "r"], [["call", "r", ["n", "tf"]], ["call", None, ["n", "tg"]],
                                                        ["assign", x, ["add", x, 10]], ["assign", "cx", ["ctx"]]], False])
            prog.append(rng.choice([["call", None, ["n", "f1"]], ["task", ["n", "f1"]]]))
        files.append({"path": nm, "prog": prog})
    rng.shuffle(fires)
    return {"legacy": rng.random() < 0.6, "files": files, "apps": [], "fires": fires}


def gen_overlap_case(rng):
    """two (or three) overlapping runs of one trigger function that call - and sleep inside - functions of another file; every
    effect is an increment, so the final tables do not depend on the interleaving; gaps/sleeps are drawn so that both orders of
    suspension occur (run 1 asleep in the module while run 2 is in the script's code, and the reverse)"""
    S = [0.3, 0.5, 1.0, 1.5]
    mints = rng.sample(GLOBALS, 3)

    def incs(names, n):
        return [["assign", x, ["add", x, rng.randint(1, 9)]] for x in (rng.choice(names) for _ in range(n))]

    def with_gl(name, body):
        gl = sorted({st[1] for st in body if st[0] == "assign"})
        return ["def", name, gl, body, False]

    slow = incs(mints, 1) + [["sleep", rng.choice(S)]] + incs(mints, 2) + ([["sleep", rng.choice(S)]] + incs(mints, 1) if rng.random() < 0.5 else [])
    quick = incs(mints, 2)
    m1 = [["assign", n, ["lit", rng.randint(0, 9)]] for n in GLOBALS] + [with_gl("slow", slow), with_gl("quick", quick)]
    files = [{"path": "modules/m1.py", "prog": m1}]
    fires = []
    for nm in sorted(rng.sample(["a.py", "b.py"], rng.choice([1, 2]))):
        info = file_info(nm)
        prog = [["assign", n, ["lit", rng.randint(10, 19)]] for n in GLOBALS]
        if rng.random() < 0.5:
            prog.append(["import", "m1", "m1"])
            cs, cq = ["a", "m1", "slow"], ["a", "m1", "quick"]
        else:
            prog.append(["from", "m1", 0, [["slow", "slow"], ["quick", "fa"]]])
            cs, cq = ["n", "slow"], ["n", "fa"]
        body = []
        for _ in range(rng.randint(3, 6)):
            r = rng.random()
            if r < 0.35:
                body += incs(GLOBALS, 1)
            elif r < 0.6:
                body.append(["call", None, cs])
            elif r < 0.75:
                body.append(["call", None, cq])
            else:
                body.append(["sleep", rng.choice(S)])
        if not any(st == ["call", None, cs] for st in body):
            body.insert(rng.randint(0, len(body)), ["call", None, cs])
        body += incs(GLOBALS, 1)
        prog.append(["def", "tf", sorted({st[1] for st in body if st[0] == "assign"}), body, True])
        files.append({"path": nm, "prog": prog})
        for _ in range(rng.choice([2, 2, 3])):
            fires.append([info["ctx"], "tf", {"gap": rng.choice([0.2, 0.4, 0.8, 1.2, 2.0])}])
    rng.shuffle(fires)
    fires[-1][2]["gap"] = 30.0
    return {"legacy": rng.random() < 0.4, "files": files, "apps": [], "fires": fires}


def gen_setctx_case(rng):
    """pyscript.set_global_ctx executed at call depth 0..3 of a chain of functions of one file (started from module level, from
    a trigger or from a created task), followed on the way back by local and global reads/writes at every level"""
    depth = rng.choice([0, 1, 2, 3])
    start = rng.choice(["module", "trigger", "task"])
    use_mod = rng.random() < 0.5
    files = []
    if use_mod:
        files.append({"path": "modules/m1.py", "prog": [["assign", n, ["lit", rng.randint(10, 19)]] for n in GLOBALS] +
                      [["def", "bump", ["cnt"], [["assign", "cnt", ["add", "cnt", 1]]], False]]})
    files.append({"path": "a.py", "prog": [["assign", n, ["lit", rng.randint(20, 29)]] for n in GLOBALS] +
                  ([["import", "m1", "m1"]] if use_mod and rng.random() < 0.7 else [])})
    target = rng.choice(["file.a"] + (["modules.m1"] if use_mod else []) + (["file.nonexistent"] if rng.random() < 0.1 else []))
    sw = ["setctx", target]

    def level(k, nxt):
        """body of the function running at call depth k (1..3); nxt = name of the function it calls (or None)"""
        a, b = rng.choice(GLOBALS), rng.choice(GLOBALS)
        body = [["assign", "t", ["lit", 10 * k]]]
        if depth == k:
            body.append(sw)
        if nxt:
            body.append(["call", rng.choice([None, "u"]), ["n", nxt]] if rng.random() < 0.7 else ["try", [["call", None, ["n", nxt]]], [["assign", "t", ["add", "t", 500]]]])
        body += [["assign", "t", ["add", "t", 1]], ["assign", a, ["name", "t"]], ["assign", "u", ["add", b, 1]], ["assign", b, ["add", "u", 100]],
                 ["assign", rng.choice(["cx", "cy"]), ["ctx"]]]
        if rng.random() < 0.3:
            body.append(["return", ["name", "t"]])
        if rng.random() < 0.15:
            body.append(["raise"])
        return ["def", {1: "f1", 2: "f2", 3: "f3"}[k], sorted({a, b, "cx", "cy"}), body, False]

    prog = [["assign", n, ["lit", rng.randint(0, 9)]] for n in GLOBALS]
    if use_mod and rng.random() < 0.5:
        prog.append(["from", "m1", 0, [["bump", "bump"]]])
    prog += [level(3, None), level(2, "f3"), level(1, "f2")]
    fires = []
    run = []
    if depth == 0:
        run.append(sw)
    entry = rng.choice(["f1", "f1", "f2"])
    if start == "module":
        run.append(["call", None, ["n", entry]] if rng.random() < 0.6 else ["try", [["call", None, ["n", entry]]], [["assign", "z", ["lit", 1]]]])
    elif start == "task":
        run.append(["task", ["n", entry]])
    else:
        a = rng.choice(GLOBALS)
        prog.append(["def", "tf", [a, "cx"], ([sw] if depth == 0 else []) + [["assign", "t", ["lit", 1]], ["call", None, ["n", entry]],
                                              ["assign", "t", ["add", "t", 1]], ["assign", a, ["add", a, 1000]], ["assign", "cx", ["ctx"]]], True])
        fires.append(["file.b", "tf"])
        run = []
    a = rng.choice(GLOBALS)
    run += [["assign", a, ["add", a, 1]], ["assign", "y", ["name", rng.choice(GLOBALS)]], ["assign", "cy", ["ctx"]]]
    if rng.random() < 0.3 and use_mod:
        run.append(["call", None, ["n", "bump"]])
    files.append({"path": "b.py", "prog": prog + run})
    if rng.random() < 0.5:
        files.append({"path": "c.py", "prog": [["assign", n, ["lit", rng.randint(30, 39)]] for n in GLOBALS] + [["assign", "cy", ["ctx"]]]})
    return {"legacy": rng.random() < 0.5, "files": files, "apps": [], "fires": fires + (fires if rng.random() < 0.3 else [])}


# ---- static validation of a generated configuration: the property's quantifier is about acyclic import edges and
# ---- terminating programs, so a configuration with an import cycle or a recursive call cycle is never emitted
def _walk(prog, fn, in_def=None):
    for s in prog:
        fn(s, in_def)
        k = s[0]
        if k == "def":
            _walk(s[3], fn, s[1])
        elif k == "defdeco":
            _walk(s[4], fn, s[1])
        elif k == "if":
            _walk(s[2], fn, in_def)
            _walk(s[3], fn, in_def)
        elif k == "try":
            _walk(s[1], fn, in_def)
            _walk(s[2], fn, in_def)


def _has_cycle(graph):
    state = {}

    def visit(n):
        if state.get(n) == 1:
            return True
        if state.get(n) == 2:
            return False
        state[n] = 1
        for m in graph.get(n, ()):
            if visit(m):
                return True
        state[n] = 2
        return False

    return any(visit(n) for n in list(graph))


def static_ok(case):
    """no cycle in the import graph (every import statement, also inside function bodies, absolute or relative) and no
    cycle in any file's own call graph (calls by bare name to functions the file defines)"""
    ctx_of_file = {}
    for f in case["files"]:
        info = file_info(f["path"])
        ctx_of_file[f["path"]] = info
    known = {info["ctx"] for info in ctx_of_file.values()}
    imports = {}
    for f in case["files"]:
        info = ctx_of_file[f["path"]]
        me = info["ctx"]
        parts = me.split(".")
        pkg = parts if info["relimp"] else parts[:-1]       # package of this file (conformant naming)
        edges = set()

        def imp(s, _d, edges=edges, pkg=pkg):
            k = s[0]
            targets = []
            if k == "import":
                targets = [(s[1], 0)]
            elif k in ("from", "star"):
                targets = [(s[1], s[2])]
            elif k == "fromdot":
                targets = [(n, s[1]) for n, _b in s[2]]
            for name, level in targets:
                if level == 0:
                    for root in ("apps", "modules"):
                        edges.add(root + "." + name)
                else:
                    base = pkg[: len(pkg) - (level - 1)] if level - 1 <= len(pkg) else []
                    edges.add(".".join(base + [name]))
                    edges.add(me + "." + name)            # the name the unchanged code derives (D110)

        _walk(f["prog"], imp)
        imports[me] = {e for e in edges if e in known}
        defs = {s[1] for s in f["prog"] if s[0] == "def"}
        calls = {}

        def call(s, d, calls=calls, defs=defs):
            c = s[2] if s[0] == "call" else s[1] if s[0] == "task" else None
            if c is not None and d is not None and c[0] == "n" and c[1] in defs:
                calls.setdefault(d, set()).add(c[1])

        _walk(f["prog"], call)
        if _has_cycle(calls):
            return False
    return not _has_cycle(imports)


def fixed_cases():
    """small hand-written configurations run on every check (both subsystems)"""
    inc = lambda a: ["assign", a, ["add", a, 1]]
    m1 = [["assign", "g", ["lit", 100]], ["assign", "cnt", ["lit", 0]], ["assign", "_u", ["lit", 5]],
          ["def", "bump", ["cnt"], [inc("cnt")], False],
          ["def", "get", [], [["return", ["name", "g"]]], False],
          ["def", "boom", ["cnt"], [["assign", "cnt", ["add", "cnt", 10]], ["raise"]], False]]
    a = [["assign", "g", ["lit", 1]], ["assign", "cnt", ["lit", 7]], ["import", "m1", "m1"],
         ["from", "m1", 0, [["get", "get"], ["boom", "fb"]]],
         ["call", "y", ["n", "get"]],
         ["try", [["call", None, ["n", "fb"]]], [["assign", "z", ["lit", 1]]]],
         ["assign", "h", ["add", "g", 1]],
         ["def", "tf", ["g"], [["call", None, ["a", "m1", "bump"]], ["try", [["call", None, ["n", "fb"]]], []], inc("g")], True],
         ["task", ["a", "m1", "bump"]]]
    b = [["assign", "g", ["lit", 2]], ["star", "m1", 0], ["assign", "k", ["name", "g"]], ["call", None, ["n", "bump"]],
         ["def", "loc", ["k"], [["assign", "k", ["add", "k", 100]]], False], ["task", ["n", "loc"]], ["task", ["n", "bump"]]]
    out = []
    for legacy in (False, True):
        out.append({"legacy": legacy, "files": [{"path": "modules/m1.py", "prog": m1}, {"path": "a.py", "prog": a}, {"path": "b.py", "prog": b}],
                    "apps": [], "fires": [["file.a", "tf"], ["file.a", "tf"]]})
    return out


class CtxStream(Stream):
    name = "ctx"
    rule = ("generated configurations of 2-6 real files (pyscript/{a,b,c}.py, scripts/s1.py, modules/m1.py, modules/m2.py, "
            "modules/pkg/{__init__,sib,other}.py, apps/app1/{__init__,helper}.py with app config) whose globals come from one small "
            "overlapping name pool; every import form (import m [as], from m import f [as], from m import *, from . import x, "
            "from .x import f, repeated imports of one module from several files, imports that fail, a module that raises while "
            "loading, __all__), functions that read/write their own file's globals called across files directly, through module "
            "attributes, from try/except around raising callees, from @event_trigger functions (events fired by the driver) and from "
            "task.create; a small share uses pyscript.set_global_ctx (model tie only); both decorator subsystems. After the run the "
            "global tables of all registered contexts are compared with the Model and with CPython importing the same sources. "
            "non-trivial = at least one cross-file call and two contexts sharing a global name; distinct by file contents")
    requires = "From PV Require Import Interp.Ctx Interp.CtxCheck."
    case_type = "ccase"
    check_model = "ccase_model_ok pv_cfg"
    check_spec = "ccase_spec_ok"
    attrib = "ccase_attrib pv_cfg"
    explain = "ccase_explain pv_cfg"
    shard_size = 25

    def budget(self, tier):
        return 180 if tier == "quick" else 3000

    def generate(self, ctx, budget, focus=None):
        rng = ctx.rng
        cases = fixed_cases()
        while len(cases) < budget:
            r = rng.random()
            if r < 0.12:
                c = gen_setctx_case(rng)
            elif r < 0.24:
                c = gen_reload_case(rng)
            elif r < 0.36:
                c = gen_deco_case(rng)
            elif r < 0.46:
                c = gen_overlap_case(rng)
            else:
                c = gen_case(rng, with_setctx=rng.random() < 0.08)
            if static_ok(c):
                cases.append(c)
        return cases

    def run_impl(self, ctx, cases):
        payloads = [prepare(c) for c in cases]
        chunks = split_chunks(payloads, 8)
        res = run_workers_parallel(ctx, "vh.workers.c11_ctx", [{"cases": c} for c in chunks])
        return [o for r in res for o in r]

    def prelude(self, ctx, findings, witness_terms):
        return cfg_prelude([("d_rel_sibling", "D110"), ("d_star_all", "D111")], findings, witness_terms, "ccase_spec_ok")

    def to_coq(self, case, obs):
        fs = []
        ops = []
        auto = []
        for f in case["files"]:
            info = file_info(f["path"])
            prog = c_block(f["prog"])
            top = f["path"].split("/")[0]
            if top in ("modules", "apps") and "/" in f["path"]:
                fs.append(f"({qpath(info['fspath'])}, {prog})")
            if info["autoload"]:
                rel = q.option(qpath(info["relimp"].replace("/", ".")) if info["relimp"] else None)
                auto.append((info["ctx"], f"OpLoad {qpath(info['ctx'])} {rel} {prog}"))
        auto.sort()
        ops = [t for _c, t in auto]
        for fr in case["fires"]:
            opts = fr[2] if len(fr) > 2 else {}
            if opts.get("g"):
                ops.append(f"OpTrigIf {qpath(fr[0])} {q.N(nid(fr[1]))} {q.N(nid(opts['g']))} {q.Z(opts['v'])}")
            else:
                ops.append(f"OpTrig {qpath(fr[0])} {q.N(nid(fr[1]))}")
        oracle = q.option(q_tables(obs["oracle"]) if obs.get("oracle") is not None else None)
        return "{| cc_fs := %s; cc_ops := %s; cc_obs := %s; cc_oracle := %s; cc_locals := %s |}" % (
            q.lst(fs), q.lst(ops), q_tables(obs["tables"]), oracle, q.lst(q.N(nid(x)) for x in LOCAL_ONLY))

    def nontrivial(self, case, obs):
        tabs = obs.get("tables", {})
        shared = False
        names = {}
        for c, t in tabs.items():
            for k, v in t.items():
                if v[0] == "i":
                    names.setdefault(k, set()).add(c)
        shared = any(len(s) >= 2 for s in names.values())
        cross = any(v[0] == "f" and v[1] != c for c, t in tabs.items() for v in t.values()) or \
            any(v[0] == "m" for t in tabs.values() for v in t.values())
        return shared and cross

    def kind(self, case, obs):
        paths = [f["path"] for f in case["files"]]
        lay = ("pkg" if any(p.startswith("modules/pkg") for p in paths) else "") + ("app" if case.get("apps") else "") + \
              ("flat" if any(p in ("modules/m1.py",) for p in paths) else "")
        tags = []
        for kd in ("star", "fromdot", "task", "setctx", "defdeco", "sleep", "callbad"):
            if any(has_stmt(f["prog"], kd) for f in case["files"]):
                tags.append(kd)
        if case.get("reload"):
            tags.append("reload")
        return f"{'legacy' if case['legacy'] else 'default'}/{lay or 'none'}/{len(paths)}files/{'+'.join(tags)}/fires{len(case['fires'])}"

    def describe(self, case, obs):
        return {"legacy": case["legacy"], "sources": {f["path"]: render(f["prog"], file_info(f["path"])["ctx"]) for f in case["files"]},
                "fires": case["fires"], "pyscript_tables": obs.get("tables"), "cpython_tables": obs.get("oracle"),
                "dup_module_objects": obs.get("dup_module_objects"), "errors": obs.get("errors"), "hang": obs.get("hang", False)}


class C11(Prop):
    id = "C11"
    title = "Each file has an isolated global context; modules are shared singletons"
    coq_targets = ["Properties/C11.vo"]
    property_file = "Properties/C11.v"
    streams = [CtxStream()]
    trusted_base = [
        "modelled, not verified: eval.py EvalFunc.call pointer switch/restore, ast_name/recurse_assign name resolution, ast_import/"
        "ast_importfrom binding, set_global_ctx; global_ctx.py module_import candidate list + lookup-before-load + registration, "
        "load_file (Interp/Ctx.v); argument binding, closures, classes and every expression form beyond int literals/names/"
        "name+literal/module attributes are outside the model's language",
        "Python dict aliasing is modelled by context ids for global tables and by value for local frames (sound without closures)",
        "the CPython oracle (harness/vh/workers/c11_oracle.py) with stand-ins for task.create/@event_trigger; the projection of tables "
        "to ints/None/functions/modules and the removal of CPython's implicit 'submodule attribute on the parent package'",
    ]
    assumptions = ["import graphs are acyclic (C11_module_singleton: no module is requested while it is being loaded)",
                   "no absolute dotted imports (import pkg.sib) in generated files",
                   "a created task is awaited at once (task.wait({task.create(f)})), so scheduling is not part of the model"]
    partial_note = ("Jupyter sessions as contexts, reload (C10), classes and closures are not modelled; set_global_ctx is modelled and tied "
                    "but excluded from C11_frame by hypothesis (it is the documented exception)")

    def translate(self, ctx):
        return {"Gen/CtxConsts.v": gen_ctx_consts()}


PROP = C11()

MANIFEST_ENTRY = {
    "technique": "Rocq proof (induction over interpreter fuel: frame, pointer restoration, singleton invariant) + in-Coq correspondence with real pyscript and a CPython oracle",
    "level_text": ("Theorems C11_frame, C11_call_restores, C11_defining_globals and C11_module_singleton hold for every program of the "
                   "modelled language, every nesting depth and every sequence of loads/trigger firings, about a Gallina model of the "
                   "context pointers, EvalFunc.call's switch/restore, name resolution, the import statements and module_import; three "
                   "shape facts (restore inside finally, star-import underscore filter, lookup before load) are re-extracted from eval.py/"
                   "global_ctx.py on every run and the model is compared inside Coq with the global tables of all contexts after real "
                   "multi-file runs, which are also compared with CPython importing the same sources."),
    "level_note": ("Trusted: Coq kernel+vm_compute; the model's reading of the anchored functions; harness drivers and the CPython oracle "
                   "stand-ins. Not modelled: closures, classes, argument binding, Jupyter sessions, reload."),
    "design_ref": "DESIGN.md §4 C11",
}
