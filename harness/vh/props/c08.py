"""C08 — event, MQTT and webhook triggers deliver each message exactly once; event.fire exactness; context parenting.

Case format (JSON):
  {"legacy": bool,
   "funcs": [{"name": "f0",
              "decs": [{"kind": "event"|"mqtt"|"webhook", "key": str, "filter": F|None, "kwargs": {..}|None}],
              "acts": [{"op": "sleep", "d": 2.0} | {"op": "fire", "type": str, "kw": {..}, "ctx": "none"|"occ"|{"val": v}}
                       | {"op": "set"}
                       | {"op": "call", "svc": "none"|"opt"|"only", "form": "direct"|"call", ["return_response": b], ["blocking": b]}]}],
   (optional per func: "file": "a"|"b"; sched may contain {"kind": "reload", "file": "a"} = pyscript.reload of that file only;
    {"op": "set", "form": "func"|"stmt", "step": "create"|"setattr"|"delattr"|"delete", "base": index of the group's create})
   "sched": [{"wait": s, "settle": bool, "kind": "event", "key": str, "data": {..}}
             | {.., "kind": "mqtt", "topic": str, "payload": str, "qos": int, "retain": bool}
             | {.., "kind": "webhook", "key": str, "json": {..} | "form": [[k, v], ..]}],
   "tail": seconds}
  F = ["var", name] | ["cmp", op, name, literal] | ["not", F] | ["and", F, F] | ["or", F, F]
      | ["int", op, name, int]  int(name) op int     (ValueError on the generator's strings, TypeError on None/containers)
      | ["div", op, name, int]  6 // name op int     (ZeroDivisionError, TypeError)
      | ["lookup", name, [[int, bool], ..]]  {..}[name]   (KeyError, TypeError for unhashable values)
"""
import ast
import json

from .. import coqio as q
from ..core import Prop, Stream, cfg_prelude, run_workers_parallel, split_chunks
from ..translate import TranslateError, find_class, find_func, parse_file, walk_find

# ------------------------------------------------------------------------------------------------
# fixed string ids (must agree with coq/Trig/EventBase.v)
# ------------------------------------------------------------------------------------------------
FIXED = ["", "trigger_type", "event_type", "context", "event", "mqtt", "webhook", "topic", "payload", "qos", "retain",
         "payload_obj", "webhook_id", "rid", "ai"]
FIXED_ID = {s: i for i, s in enumerate(FIXED)}
FIRST_DYNAMIC = 20


def _sid(s, what):
    if s not in FIXED_ID:
        raise TranslateError(f"{what}: string {s!r} is not one of the documented trigger keywords/values")
    return FIXED_ID[s]


# ------------------------------------------------------------------------------------------------
# T1: shape of the func_args dictionaries and of the context look-ups -> Gen/EventFlowConsts.v
# ------------------------------------------------------------------------------------------------
def _func_args_dict(fn, what):
    """the `func_args = {...}` dict display of a listener -> [(key id, src term)]"""
    cands = [n for n in ast.walk(fn) if isinstance(n, ast.Assign) and len(n.targets) == 1 and isinstance(n.targets[0], ast.Name)
             and n.targets[0].id == "func_args" and isinstance(n.value, ast.Dict)]
    if len(cands) != 1:
        raise TranslateError(f"{what}: expected exactly one `func_args = {{...}}`, found {len(cands)}")
    out = []
    for k, v in zip(cands[0].value.keys, cands[0].value.values):
        if not (isinstance(k, ast.Constant) and isinstance(k.value, str)):
            raise TranslateError(f"{what}: non-constant key in func_args")
        kid = _sid(k.value, what)
        if isinstance(v, ast.Constant) and isinstance(v.value, str):
            src = f"SConst (VStr {q.N(_sid(v.value, what))})"
        elif isinstance(v, ast.Attribute) and isinstance(v.value, ast.Name):
            if v.value.id == "event" and v.attr == "event_type":
                src = "SKey"
            elif v.value.id == "event" and v.attr == "context":
                src = "SCtx"
            elif v.value.id == "mqttmsg":
                src = f"SAttr {q.N(_sid(v.attr, what))}"
            else:
                raise TranslateError(f"{what}: unexpected value {ast.dump(v)} for key {k.value!r}")
        elif isinstance(v, ast.Name) and v.id == "webhook_id":
            src = "SKey"
        else:
            raise TranslateError(f"{what}: unexpected value {ast.dump(v)[:80]} for key {k.value!r}")
        out.append((kid, src))
    return out


def _has_data_update(fn):
    calls = walk_find(fn, lambda n: isinstance(n, ast.Call) and isinstance(n.func, ast.Attribute) and n.func.attr == "update"
                      and isinstance(n.func.value, ast.Name) and n.func.value.id == "func_args" and len(n.args) == 1
                      and isinstance(n.args[0], ast.Attribute) and isinstance(n.args[0].value, ast.Name)
                      and n.args[0].value.id == "event" and n.args[0].attr == "data")
    return len(calls) == 1


def _subscript_assign_keys(fn):
    """keys k of statements `func_args[k] = ...`"""
    keys = []
    for n in ast.walk(fn):
        if isinstance(n, ast.Assign) and len(n.targets) == 1 and isinstance(n.targets[0], ast.Subscript):
            t = n.targets[0]
            if isinstance(t.value, ast.Name) and t.value.id == "func_args" and isinstance(t.slice, ast.Constant):
                keys.append((t.slice.value, n))
    return keys


def _mqtt_opt(fn, what):
    tries = walk_find(fn, lambda n: isinstance(n, ast.Try))
    if len(tries) != 1:
        raise TranslateError(f"{what}: expected one try statement")
    keys = _subscript_assign_keys(tries[0])
    if len(keys) != 1:
        raise TranslateError(f"{what}: expected one func_args[...] assignment in the try")
    key, node = keys[0]
    v = node.value
    ok = (isinstance(v, ast.Call) and isinstance(v.func, ast.Attribute) and v.func.attr == "loads" and len(v.args) == 1
          and isinstance(v.args[0], ast.Attribute) and v.args[0].attr == "payload")
    hs = tries[0].handlers
    ok = ok and len(hs) == 1 and isinstance(hs[0].type, ast.Name) and hs[0].type.id == "ValueError" \
        and len(hs[0].body) == 1 and isinstance(hs[0].body[0], ast.Pass)
    if not ok:
        raise TranslateError(f"{what}: payload_obj is not `json.loads(mqttmsg.payload)` guarded by `except ValueError: pass`")
    return _sid(key, what)


def _webhook_payload(fn, what):
    keys = {k for k, _n in _subscript_assign_keys(fn)}
    if keys != {"payload"}:
        raise TranslateError(f"{what}: expected only func_args['payload'] assignments, found {sorted(keys)}")
    return (_sid("payload", what), f"SAttr {q.N(_sid('payload', what))}")


def _ctx_key_if(fn, dict_name, what):
    """the key K of every `isinstance(<D["K"] | D.get("K") | a local assigned from such>, Context)` test in fn
    (D = dict_name, possibly as last attribute of a chain); all tests must agree on one K"""
    def consts_on_d(expr):
        out = []
        for n in ast.walk(expr):
            if isinstance(n, ast.Subscript) and isinstance(n.slice, ast.Constant) and isinstance(n.slice.value, str) and is_d(n.value):
                out.append(n.slice.value)
            if (isinstance(n, ast.Call) and isinstance(n.func, ast.Attribute) and n.func.attr == "get" and is_d(n.func.value)
                    and n.args and isinstance(n.args[0], ast.Constant) and isinstance(n.args[0].value, str)):
                out.append(n.args[0].value)
        return out

    def is_d(n):
        return (isinstance(n, ast.Name) and n.id == dict_name) or (isinstance(n, ast.Attribute) and n.attr == dict_name)

    found = []
    for n in ast.walk(fn):
        if not (isinstance(n, ast.Call) and isinstance(n.func, ast.Name) and n.func.id == "isinstance" and len(n.args) == 2
                and isinstance(n.args[1], ast.Name) and n.args[1].id == "Context"):
            continue
        expr = n.args[0]
        ks = consts_on_d(expr)
        if not ks and isinstance(expr, ast.Name):
            for a in ast.walk(fn):
                if isinstance(a, ast.Assign) and len(a.targets) == 1 and isinstance(a.targets[0], ast.Name) and a.targets[0].id == expr.id:
                    ks += consts_on_d(a.value)
        found += ks
    if not found or len(set(found)) != 1:
        raise TranslateError(f"{what}: expected isinstance({dict_name}[K], Context) tests on exactly one key K, found {sorted(set(found))}")
    return _sid(found[0], what)


def _service_ctx_key(fn, what):
    for n in ast.walk(fn):
        if isinstance(n, ast.For) and isinstance(n.iter, ast.List) and n.iter.elts and isinstance(n.iter.elts[0], ast.Tuple):
            first = n.iter.elts[0].elts
            if (len(first) == 3 and isinstance(first[0], ast.Constant) and isinstance(first[1], ast.List) and len(first[1].elts) == 1
                    and isinstance(first[1].elts[0], ast.Name) and first[1].elts[0].id == "Context"):
                return _sid(first[0].value, what)
    raise TranslateError(f"{what}: hass_args table with a (\"context\", [Context], ...) entry not found")


def translate_eventflow():
    t = {}
    # legacy listeners
    ev = find_class(parse_file("event.py"), "Event")
    fn = find_func(ev, "event_listener")
    t["ev_head_legacy"] = _func_args_dict(fn, "event.py event_listener")
    t["ev_data_legacy"] = _has_data_update(fn)
    mq = find_class(parse_file("mqtt.py"), "Mqtt")
    maker = find_func(mq, "mqtt_message_handler_maker")
    fn = find_func(maker, "mqtt_message_handler")
    t["mq_head_legacy"] = _func_args_dict(fn, "mqtt.py mqtt_message_handler")
    t["mq_opt_legacy"] = _mqtt_opt(fn, "mqtt.py mqtt_message_handler")
    wh = find_class(parse_file("webhook.py"), "Webhook")
    fn = find_func(wh, "webhook_handler")
    t["wh_head_legacy"] = _func_args_dict(fn, "webhook.py webhook_handler") + [_webhook_payload(fn, "webhook.py webhook_handler")]
    # new subsystem listeners
    fn = find_func(find_class(parse_file("decorators/event.py"), "EventTriggerDecorator"), "_event_callback")
    t["ev_head_new"] = _func_args_dict(fn, "decorators/event.py _event_callback")
    t["ev_data_new"] = _has_data_update(fn)
    fn = find_func(find_class(parse_file("decorators/mqtt.py"), "MQTTTriggerDecorator"), "_mqtt_message_handler")
    t["mq_head_new"] = _func_args_dict(fn, "decorators/mqtt.py _mqtt_message_handler")
    t["mq_opt_new"] = _mqtt_opt(fn, "decorators/mqtt.py _mqtt_message_handler")
    fn = find_func(find_class(parse_file("decorators/webhook.py"), "WebhookTriggerDecorator"), "_handler")
    t["wh_head_new"] = _func_args_dict(fn, "decorators/webhook.py _handler") + [_webhook_payload(fn, "decorators/webhook.py _handler")]
    # the key whose Context value becomes the parent of the run's context
    fn = find_func(find_class(parse_file("trigger.py"), "TrigInfo"), "call_action")
    t["ctx_action_legacy"] = _ctx_key_if(fn, "func_args", "trigger.py call_action")
    fn = find_func(find_class(parse_file("decorator.py"), "FunctionDecoratorManager"), "dispatch")
    t["ctx_action_new"] = _ctx_key_if(fn, "func_args", "decorator.py dispatch")
    fcls = find_class(parse_file("function.py"), "Function")
    t["ctx_fire"] = _ctx_key_if(find_func(fcls, "event_fire"), "kwargs", "function.py event_fire")
    t["ctx_call"] = _service_ctx_key(find_func(fcls, "service_call"), "function.py service_call")
    t["ctx_set"] = _ctx_key_if(find_func(find_class(parse_file("state.py"), "State"), "set"), "kwargs", "state.py State.set")
    return t


def gen_eventflow_consts():
    t = translate_eventflow()

    def head(lst):
        return q.lst(f"({q.N(k)}, {s})" for k, s in lst)

    def two(name):
        return f"if legacy then {name[0]}\n  else {name[1]}"

    lines = [
        "(* GENERATED by harness/vh/props/c08.py from event.py, mqtt.py, webhook.py, decorators/{event,mqtt,webhook}.py, "
        "trigger.py, decorator.py, function.py, state.py - do not edit *)",
        "From PV Require Import Common.Util Trig.EventBase.",
        "",
        "Definition ev_head (legacy : bool) : list (N * src) :=\n  " + two((head(t["ev_head_legacy"]), head(t["ev_head_new"]))) + ".",
        f"Definition ev_data_update (legacy : bool) : bool := if legacy then {q.boolean(t['ev_data_legacy'])} else {q.boolean(t['ev_data_new'])}.",
        "Definition mq_head (legacy : bool) : list (N * src) :=\n  " + two((head(t["mq_head_legacy"]), head(t["mq_head_new"]))) + ".",
        f"Definition mq_opt_key (legacy : bool) : N := if legacy then {q.N(t['mq_opt_legacy'])} else {q.N(t['mq_opt_new'])}.",
        "Definition wh_head (legacy : bool) : list (N * src) :=\n  " + two((head(t["wh_head_legacy"]), head(t["wh_head_new"]))) + ".",
        f"Definition ctx_key_action (legacy : bool) : N := if legacy then {q.N(t['ctx_action_legacy'])} else {q.N(t['ctx_action_new'])}.",
        f"Definition ctx_key_fire : N := {q.N(t['ctx_fire'])}.",
        f"Definition ctx_key_set : N := {q.N(t['ctx_set'])}.",
        f"Definition ctx_key_call : N := {q.N(t['ctx_call'])}.",
    ]
    return "\n".join(lines) + "\n"


# ------------------------------------------------------------------------------------------------
# Python -> Gallina
# ------------------------------------------------------------------------------------------------
class Interner:
    def __init__(self):
        self.s = dict(FIXED_ID)
        self.o = {}

    def sid(self, s):
        if s not in self.s:
            self.s[s] = FIRST_DYNAMIC + len(self.s) - len(FIXED)
        return self.s[s]

    def oid(self, canon):
        if canon not in self.o:
            self.o[canon] = len(self.o) + 1
        return self.o[canon]


def canon_val(v):
    """case-side Python value -> the worker's canonical form"""
    if v is None or isinstance(v, (bool, int, str)):
        return v
    if isinstance(v, dict) and ("$ctx" in v or "$o" in v):
        return v
    return {"$o": json.dumps(v, sort_keys=True), "t": bool(v)}


def q_val(it, v):
    v = canon_val(v)
    if v is None:
        return "VNone"
    if isinstance(v, bool):
        return f"(VBool {q.boolean(v)})"
    if isinstance(v, int):
        return f"(VInt {q.Z(v)})"
    if isinstance(v, str):
        return f"(VStr {q.N(it.sid(v))})"
    if "$ctx" in v:
        return f"(VCtx {q.N(v['$ctx'])})" if v["$ctx"] is not None else "VNone"
    return f"(VOther {q.N(it.oid(v['$o']))} {q.boolean(v['t'])})"


def q_kw(it, d):
    return q.lst(f"({q.N(it.sid(k))}, {q_val(it, v)})" for k, v in d.items())


CMPOP = {"==": "CmpEq", "!=": "CmpNe", "<": "CmpLt", "<=": "CmpLe", ">": "CmpGt", ">=": "CmpGe"}


def q_filter(it, f):
    op = f[0]
    if op == "var":
        return f"(FVar {q.N(it.sid(f[1]))})"
    if op == "cmp":
        return f"(FCmp {CMPOP[f[1]]} {q.N(it.sid(f[2]))} {q_val(it, f[3])})"
    if op == "int":
        return f"(FInt {CMPOP[f[1]]} {q.N(it.sid(f[2]))} {q.Z(f[3])})"
    if op == "div":
        return f"(FDiv {CMPOP[f[1]]} {q.N(it.sid(f[2]))} {q.Z(f[3])})"
    if op == "lookup":
        return f"(FLookup {q.N(it.sid(f[1]))} {q.lst(f'({q.Z(k)}, {q.boolean(b)})' for k, b in f[2])})"
    if op == "not":
        return f"(FNot {q_filter(it, f[1])})"
    return f"({'FAnd' if op == 'and' else 'FOr'} {q_filter(it, f[1])} {q_filter(it, f[2])})"


KIND = {"event": "KEvent", "mqtt": "KMqtt", "webhook": "KWebhook"}


def q_ctxv(c, p):
    return "{| c_id := %s; c_parent := %s |}" % (q.N(c if c is not None else 0), q.option(q.N(p) if p is not None else None))


def n_epochs(case):
    return 1 + sum(1 for e in case["sched"] if e["kind"] == "reload")


def file_epochs(case, fname):
    """epoch ranges of the successive incarnations of a file's functions: a reload of the file ends one and begins the next"""
    cuts, ep = [], 0
    for e in case["sched"]:
        if e["kind"] == "reload":
            ep += 1
            if e["file"] == fname:
                cuts.append(ep)
    bounds = [0] + cuts + [n_epochs(case)]
    return [list(range(bounds[k], bounds[k + 1])) for k in range(len(bounds) - 1)]


def trig_table(case):
    """flat list of decorator incarnations: (func name, dec dict, incarnation number, epochs)"""
    out = []
    for fn in case["funcs"]:
        for inc, eps in enumerate(file_epochs(case, fn.get("file", "hello"))):
            for d in fn["decs"]:
                out.append((fn["name"], d, inc, eps))
    return out


def trig_list(case):
    """(func name, dec dict) per decorator incarnation"""
    return [(name, d) for name, d, _inc, _eps in trig_table(case)]


def webhook_payload(ent):
    if ent.get("json") is not None:
        return ent["json"]
    out = {}
    for k, v in ent.get("form") or []:
        out.setdefault(k, v)  # MultiDict.getone: the first value
    return out


def occ_of_sched(ent, key, ctx, ep=0):
    """-> (kind, key, ctx, attrs dict, data dict, opt (has, value), epoch)"""
    kind = ent["kind"]
    if kind == "event":
        return kind, key, ctx, {}, ent["data"], (False, None), ep
    if kind == "mqtt":
        attrs = {"topic": ent["topic"], "payload": ent["payload"], "qos": ent["qos"], "retain": ent["retain"]}
        try:
            return kind, key, None, attrs, {}, (True, json.loads(ent["payload"])), ep
        except ValueError:
            return kind, key, None, attrs, {}, (False, None), ep
    return kind, key, None, {"payload": webhook_payload(ent)}, {}, (False, None), ep


def q_occ(it, occ):
    kind, key, ctx, attrs, data, (has, opt), ep = occ
    return "{| o_kind := %s; o_key := %s; o_epoch := %s; o_ctx := %s; o_attrs := %s; o_data := %s; o_opt := %s |}" % (
        KIND[kind], q.N(it.sid(key)), q.N(ep), q.option(q.N(ctx) if ctx is not None else None), q_kw(it, attrs), q_kw(it, data),
        q.option(q_val(it, opt) if has else None))


# ------------------------------------------------------------------------------------------------
# attribution hints (untrusted search; Coq validates): which decorator of the function started an observed run
# ------------------------------------------------------------------------------------------------
class _Ctx:
    """stand-in for a Context object when a filter is evaluated by CPython"""

    def __init__(self, n):
        self.n = n


def _py_val(v):
    v = canon_val(v)
    if isinstance(v, dict):
        if "$ctx" in v:
            return _Ctx(v["$ctx"])
        return json.loads(v["$o"])
    return v


def _render_filter(f):
    op = f[0]
    if op == "var":
        return f[1]
    if op == "cmp":
        return f"{f[2]} {f[1]} {f[3]!r}"
    if op == "int":
        return f"int({f[2]}) {f[1]} {f[3]!r}"
    if op == "div":
        return f"6 // {f[2]} {f[1]} {f[3]!r}"
    if op == "lookup":
        return "{" + ", ".join(f"{k!r}: {b!r}" for k, b in f[2]) + "}[" + f[1] + "]"
    if op == "not":
        return f"(not {_render_filter(f[1])})"
    return f"({_render_filter(f[1])} {op} {_render_filter(f[2])})"


def _base_args(occ):
    kind, key, ctx, attrs, data, (has, opt), _ep = occ
    if kind == "event":
        d = {"trigger_type": "event", "event_type": key, "context": {"$ctx": ctx}}
        d.update(data)
    elif kind == "mqtt":
        d = {"trigger_type": "mqtt", **attrs}
        if has:
            d["payload_obj"] = opt
    else:
        d = {"trigger_type": "webhook", "webhook_id": key, "payload": attrs["payload"]}
    return d


def _passes(dec, args):
    if dec.get("filter") is None:
        return True
    try:
        return bool(eval(_render_filter(dec["filter"]), {"__builtins__": {"int": int}}, {k: _py_val(v) for k, v in args.items()}))  # pylint: disable=eval-used
    except Exception:  # pylint: disable=broad-except
        return False


def _kw_key(d):
    return json.dumps({k: canon_val(v) for k, v in d.items()}, sort_keys=True)


def expected_runs(dec, occs, when, epochs=None):
    """-> [(canonical kwargs, trace index of the hand-over)] of the runs the decorator incarnation should start"""
    out = []
    for occ, j in zip(occs, when):
        if occ[0] != dec["kind"] or occ[1] != dec["key"] or (epochs is not None and occ[6] not in epochs):
            continue
        args = _base_args(occ)
        if _passes(dec, args):
            args = dict(args)
            args.update(dec.get("kwargs") or {})
            out.append((_kw_key(args), j, occ[6]))
    return out


def compute_hints(case, occs, when, trace):
    """-> {index in trace of a 'running' entry: decorator index}; a run can only be attributed to an occurrence handed
    over before it"""
    trigs = trig_table(case)
    hints = {}
    for fn in case["funcs"]:
        tix = [i for i, t in enumerate(trigs) if t[0] == fn["name"]]
        exp = [expected_runs(trigs[i][1], occs, when, trigs[i][3]) for i in tix]
        obs = [(j, _kw_key(e["kw"])) for j, e in enumerate(trace) if e["o"] == "running" and e["fn"] == fn["name"]]
        # reloads happen at quiescent points, so a run starts in the epoch of its occurrence = the epoch of the latest hand-over
        # before it (keeps incarnations of one function apart when their kwargs are identical, e.g. webhook / mqtt messages)
        cur_ep, ep_at = 0, {}
        for j, e in enumerate(trace):
            if e["o"] in ("bus", "fire"):
                cur_ep = e.get("ep", 0)
            ep_at[j] = cur_ep
        # breadth-first over position vectors, remembering one assignment per vector
        states = {tuple(0 for _ in tix): []}
        done = 0
        for j, key in obs:
            nxt = {}
            for pos, assign in states.items():
                for k in range(len(tix)):
                    if pos[k] < len(exp[k]) and exp[k][pos[k]][0] == key and exp[k][pos[k]][1] < j and exp[k][pos[k]][2] == ep_at[j]:
                        np_ = pos[:k] + (pos[k] + 1,) + pos[k + 1:]
                        if np_ not in nxt:
                            nxt[np_] = assign + [k]
            if not nxt:
                break
            states = nxt
            done += 1
        # prefer an assignment that consumed everything expected
        best = None
        for pos, assign in states.items():
            if all(pos[k] == len(exp[k]) for k in range(len(tix))):
                best = assign
                break
        if best is None:
            best = next(iter(states.values()))
        for n, (j, _key) in enumerate(obs):
            hints[j] = tix[best[n]] if n < len(best) else (tix[0] if tix else 0)
    return hints


# ------------------------------------------------------------------------------------------------
# generation
# ------------------------------------------------------------------------------------------------
DATA_KEYS = ["ka", "kb", "kc", "kd"]
STRS = ["", "s", "on", "pv"]


def gen_value(rng, nested_ok=True):
    r = rng.random()
    if r < 0.45:
        return rng.choice([0, 1, 2, 3, -1, 7])
    if r < 0.65:
        return rng.choice(STRS)
    if r < 0.75:
        return None
    if r < 0.85:
        return rng.choice([True, False])
    if not nested_ok:
        return 5
    return rng.choice([[], [1, 2], {"x": 1.5}, {}, [{"y": "s"}], [2.5]])


def gen_data(rng, n=None):
    n = rng.choice([0, 1, 2, 2, 3]) if n is None else n
    keys = rng.sample(DATA_KEYS, min(n, len(DATA_KEYS)))
    return {k: gen_value(rng) for k in keys}


def gen_raising(rng, name):
    """a filter atom that raises on some payloads: ValueError/TypeError (int), ZeroDivisionError/TypeError (//),
    KeyError/TypeError (dict display lookup)"""
    r = rng.random()
    if r < 0.4:
        return ["int", rng.choice(["==", ">=", "<", "!="]), name, rng.choice([0, 1, 2])]
    if r < 0.7:
        return ["div", rng.choice(["==", ">=", "<"]), name, rng.choice([2, 3, 6])]
    keys = rng.sample([0, 1, 2, 3, -1, 7], rng.choice([1, 2, 3]))
    return ["lookup", name, [[k, rng.random() < 0.7] for k in keys]]


RAISE_NAMES = ["ka", "kb", "kc"]


def gen_filter(rng, names, depth=0):
    r = rng.random()
    if depth >= 2 or r < 0.5:
        name = rng.choice(names)
        if name in RAISE_NAMES + ["qos", "payload_obj"] and rng.random() < 0.3:
            return gen_raising(rng, name)
        if rng.random() < 0.2:
            return ["var", name]
        op = rng.choice(["==", "==", "!=", "<", "<=", ">", ">="])
        if op in ("==", "!=") and rng.random() < 0.3:
            return ["cmp", op, name, rng.choice(STRS)]
        return ["cmp", op, name, rng.choice([0, 1, 2, 3])]
    if r < 0.6:
        return ["not", gen_filter(rng, names, depth + 1)]
    return [rng.choice(["and", "or"]), gen_filter(rng, names, depth + 1), gen_filter(rng, names, depth + 1)]


def gen_acts(rng, fire_types, long_sleep):
    acts = []
    for _ in range(rng.choice([0, 1, 2, 3, 4])):
        r = rng.random()
        if r < 0.3:
            acts.append({"op": "sleep", "d": rng.choice([0, 0.5, 2.0, 30.0, 100.0] if long_sleep else [0, 0.5])})
        elif r < 0.6:
            kw = {k: gen_value(rng) for k in rng.sample(["kx", "ky", "ka"], rng.choice([0, 1, 2]))}
            typ = rng.choice(fire_types)
            ctx = rng.choice(["none", "none", "none", "occ", {"val": rng.choice(["cstr", 5, None])}])
            if isinstance(ctx, dict) and typ != "pv_out" and rng.random() < 0.9:
                ctx = "none"  # a non-Context `context` in the data of a triggering event is D81 territory: keep it rare
            acts.append({"op": "fire", "type": typ, "kw": kw, "ctx": ctx})
        elif r < 0.72:
            acts += gen_set_group(rng, len(acts))
        else:
            acts.append(gen_call(rng))
    return acts


SET_GROUPS = [["create"], ["create", "setattr"], ["create", "setattr", "delattr"], ["create", "delete"],
              ["create", "setattr", "delete"], ["create", "setattr", "delattr", "delete"]]


def gen_set_group(rng, base):
    """consecutive state changes of one scratch entity through every API form a run has: state.set / state.setattr /
    state.delete(attr) / state.delete(entity) on a per-run entity, or assignment / attribute assignment / `del x.attr` / `del x`
    on a per-function entity (statement groups always end by removing the entity)"""
    form = rng.choice(["func", "func", "stmt"])
    steps = list(rng.choice(SET_GROUPS))
    if form == "stmt" and steps[-1] != "delete":
        steps.append("delete")
    return [{"op": "set", "form": form, "step": st, "base": base} for st in steps]


def add_reloads(rng, funcs, sched, share_hint=None):
    """spread the functions over two script files and reload one of them (pyscript.reload global_ctx=file.x) between
    hand-overs: the triggers of that file stop and start again while the other file's keep running"""
    names = ["a", "b"]
    for k, fn in enumerate(funcs):
        fn["file"] = names[k % 2] if len(funcs) > 1 else "a"
    for _ in range(rng.choice([1, 1, 2])):
        pos = rng.randrange(1, len(sched) + 1) if sched else 0
        sched.insert(pos, {"kind": "reload", "file": rng.choice(sorted({fn["file"] for fn in funcs}))})
    # make sure something is handed over after the last reload
    last = max(i for i, e in enumerate(sched) if e["kind"] == "reload")
    tail = [dict(e) for e in sched[:last] if e["kind"] != "reload"]
    for e in rng.sample(tail, min(len(tail), rng.choice([1, 2, 3]))):
        e.pop("wait", None)
        sched.append(e)


def add_partial_stop(rng, funcs, sched, kind, key, mk_occ):
    """two functions in DIFFERENT files listening to the same key; one file is reloaded (its triggers stop and start again)
    between hand-overs for that key: the function in the untouched file and the restarted one must both keep running"""
    if len(funcs) < 2:
        funcs.append({"name": f"f{len(funcs)}", "decs": [], "acts": gen_acts(rng, ["pv_out"], long_sleep=False)})
    for k, fn in enumerate(funcs):
        fn["file"] = ["a", "b"][k % 2]
    for fn in funcs[:2]:
        if not any(d["kind"] == kind and d["key"] == key for d in fn["decs"]):
            fn["decs"].append({"kind": kind, "key": key, "filter": None, "kwargs": {"kz": 4} if rng.random() < 0.4 else None})
    sched.append(mk_occ())
    for _ in range(rng.choice([1, 1, 2])):
        sched.append({"kind": "reload", "file": rng.choice(["a", "b"])})
        for _ in range(rng.choice([1, 2, 3])):
            sched.append(mk_occ())


def gen_call(rng):
    """a call to one of the natively registered test services (SupportsResponse.NONE / OPTIONAL / ONLY), via
    `pvtest.svc_x(...)` or `service.call("pvtest", "svc_x", ...)`, with/without return_response / blocking; only the
    combinations Home Assistant accepts"""
    svc = rng.choice(["none", "opt", "only", "only"])
    act = {"op": "call", "svc": svc, "form": rng.choice(["direct", "call"])}
    if svc == "none":
        rr = rng.choice([None, None, False])
        bl = rng.choice([None, True, False])
    elif svc == "opt":
        rr = rng.choice([None, True, False])
        bl = rng.choice([None, True]) if rr else rng.choice([None, True, False])
    else:
        rr = rng.choice([None, None, True])
        bl = rng.choice([None, True])
    if rr is not None:
        act["return_response"] = rr
    if bl is not None:
        act["blocking"] = bl
    return act


RAISE_PATTERNS = [  # (filter on NAME, value that makes it raise, exception kind, value that passes)
    (lambda n: ["int", "==", n, 1], "s", "ValueError", 1),
    (lambda n: ["int", ">=", n, 1], "", "ValueError", 2),
    (lambda n: ["div", "==", n, 6], 0, "ZeroDivisionError", 1),
    (lambda n: ["div", "<", n, 6], False, "ZeroDivisionError", 2),
    (lambda n: ["lookup", n, [[1, True], [2, True]]], 7, "KeyError", 1),
    (lambda n: ["lookup", n, [[1, True]]], None, "KeyError", True),
    (lambda n: ["lookup", n, [[1, True]]], [1], "TypeError", 1),
    (lambda n: ["cmp", ">", n, 0], "s", "TypeError", 1),
    # not an exception but the same shape of history: the filter's value is falsy without being the object False
    (lambda n: ["var", n], 0, "falsy int", 1),
    (lambda n: ["var", n], "", "falsy str", "on"),
    (lambda n: ["var", n], None, "falsy None", 2),
    (lambda n: ["var", n], [], "falsy list", [1, 2]),
    (lambda n: ["and", ["var", n], ["cmp", "!=", n, 5]], 0, "falsy operand of and", 1),
    (lambda n: ["or", ["var", n], ["var", "kb"]], "", "falsy operands of or", 3),
]


def add_raise_then_ok(rng, funcs, sched, types=None):
    """one @event_trigger whose filter raises on one event (various exception kinds) and must still start one run for each
    later well-formed matching event"""
    mk, bad, _kind, good = rng.choice(RAISE_PATTERNS)
    fn = rng.choice(funcs)
    # events stream: only a type the function already listens to (keeps the fire graph acyclic)
    key = rng.choice(types) if types else rng.choice([d["key"] for d in fn["decs"] if d["kind"] == "event"] or ["pv_e0"])
    dec = {"kind": "event", "key": key, "filter": mk("ka"), "kwargs": {"kz": 9} if rng.random() < 0.5 else None}
    fn["decs"].insert(rng.randrange(len(fn["decs"]) + 1), dec)
    pos = rng.randrange(len(sched) + 1)
    sched.insert(pos, {"kind": "event", "key": key, "data": {"ka": bad}})
    for _ in range(rng.choice([1, 2, 3])):
        ent = {"kind": "event", "key": key, "data": {"ka": good, "kb": rng.choice([0, 1])}}
        if rng.random() < 0.3:
            ent["wait"] = rng.choice([0.5, 3.0])
        sched.insert(rng.randrange(pos + 1, len(sched) + 1), ent)


def tail_of(case):
    total = sum(a.get("d", 0) for fn in case["funcs"] for a in fn["acts"] if a["op"] == "sleep")
    return 10.0 + total * 3 + sum(e.get("wait", 0) for e in case["sched"])


class FlowStream(Stream):
    """shared machinery of the three streams"""

    requires = "From PV Require Import Trig.EventBase Gen.EventFlowConsts Trig.EventFlow Trig.EventFlowCheck."
    case_type = "ecase"
    check_model = "ecase_model_ok pv_cfg"
    check_spec = "ecase_spec_ok"
    attrib = "ecase_attrib pv_cfg"
    explain = "ecase_explain pv_cfg"
    shard_size = 70
    kind_name = "event"

    quick_budget, thorough_budget = 110, 1200

    def budget(self, tier):
        return self.quick_budget if tier == "quick" else self.thorough_budget

    def prelude(self, ctx, findings, witness_terms):
        return cfg_prelude([("d_webhook_dup", "D80"), ("d_ctx_shadow_legacy", "D81"), ("d_ctx_shadow_new", "D82")], findings, witness_terms,
                           "ecase_spec_ok")

    def run_impl(self, ctx, cases):
        chunks = split_chunks(cases, 8)
        res = run_workers_parallel(ctx, "vh.workers.c08_flow", [{"cases": [self.strip(c) for c in ch]} for ch in chunks])
        return [o for r in res for o in r]

    @staticmethod
    def strip(case):
        return {k: v for k, v in case.items() if not k.startswith("__")}

    # ---- case + observation -> Gallina ----
    def occs_of(self, case, obs):
        """occurrences in the order they were handed over (driver deliveries and events fired by runs), and where in the trace"""
        occs, when = [], []
        for j, e in enumerate(obs["trace"]):
            if e["o"] == "bus":
                occs.append(occ_of_sched(case["sched"][e["i"]], e["key"], e["ctx"], e.get("ep", 0)))
                when.append(j)
            elif e["o"] == "fire":
                occs.append(("event", e["type"], e["ctx"], {}, e["data"], (False, None), e.get("ep", 0)))
                when.append(j)
        return occs, when

    def to_coq(self, case, obs):
        it = Interner()
        trigs = trig_table(case)
        fid = {fn["name"]: 100 + i for i, fn in enumerate(case["funcs"])}
        qtrigs = []
        for name, d, inc, eps in trigs:
            qtrigs.append("{| t_func := %s; t_dm := %s; t_epochs := %s; t_kind := %s; t_key := %s; t_filter := %s; t_kwargs := %s |}" % (
                q.N(fid[name]), q.N(fid[name] + 1000 * inc), q.lst(q.N(e) for e in eps), KIND[d["kind"]], q.N(it.sid(d["key"])),
                q.option(q_filter(it, d["filter"]) if d.get("filter") is not None else None), q_kw(it, d.get("kwargs") or {})))
        # webhook registrations / unregistrations -> decorator indices (new subsystem only)
        order = []
        if not case["legacy"]:
            used = set()
            for att in obs.get("reg", []):
                for i, (name, d, _inc, eps) in enumerate(trigs):
                    if d["kind"] != "webhook" or d["key"] != att["key"]:
                        continue
                    if att.get("op", "reg") == "unreg":
                        order.append((False, i))
                        break
                    if i not in used and name == att["fn"] and att.get("ep", 0) in eps:
                        used.add(i)
                        order.append((True, i))
                        break
        scripts = []
        for fn in case["funcs"]:
            acts = []
            for a in fn["acts"]:
                if a["op"] == "sleep":
                    acts.append("SSleep")
                elif a["op"] == "set":
                    acts.append("SSet")
                elif a["op"] == "call":
                    acts.append("SCall")
                else:
                    c = a.get("ctx", "none")
                    ca = "CNone" if c == "none" else "COcc" if c == "occ" else f"(CVal {q_val(it, c['val'])})"
                    acts.append(f"(SFire {q.N(it.sid(a['type']))} {q_kw(it, a['kw'])} {ca})")
            scripts.append(f"({q.N(fid[fn['name']])}, {q.lst(acts)})")
        trace = obs["trace"]
        occs, when = self.occs_of(case, obs)
        hints = compute_hints(case, occs, when, trace)
        qobs = []
        for j, e in enumerate(trace):
            o = e["o"]
            if o == "bus":
                qobs.append(f"OBus {q_occ(it, occ_of_sched(case['sched'][e['i']], e['key'], e['ctx'], e.get('ep', 0)))}")
            elif o == "running":
                qobs.append(f"ORunning {q.nat(hints.get(j, 0))} {q.N(fid.get(e['fn'], 99))} {q_kw(it, e['kw'])} {q_ctxv(e['ctx'], e['par'])}")
            elif o == "begin":
                qobs.append(f"OBegin {q.Z(int(e['rid'] or 0))} {q.N(fid.get(e['fn'], 99))} {q_kw(it, e['kw'])} {q_ctxv(e['ctx'], e['par'])}")
            elif o == "fire":
                ai = e["ai"] if isinstance(e["ai"], int) and 0 <= e["ai"] < 1000 else 999
                rid = e["rid"] if isinstance(e["rid"], int) else -1
                qobs.append(f"OFire {q.Z(rid)} {q.nat(ai)} {q.N(it.sid(e['type']))} {q_kw(it, e['data'])} {q_ctxv(e['ctx'], e['par'])} {q.N(e.get('ep', 0))}")
            elif o in ("set", "call"):
                ai = e["ai"] if isinstance(e["ai"], int) and 0 <= e["ai"] < 1000 else 999
                rid = e["rid"] if isinstance(e["rid"], int) else -1
                qobs.append(f"{'OSet' if o == 'set' else 'OCall'} {q.Z(rid)} {q.nat(ai)} {q_ctxv(e['ctx'], e['par'])}")
        if obs.get("crash"):
            qobs.append("OBegin (-1)%Z 0%N [] {| c_id := 0%N; c_parent := None |}")  # never a path: the driver crashed
        return "{| ec_legacy := %s; ec_trigs := %s; ec_order := %s; ec_scripts := %s; ec_obs := %s |}" % (
            q.boolean(case["legacy"]), q.lst(qtrigs), q.lst(f"({q.boolean(b)}, {q.nat(i)})" for b, i in order), q.lst(scripts), q.lst("(" + t + ")" for t in qobs))

    # ---- evidence ----
    def nontrivial(self, case, obs):
        nrun = sum(1 for e in obs["trace"] if e["o"] == "running")
        nbus = sum(1 for e in obs["trace"] if e["o"] == "bus")
        return nrun >= 2 and nbus >= 2

    def kind(self, case, obs):
        nrun = sum(1 for e in obs["trace"] if e["o"] == "running")
        ndec = len(trig_list(case))
        flt = any(d.get("filter") is not None for _n, d in trig_list(case))
        return f"{'legacy' if case['legacy'] else 'new'}/{self.kind_name}/decs{min(ndec, 4)}{'+' if ndec > 4 else ''}/{'filter' if flt else 'nofilter'}/runs{'0' if nrun == 0 else '1-4' if nrun < 5 else '5+'}"

    def describe(self, case, obs):
        return {"legacy": case["legacy"], "decorators": [(n, d["kind"], d["key"], d.get("filter"), d.get("kwargs")) for n, d in trig_list(case)],
                "schedule": case["sched"][:6], "observed": [(e["o"], e.get("fn") or e.get("key") or e.get("rid")) for e in obs["trace"]][:40],
                "errors": obs.get("errors", [])[:2], "crash": obs.get("crash")}


class EventStream(FlowStream):
    name = "events"
    kind_name = "event"
    rule = ("sets of 1-3 generated functions with 1-3 @event_trigger decorators each (shared and distinct event types, with and "
            "without filter expressions over the event data incl. missing names and type errors, with and without decorator "
            "kwargs, duplicates of the same decorator), bodies that sleep 0..100 s, fire further events (some of them trigger "
            "types of later functions = chains, with/without explicit context=), set states and call natively registered services of all three SupportsResponse kinds (both call forms, with/without return_response/blocking; the context recorded is ServiceCall.context as seen by the service); schedules of "
            "2-12 events fired back-to-back, after a settle, or 0.5-40 virtual seconds apart so that bursts overlap sleeping "
            "runs; both subsystems; non-trivial = at least two deliveries and two runs; distinct by the whole case")

    def generate(self, ctx, budget, focus=None):
        rng = ctx.rng
        cases = []
        while len(cases) < budget:
            legacy = len(cases) % 2 == 0
            ntypes = rng.choice([1, 2, 3])
            types = [f"pv_e{i}" for i in range(ntypes)]
            nfun = rng.choice([1, 2, 2, 3])
            funcs = []
            for fi in range(nfun):
                decs = []
                for _ in range(rng.choice([1, 1, 2, 3])):
                    key = rng.choice(types)
                    flt = gen_filter(rng, DATA_KEYS[:3] + ["event_type", "trigger_type", "context"]) if rng.random() < 0.55 else None
                    if flt is not None and flt[0] == "cmp" and flt[2] in ("event_type", "trigger_type", "context"):
                        flt = ["cmp", rng.choice(["==", "!="]), flt[2], rng.choice(types + ["event"])]
                    kw = None
                    if rng.random() < 0.5:
                        kw = {k: gen_value(rng, nested_ok=False) for k in rng.sample(["kz", "kw1", "ka"], rng.choice([1, 2]))}
                    decs.append({"kind": "event", "key": key, "filter": flt, "kwargs": kw})
                if rng.random() < 0.15 and decs:
                    decs.append(dict(decs[0]))  # the same decorator twice
                # may fire only non-trigger types or types of strictly higher index than all its own (no cycles)
                hi = max(int(d["key"][4:]) for d in decs)
                fire_types = ["pv_out"] + [t for t in types if int(t[4:]) > hi]
                funcs.append({"name": f"f{fi}", "decs": decs, "acts": gen_acts(rng, fire_types, long_sleep=True)})
            sched = []
            for _ in range(rng.choice([2, 3, 5, 8, 12])):
                ent = {"kind": "event", "key": rng.choice(types + (["pv_other"] if rng.random() < 0.2 else [])), "data": gen_data(rng)}
                r = rng.random()
                if r < 0.25:
                    ent["wait"] = rng.choice([0.5, 1.0, 3.0, 40.0])
                elif r < 0.4:
                    ent["settle"] = True
                sched.append(ent)
            if rng.random() < 0.3:
                add_raise_then_ok(rng, funcs, sched)
            if rng.random() < 0.04:
                rng.choice(sched)["data"]["context"] = rng.choice(["zzz", 5])  # D81 territory
            if rng.random() < 0.3:
                add_reloads(rng, funcs, sched)
            elif rng.random() < 0.2:
                k0 = rng.choice([d["key"] for d in funcs[0]["decs"]])  # a type funcs[0] already has: the fire graph stays acyclic
                if len(funcs) < 2 or all(int(d["key"][4:]) >= int(k0[4:]) for d in funcs[1]["decs"]):
                    add_partial_stop(rng, funcs, sched, "event", k0, lambda: {"kind": "event", "key": k0, "data": gen_data(rng)})
            case = {"legacy": legacy, "funcs": funcs, "sched": sched}
            case["tail"] = tail_of(case)
            cases.append(case)
        return cases


class MqttStream(FlowStream):
    name = "mqtt"
    quick_budget, thorough_budget = 70, 700
    kind_name = "mqtt"
    rule = ("1-3 functions with 1-3 @mqtt_trigger decorators (exact and wildcard topics, shared and distinct, filters over topic/"
            "payload/qos/retain/payload_obj, decorator kwargs), some functions additionally with an @event_trigger (one legacy "
            "trigger task then serves both kinds); messages with JSON and non-JSON payloads injected at the callbacks pyscript "
            "registered with mqtt.async_subscribe (patched), one hand-over per matching subscription topic, bursts and gaps; "
            "both subsystems")

    def generate(self, ctx, budget, focus=None):
        rng = ctx.rng
        cases = []
        topics = ["pv/a", "pv/b", "pv/a/x"]
        patterns = ["pv/a", "pv/b", "pv/+", "pv/#", "pv/a/x"]
        while len(cases) < budget:
            legacy = len(cases) % 2 == 0
            funcs = []
            for fi in range(rng.choice([1, 2, 2, 3])):
                decs = []
                for _ in range(rng.choice([1, 1, 2, 3])):
                    flt = None
                    if rng.random() < 0.55:
                        r = rng.random()
                        if r < 0.15:
                            flt = gen_raising(rng, rng.choice(["qos", "payload_obj", "payload_obj"]))
                        elif r < 0.3:
                            flt = ["cmp", rng.choice([">", ">=", "==", "<"]), "qos", rng.choice([0, 1, 2])]
                        elif r < 0.5:
                            flt = ["cmp", rng.choice(["==", "!="]), "topic", rng.choice(topics)]
                        elif r < 0.7:
                            flt = ["cmp", rng.choice(["==", "<", ">="]), "payload_obj", rng.choice([1, 2, 3])]
                        elif r < 0.8:
                            flt = ["var", rng.choice(["retain", "payload", "payload_obj"])]
                        else:
                            flt = [rng.choice(["and", "or"]), ["var", "retain"], ["cmp", "==", "payload", rng.choice(["1", "on", ""])]]
                    kw = {"kz": gen_value(rng, nested_ok=False)} if rng.random() < 0.4 else None
                    decs.append({"kind": "mqtt", "key": rng.choice(patterns), "filter": flt, "kwargs": kw})
                if rng.random() < 0.25:
                    decs.insert(rng.randrange(len(decs) + 1), {"kind": "event", "key": "pv_e0",
                                                               "filter": gen_raising(rng, "ka") if rng.random() < 0.4 else None,
                                                               "kwargs": {"kz": 1} if rng.random() < 0.5 else None})
                funcs.append({"name": f"f{fi}", "decs": decs, "acts": gen_acts(rng, ["pv_out"], long_sleep=True)})
            sched = []
            for _ in range(rng.choice([2, 3, 5, 8])):
                if rng.random() < 0.15:
                    ent = {"kind": "event", "key": "pv_e0", "data": gen_data(rng)}
                else:
                    pl = rng.choice(["1", "2", "3", "on", "", "{\"x\": 1}", "[1, 2]", "null", "true", "garbage{", "\"s\""])
                    ent = {"kind": "mqtt", "topic": rng.choice(topics), "payload": pl, "qos": rng.choice([0, 1, 2]), "retain": rng.random() < 0.3}
                r = rng.random()
                if r < 0.25:
                    ent["wait"] = rng.choice([0.5, 3.0, 40.0])
                elif r < 0.4:
                    ent["settle"] = True
                sched.append(ent)
            if rng.random() < 0.25:
                add_raise_then_ok(rng, funcs, sched, ["pv_e0"])
            if rng.random() < 0.2:  # the same with an mqtt filter: int("s") -> ValueError, then well-formed messages
                fn = rng.choice(funcs)
                fn["decs"].append({"kind": "mqtt", "key": "pv/a", "filter": ["int", "==", "payload_obj", 1], "kwargs": None})
                pos = rng.randrange(len(sched) + 1)
                sched.insert(pos, {"kind": "mqtt", "topic": "pv/a", "payload": "\"s\"", "qos": 0, "retain": False})
                for _ in range(rng.choice([1, 2])):
                    sched.insert(rng.randrange(pos + 1, len(sched) + 1), {"kind": "mqtt", "topic": "pv/a", "payload": "1", "qos": 1, "retain": False})
            if rng.random() < 0.3:
                add_reloads(rng, funcs, sched)
            elif rng.random() < 0.2:
                add_partial_stop(rng, funcs, sched, "mqtt", "pv/a", lambda: {"kind": "mqtt", "topic": "pv/a", "payload": rng.choice(["1", "on"]),
                                                                           "qos": rng.choice([0, 1]), "retain": False})
            case = {"legacy": legacy, "funcs": funcs, "sched": sched}
            case["tail"] = tail_of(case)
            cases.append(case)
        return cases


class WebhookStream(FlowStream):
    name = "webhook"
    quick_budget, thorough_budget = 70, 700
    kind_name = "webhook"
    rule = ("1-3 functions with 1-2 @webhook_trigger decorators (shared and distinct webhook ids, filters over webhook_id/payload, "
            "decorator kwargs); JSON and form-encoded requests handed to the handler pyscript registered with "
            "webhook.async_register (recorded; Home Assistant's real registry keeps one handler per id); both subsystems")

    def generate(self, ctx, budget, focus=None):
        rng = ctx.rng
        cases = []
        ids = ["hook1", "hook2", "hook3"]
        while len(cases) < budget:
            legacy = len(cases) % 2 == 0
            share = rng.random() < 0.4
            funcs = []
            free = list(ids)
            rng.shuffle(free)
            for fi in range(rng.choice([1, 2, 2, 3])):
                decs = []
                for _ in range(rng.choice([1, 1, 2])):
                    if share or not free:
                        key = rng.choice(ids)
                    else:
                        key = free.pop()
                    flt = None
                    if rng.random() < 0.4:
                        flt = rng.choice([["var", "payload"], ["cmp", "==", "webhook_id", rng.choice(ids)], ["not", ["var", "payload"]],
                                          ["cmp", ">", "payload", 1], ["var", "nothere"], ["int", "==", "payload", 1],
                                          ["lookup", "webhook_id", [[1, True]]], ["div", "<", "payload", 3]])
                    kw = {"kz": gen_value(rng, nested_ok=False)} if rng.random() < 0.4 else None
                    decs.append({"kind": "webhook", "key": key, "filter": flt, "kwargs": kw})
                if rng.random() < 0.25:
                    decs.insert(rng.randrange(len(decs) + 1), {"kind": "event", "key": "pv_e0", "kwargs": None,
                                                               "filter": gen_raising(rng, "ka") if rng.random() < 0.6 else None})
                funcs.append({"name": f"f{fi}", "decs": decs, "acts": gen_acts(rng, ["pv_out"], long_sleep=True)})
            sched = []
            for _ in range(rng.choice([2, 3, 5, 8])):
                if rng.random() < 0.2:
                    ent = {"kind": "event", "key": "pv_e0", "data": gen_data(rng)}
                    sched.append(ent)
                    continue
                ent = {"kind": "webhook", "key": rng.choice(ids)}
                if rng.random() < 0.5:
                    ent["json"] = rng.choice([{}, {"x": 1}, {"x": "1", "y": [1, 2]}, {"a": None}])
                else:
                    ent["form"] = rng.choice([[], [["x", "1"]], [["x", "2"], ["x", "3"], ["y", "q"]]])
                r = rng.random()
                if r < 0.25:
                    ent["wait"] = rng.choice([0.5, 3.0, 40.0])
                elif r < 0.4:
                    ent["settle"] = True
                sched.append(ent)
            if rng.random() < 0.3:
                add_raise_then_ok(rng, funcs, sched, ["pv_e0"])
            if rng.random() < 0.3:
                add_reloads(rng, funcs, sched)
            elif rng.random() < 0.25:
                add_partial_stop(rng, funcs, sched, "webhook", "hook1", lambda: {"kind": "webhook", "key": "hook1", "json": {"x": rng.choice([1, 2])}})
            case = {"legacy": legacy, "funcs": funcs, "sched": sched}
            case["tail"] = tail_of(case)
            cases.append(case)
        return cases


class C08(Prop):
    id = "C08"
    title = "Event, MQTT and webhook triggers deliver each message exactly once"
    coq_targets = ["Properties/C08.vo"]
    property_file = "Properties/C08.v"
    streams = [EventStream(), MqttStream(), WebhookStream()]
    trusted_base = [
        "modelled, not verified: the atomic-step structure of event.py/mqtt.py/webhook.py listeners, trigger.py trigger_watch (event/mqtt/"
        "webhook branch) + call_action, decorators/{event,mqtt,webhook}.py, TriggerDecorator.dispatch, FunctionDecoratorManager.dispatch/_call, "
        "Function.event_fire/service_call/store_hass_context, State.set (Trig/EventFlow.v); asyncio.Queue is modelled as a FIFO list, the "
        "asyncio ready queue as 'tasks of one decorator start in creation order'",
        "Home Assistant's bus, MQTT client and webhook HTTP view are outside the model ('handed over by Home Assistant'): the driver fires "
        "events on the real bus, calls the callbacks pyscript registered with mqtt.async_subscribe (patched) once per matching "
        "subscription topic, and the handler found in Home Assistant's real webhook registry",
        "filter expressions are the generated fragment (names, comparisons with literals, int(x), 6 // x, dict-display lookup, not/and/or; any exception = false); values other than int/str/bool/None/"
        "Context are opaque (identity + truth value); Context() ids are assumed unique",
        "attribution of an observed run to one of several decorators of its function is found by an untrusted search in the harness and "
        "validated by the Coq checker (a wrong hint can only produce a false alarm)",
    ]
    assumptions = ["generated functions take **kwargs", "reloads happen at quiescent points (all queues drained)", "filter names are not shadowed by script globals or builtins",
                   "the Spec's kwargs merge order: documented keys, then event data, then decorator kwargs (later wins)"]
    partial_note = ("HA's own scheduling of listeners, the real MQTT/webhook transports and request decoding are not modelled; @service runs "
                    "(no stored context) are out of scope of C08")

    def translate(self, ctx):
        return {"Gen/EventFlowConsts.v": gen_eventflow_consts()}


PROP = C08()

MANIFEST_ENTRY = {
    "technique": ("Rocq proof (invariant over all step sequences of a labelled transition system: bus hand-over / consume / run step) + "
                  "trace validation inside Coq of what the real pyscript did under both decorator subsystems"),
    "level_text": ("C08_fifo_invariant/_prefix/_quiescent, C08_independent, C08_context_parent, C08_fire_exact hold for every schedule (label "
                   "sequence), every set of decorators, every payload, both subsystems, about a Gallina LTS whose func_args tables and context "
                   "keys are regenerated from the source on every run; every run of the check replays traces of the real code (bursts, overlaps "
                   "with sleeping runs, chains, MQTT and webhook hand-overs) through that LTS inside Coq and evaluates the Spec on them. "
                   "C08_refuted_D80/D81/D82 show the property false of the unchanged code in corner cases (known findings)."),
    "level_note": ("Trusted: Coq kernel + vm_compute; the atomic-step abstraction of asyncio; the harness drivers/serialiser; HA's bus/MQTT/webhook "
                   "delivery is the environment, not modelled."),
    "design_ref": "DESIGN.md §4 C08",
}
