"""C12 — a @service exists exactly while declared and calls the current definition; outgoing calls deliver the given keywords."""
import ast

from .. import coqio as q
from ..core import Prop, Stream, cfg_prelude, run_workers_parallel, split_chunks
from ..translate import CMP, TranslateError, const, find_class, find_func, one, parse_file, walk_find

CFG_FIELDS = [("d_stale_handler", "D21"), ("d_no_alias", "D23"), ("d_dup_set", "D26"), ("d_alias_abort", "D120"),
              ("d_start_order", "D121"), ("d_pending_zombie", "D122"), ("d_limit_kw", "D123"), ("d_rt_owner", "D124"), ("d_stack_rollback", "D125"), ("d_interleave", "D127"), ("d_spurious_remove", "D126")]


# ------------------------------------------------------------------------------------------------
# T1: constants of service_register / service_remove and the control-keyword tables -> Gen/ServiceConsts.v
# ------------------------------------------------------------------------------------------------
def _is_attr(node, obj, attr):
    return isinstance(node, ast.Attribute) and node.attr == attr and isinstance(node.value, ast.Name) and node.value.id == obj


def _is_cnt_key(node, table="service_cnt"):
    """cls.<table>[key]"""
    return (isinstance(node, ast.Subscript) and _is_attr(node.value, "cls", table)
            and isinstance(node.slice, ast.Name) and node.slice.id == "key")


def _body(fn):
    body = list(fn.body)
    if body and isinstance(body[0], ast.Expr) and isinstance(body[0].value, ast.Constant) and isinstance(body[0].value.value, str):
        body = body[1:]
    return body


def translate_register(cls):
    fn = find_func(cls, "service_register")
    args = [a.arg for a in fn.args.args]
    if args[:5] != ["cls", "global_ctx_name", "domain", "service", "callback"]:
        raise TranslateError(f"service_register: unexpected parameters {args}")
    body = _body(fn)
    out = {}
    idx = {}
    for i, st in enumerate(body):
        if isinstance(st, ast.Assign) and len(st.targets) == 1 and isinstance(st.targets[0], ast.Name) and st.targets[0].id == "key":
            if ast.unparse(st.value) != "f'{domain}.{service}'":
                raise TranslateError("service_register: key is not f'{domain}.{service}'")
            idx["key"] = i
        elif isinstance(st, ast.If) and ast.unparse(st.test) == "key not in cls.service_cnt":
            a = one(st.body, "statement initialising service_cnt")
            if not (isinstance(a, ast.Assign) and _is_cnt_key(a.targets[0]) and not st.orelse):
                raise TranslateError("service_register: unexpected service_cnt initialisation")
            out["reg_init_cnt"] = const(a.value)
            idx["init"] = i
        elif isinstance(st, ast.If) and ast.unparse(st.test) == "key not in cls.service2global_ctx":
            a = one(st.body, "statement initialising service2global_ctx")
            if not (isinstance(a, ast.Assign) and _is_cnt_key(a.targets[0], "service2global_ctx")
                    and isinstance(a.value, ast.Name) and a.value.id == "global_ctx_name" and not st.orelse):
                raise TranslateError("service_register: unexpected owner initialisation")
            idx["own_init"] = i
        elif isinstance(st, ast.If) and any(isinstance(n, ast.Raise) for n in st.body):
            t = st.test
            if not (isinstance(t, ast.Compare) and len(t.ops) == 1 and type(t.ops[0]) in CMP and _is_cnt_key(t.left, "service2global_ctx")
                    and isinstance(t.comparators[0], ast.Name) and t.comparators[0].id == "global_ctx_name" and not st.orelse
                    and len(st.body) == 1):
                raise TranslateError("service_register: owner check is not `if cls.service2global_ctx[key] <cmp> global_ctx_name: raise`")
            out["reg_owner_cmp"] = CMP[type(t.ops[0])]
            idx["check"] = i
        elif isinstance(st, ast.AugAssign) and _is_cnt_key(st.target):
            if not isinstance(st.op, ast.Add):
                raise TranslateError("service_register: count is not incremented with +=")
            out["reg_inc"] = const(st.value)
            idx["inc"] = i
        elif isinstance(st, ast.Expr) and isinstance(st.value, ast.Call) and ast.unparse(st.value.func) == "cls.hass.services.async_register":
            a = [ast.unparse(x) for x in st.value.args]
            if a[:3] != ["domain", "service", "callback"]:
                raise TranslateError("service_register: async_register not called with (domain, service, callback, ...)")
            idx["ha"] = i
        else:
            raise TranslateError(f"service_register: unexpected statement `{ast.unparse(st)[:80]}`")
    for need in ("key", "init", "own_init", "inc", "ha"):
        if need not in idx:
            raise TranslateError(f"service_register: missing step '{need}'")
    if "check" not in idx:
        raise TranslateError("service_register: the owner check (raise ValueError for a foreign context) is missing")
    if not idx["own_init"] < idx["check"]:
        raise TranslateError("service_register: owner check precedes owner initialisation")
    if out["reg_init_cnt"] != 0:
        raise TranslateError("service_register: initial count is not 0")
    out["reg_check_before_inc"] = idx["check"] < idx["inc"] and idx["check"] < idx["ha"]
    return out


def translate_remove(cls):
    fn = find_func(cls, "service_remove")
    body = _body(fn)
    out = {"rm_pops_owner": False}
    seen = set()
    for i, st in enumerate(body):
        if isinstance(st, ast.Assign) and isinstance(st.targets[0], ast.Name) and st.targets[0].id == "key":
            if ast.unparse(st.value) != "f'{domain}.{service}'":
                raise TranslateError("service_remove: key is not f'{domain}.{service}'")
            seen.add("key")
        elif isinstance(st, ast.If):
            t = st.test
            ok = (isinstance(t, ast.Compare) and len(t.ops) == 1 and type(t.ops[0]) in CMP and isinstance(t.left, ast.Call)
                  and ast.unparse(t.left.func) == "cls.service_cnt.get" and len(t.left.args) == 2 and ast.unparse(t.left.args[0]) == "key")
            if not ok or st.orelse or len(st.body) != 2:
                raise TranslateError("service_remove: guard is not `if cls.service_cnt.get(key, D) <cmp> K: cls.service_cnt[key] -= N; return`")
            out["rm_default"] = const(t.left.args[1])
            out["rm_cmp"] = CMP[type(t.ops[0])]
            out["rm_thresh"] = const(t.comparators[0])
            dec, ret = st.body
            if not (isinstance(dec, ast.AugAssign) and _is_cnt_key(dec.target) and isinstance(dec.op, ast.Sub)
                    and isinstance(ret, ast.Return) and ret.value is None):
                raise TranslateError("service_remove: guarded branch is not `service_cnt[key] -= N; return`")
            out["rm_dec"] = const(dec.value)
            if "reset" in seen:
                raise TranslateError("service_remove: guard follows the reset")
            seen.add("guard")
        elif isinstance(st, ast.Assign) and _is_cnt_key(st.targets[0]):
            out["rm_reset"] = const(st.value)
            seen.add("reset")
        elif isinstance(st, ast.Expr) and isinstance(st.value, ast.Call) and ast.unparse(st.value.func) == "cls.hass.services.async_remove":
            if [ast.unparse(x) for x in st.value.args] != ["domain", "service"]:
                raise TranslateError("service_remove: async_remove not called with (domain, service)")
            seen.add("ha")
        elif isinstance(st, ast.Expr) and isinstance(st.value, ast.Call) and ast.unparse(st.value.func) == "cls.service2global_ctx.pop":
            if ast.unparse(st.value.args[0]) != "key":
                raise TranslateError("service_remove: owner pop not on key")
            out["rm_pops_owner"] = True
        else:
            raise TranslateError(f"service_remove: unexpected statement `{ast.unparse(st)[:80]}`")
    for need in ("key", "guard", "reset", "ha"):
        if need not in seen:
            raise TranslateError(f"service_remove: missing step '{need}'")
    if out["rm_default"] != 0:
        raise TranslateError("service_remove: default count is not 0")
    return out


KW_IDS = {"context": 1, "blocking": 2, "return_response": 3, "limit": 4}
TY_IDS = {"Context": 1, "bool": 2, "float": 3, "int": 4, "str": 5}
LOOP_BODY = ("if keyword in kwargs and type(kwargs[keyword]) in typ:\n    hass_args[keyword] = kwargs.pop(keyword)\n"
             "elif default:\n    hass_args[keyword] = default")


def translate_kw_table(fn, where):
    loops = walk_find(fn, lambda n: isinstance(n, ast.For) and ast.unparse(n.target) == "(keyword, typ, default)")
    loop = one(loops, f"`for keyword, typ, default in [...]` loop in {where}")
    if not isinstance(loop.iter, ast.List):
        raise TranslateError(f"{where}: control keyword table is not a list display")
    if "\n".join(ast.unparse(s) for s in loop.body) != LOOP_BODY:
        raise TranslateError(f"{where}: control keyword loop body changed")
    rows = []
    for elt in loop.iter.elts:
        if not (isinstance(elt, ast.Tuple) and len(elt.elts) == 3 and isinstance(elt.elts[1], ast.List)):
            raise TranslateError(f"{where}: table row is not (keyword, [types], default)")
        kw = const(elt.elts[0], (str,))
        tys = []
        for t in elt.elts[1].elts:
            if not (isinstance(t, ast.Name) and t.id in TY_IDS):
                raise TranslateError(f"{where}: unknown type in table: {ast.unparse(t)}")
            tys.append(TY_IDS[t.id])
        d = elt.elts[2]
        if isinstance(d, ast.Constant) and d.value is None:
            has_default = False
        elif ast.unparse(d).endswith("task2context.get(curr_task, None)"):
            has_default = True
        else:
            raise TranslateError(f"{where}: unknown default {ast.unparse(d)}")
        if kw not in KW_IDS:
            raise TranslateError(f"{where}: unknown control keyword {kw!r}")
        rows.append((KW_IDS[kw], tys, has_default))
    return rows


def translate_consts():
    tree = parse_file("function.py")
    cls = find_class(tree, "Function")
    out = {}
    out.update(translate_register(cls))
    out.update(translate_remove(cls))
    out["hass_args_call"] = translate_kw_table(find_func(cls, "service_call"), "Function.service_call")
    out["hass_args_name"] = translate_kw_table(find_func(cls, "get"), "Function.get/service_call_factory")
    stree = parse_file("state.py")
    out["hass_args_entity"] = translate_kw_table(find_func(find_class(stree, "State"), "get"), "State.get/service_call_factory")
    # the entity-method path calls hass.services.async_call directly; the other two go through hass_services_async_call
    sget = find_func(find_class(stree, "State"), "get")
    calls = [ast.unparse(n.func) for n in ast.walk(sget) if isinstance(n, ast.Call)]
    out["entity_via_helper"] = "Function.hass_services_async_call" in calls
    if not out["entity_via_helper"] and "cls.hass.services.async_call" not in calls:
        raise TranslateError("State.get: entity-method call reaches neither async_call nor hass_services_async_call")
    return out


def gen_consts():
    c = translate_consts()
    lines = ["(* GENERATED by harness/vh/props/c12.py from function.py / state.py — do not edit *)",
             "From PV Require Import Common.Util.", ""]
    for k, v in c.items():
        if k.startswith("hass_args_"):
            rows = [f"({q.N(kw)}, {q.lst(q.N(t) for t in tys)}, {q.boolean(d)})" for kw, tys, d in v]
            lines.append(f"Definition {k} : list (N * list N * bool) := {q.lst(rows)}.")
        elif isinstance(v, bool):
            lines.append(f"Definition {k} : bool := {q.boolean(v)}.")
        elif isinstance(v, str):
            lines.append(f"Definition {k} : cmpop := {v}.")
        else:
            lines.append(f"Definition {k} : N := {q.N(v)}.")
    return "\n".join(lines) + "\n"


# ------------------------------------------------------------------------------------------------
# stream 1: life cycle
# ------------------------------------------------------------------------------------------------
SRD = {None: "DAbs", "none": "DNone", "optional": "DOpt", "only": "DOnly"}


def _decl(st):
    return [100 + st["fn"]] if st.get("names") is None else list(st["names"])


def _q_stmt(st):
    if st["s"] in ("def", "defrt", "defst"):
        ctor = {"def": "SDef", "defrt": "SDefRt", "defst": "SDefSt"}[st["s"]]
        return f"({ctor} {q.N(st['fn'])} {q.lst(q.N(k) for k in _decl(st))} {SRD[st.get('sr')]})"
    return f"(SDel {q.N(st['fn'])})"


def _q_body(b):
    return q.lst(_q_stmt(s) for s in b)


def _q_files(files):
    return q.lst(f"({q.N(int(c))}, {_q_body(b)})" for c, b in sorted(files.items(), key=lambda p: int(p[0])))


def _q_kw(d):
    return q.lst(f"({q.N(int(k))}, {q.Z(v)})" for k, v in sorted(d.items(), key=lambda p: int(p[0])))


def _q_outc(o):
    k = o["k"]
    if k == "none":
        return "OcNone"
    if k == "err":
        return "OcErr"
    if k == "run":
        ret = o["ret"]
        r = "None" if ret is None else f"(Some {q.N(ret if ret >= 0 else 999999)})"
        return f"(OcRun {q.N(o['gen'])} {q.lst(f'({q.N(a)}, {q.Z(b)})' for a, b in o['kw'])} {r})"
    return "(OcRun 999999%N [] None)"


def _q_kobs(o):
    own = o.get("owner")
    if own is None:
        ow = "None"
    elif own.startswith("file.c") and own[6:].isdigit():
        ow = f"(Some {q.N(int(own[6:]))})"
    elif "._mk" in own and own.split("._mk")[1].isdigit():
        ow = f"(Some {q.N(1000 + int(own.split('._mk')[1]))})"   # owned by the evaluation context of maker function _mk<gen>
    else:
        ow = "(Some 999999%N)"
    return f"(mk_kobs {q.boolean(o['has'])} {q.N(o['cnt'])} {ow} {_q_outc(o['r0'])} {_q_outc(o['r1'])})"


def _mentioned_keys(case):
    ks = set()
    bodies = list(case.get("init", {}).values())
    for op in case["ops"]:
        if "body" in op:
            bodies.append(op["body"])
        bodies += list(op.get("files", {}).values())
    for b in bodies:
        for st in b:
            if st["s"] in ("def", "defrt", "defst"):
                ks.update(_decl(st))
    return sorted(ks)


class _Gen:
    """random life-cycle operation sequences; tracks just enough to keep `del` and `exec` meaningful"""

    def __init__(self, rng, legacy, nctx, profile):
        self.rng = rng
        self.legacy = legacy
        self.nctx = nctx
        self.profile = profile
        self.files = {}          # ctx -> body
        self.bound = {}          # ctx -> set of bound function names
        self.nkeys = rng.choice([1, 2, 2, 3])
        self.nfn = rng.choice([1, 2, 2, 3])

    def names(self, f):
        rng = self.rng
        r = rng.random()
        p_alias = {"plain": 0.0, "mixed": 0.12, "alias": 0.5}[self.profile]
        if r < p_alias:
            n = rng.choice([2, 2, 3])
            ks = [rng.randint(1, self.nkeys + 1) for _ in range(n)]
            if rng.random() < 0.2:
                ks.append(100 + rng.randrange(self.nfn))
            return ks
        if r < p_alias + 0.15:
            return None
        if r < p_alias + 0.2:
            return [100 + rng.randrange(self.nfn)]
        return [rng.randint(1, self.nkeys)]

    def stmt(self, bound, live=False):
        rng = self.rng
        if bound and rng.random() < 0.25:
            f = rng.choice(sorted(bound))
            bound.discard(f)
            return {"s": "del", "fn": f}
        f = rng.randrange(self.nfn)
        bound.add(f)
        sr = rng.choice([None, None, None, "none", "optional", "only"])
        kind = "defrt" if (live and rng.random() < 0.25) else "def"
        if self.profile != "plain" and rng.random() < 0.15:   # several @service decorators stacked on one function
            pool = list(range(1, self.nkeys + 2)) + [100 + i for i in range(self.nfn)]
            return {"s": "defst", "fn": f, "names": rng.sample(pool, rng.choice([2, 2, 3])), "sr": sr}
        return {"s": kind, "fn": f, "names": self.names(f), "sr": sr}

    def body(self, bound, live):
        rng = self.rng
        n = rng.choice([1, 1, 2, 2, 3, 4]) if not live else rng.choice([1, 1, 1, 2, 3])
        if self.profile == "plain" and not live:
            # at most one definition per name and no `del` in files: keeps D121/D122 out of most cases
            fs = rng.sample(range(self.nfn), min(self.nfn, n))
            out = []
            for f in fs:
                bound.add(f)
                out.append({"s": "def", "fn": f, "names": self.names(f), "sr": rng.choice([None, None, "none", "optional", "only"])})
            return out
        return [self.stmt(bound, live) for _ in range(n)]

    def data(self):
        rng = self.rng
        return {str(rng.randint(1, 5)): rng.randint(-3, 50) for _ in range(rng.choice([0, 1, 1, 2]))}

    def op(self):
        rng = self.rng
        loaded = sorted(self.files)
        r = rng.random()
        if loaded and r < 0.45:
            c = rng.choice(loaded)
            return {"op": "exec", "ctx": c, "body": self.body(self.bound[c], True), "data": self.data()}
        if r < 0.75 or not loaded:
            c = rng.randrange(self.nctx)
            self.bound[c] = set()
            b = self.body(self.bound[c], False)
            self.files[c] = b
            return {"op": "load", "ctx": c, "body": b, "data": self.data()}
        if r < 0.87:
            c = rng.choice(loaded)
            del self.files[c]
            del self.bound[c]
            return {"op": "unload", "ctx": c, "data": self.data()}
        files = {}
        if rng.random() < 0.5:
            c = rng.randrange(self.nctx)
            self.bound[c] = set()
            files[str(c)] = self.body(self.bound[c], False)
            self.files[c] = files[str(c)]
        # every file is re-executed: recompute which names are bound
        for c, b in self.files.items():
            bd = set()
            for st in b:
                (bd.add if st["s"] in ("def", "defrt", "defst") else bd.discard)(st["fn"])
            self.bound[c] = bd
        return {"op": "reload_all", "files": files, "data": self.data()}

    def case(self):
        rng = self.rng
        init = {}
        if rng.random() < 0.6:
            for c in rng.sample(range(self.nctx), rng.randint(1, self.nctx)):
                self.bound[c] = set()
                init[str(c)] = self.body(self.bound[c], False)
                self.files[c] = init[str(c)]
        ops = [self.op() for _ in range(rng.choice([2, 3, 4, 5, 6, 8]))]
        case = {"legacy": self.legacy, "init": init, "init_data": self.data(), "ops": ops}
        case["keys"] = _mentioned_keys(case)
        return case


def _def(f, names, sr=None):
    return {"s": "def", "fn": f, "names": names, "sr": sr}


def directed_cases():
    """small hand-written sequences around every mechanism (both subsystems)"""
    out = []
    for legacy in (True, False):
        def case(init, ops):
            c = {"legacy": legacy, "init": init, "init_data": {"1": 5}, "ops": ops}
            c["keys"] = _mentioned_keys(c)
            out.append(c)

        d = {"data": {"2": 9}}
        # seamless redefinition (register-before-remove), then delete
        case({"0": [_def(0, [1])]}, [{"op": "exec", "ctx": 0, "body": [_def(0, [1])], **d}, {"op": "exec", "ctx": 0, "body": [_def(0, [1], "optional")], **d},
                                      {"op": "exec", "ctx": 0, "body": [{"s": "del", "fn": 0}], **d}])
        # redefinition under a different name
        case({"0": [_def(0, [1])]}, [{"op": "exec", "ctx": 0, "body": [_def(0, [2])], **d}, {"op": "exec", "ctx": 0, "body": [_def(0, None)], **d}])
        # two functions, one name; delete the older, then the newer
        case({"0": [_def(0, [1])]}, [{"op": "exec", "ctx": 0, "body": [_def(1, [1])], **d}, {"op": "exec", "ctx": 0, "body": [{"s": "del", "fn": 0}], **d},
                                      {"op": "exec", "ctx": 0, "body": [{"s": "del", "fn": 1}], **d}])
        # takeover attempts: second context declares a name owned by the first; owner goes away; second reloads
        case({"0": [_def(0, [1])], "1": [_def(0, [1], "optional")]},
             [{"op": "unload", "ctx": 0, **d}, {"op": "load", "ctx": 1, "body": [_def(0, [1], "optional")], **d},
              {"op": "load", "ctx": 0, "body": [_def(0, [1])], **d}, {"op": "reload_all", "files": {}, **d}])
        # same default name in three contexts
        case({"0": [_def(0, None)], "1": [_def(0, None)], "2": [_def(0, None)]},
             [{"op": "unload", "ctx": 0, **d}, {"op": "reload_all", "files": {}, **d}, {"op": "unload", "ctx": 1, **d}, {"op": "reload_all", "files": {}, **d}])
        # supports_response matrix
        case({"0": [_def(0, [1], "none"), _def(1, [2], "optional"), _def(2, [3], "only")]}, [{"op": "load", "ctx": 0, "body": [_def(0, [1], "only"), _def(1, [2]), _def(2, [3], "optional")], **d}])
        # functions created at run time by a running service function (factory pattern): dropped, reloaded, redefined at file level
        rt = lambda f, names, sr=None: {"s": "defrt", "fn": f, "names": names, "sr": sr}
        case({"0": [_def(1, [2])]}, [{"op": "exec", "ctx": 0, "body": [rt(0, [1])], **d}, {"op": "exec", "ctx": 0, "body": [{"s": "del", "fn": 0}], **d}])
        case({"0": [_def(1, [2])]}, [{"op": "exec", "ctx": 0, "body": [rt(0, [1], "optional")], **d}, {"op": "load", "ctx": 0, "body": [_def(1, [2])], **d}])
        case({"0": []}, [{"op": "exec", "ctx": 0, "body": [rt(0, None)], **d}, {"op": "exec", "ctx": 0, "body": [rt(0, None)], **d}, {"op": "unload", "ctx": 0, **d}])
        case({"0": [], "1": []}, [{"op": "exec", "ctx": 0, "body": [rt(0, [1])], **d}, {"op": "exec", "ctx": 1, "body": [rt(0, [1])], **d},
                                   {"op": "exec", "ctx": 0, "body": [_def(1, [1])], **d}, {"op": "exec", "ctx": 0, "body": [{"s": "del", "fn": 0}], **d}])
        # several @service decorators stacked on one function; one of the names owned elsewhere
        stk = lambda f, names, sr=None: {"s": "defst", "fn": f, "names": names, "sr": sr}
        case({"0": [stk(0, [1, 2])]}, [{"op": "exec", "ctx": 0, "body": [stk(0, [2, 3], "optional")], **d}, {"op": "exec", "ctx": 0, "body": [{"s": "del", "fn": 0}], **d}])
        case({"0": [_def(0, [2])], "1": [stk(0, [1, 2, 3])]}, [{"op": "unload", "ctx": 0, **d}, {"op": "load", "ctx": 1, "body": [stk(0, [1, 2, 3])], **d}, {"op": "unload", "ctx": 1, **d}])
        # reload with changed content, unload
        case({"0": [_def(0, [1]), _def(1, [2])]}, [{"op": "load", "ctx": 0, "body": [_def(1, [2]), _def(2, [3])], **d}, {"op": "unload", "ctx": 0, **d}])
    return out


class LifeStream(Stream):
    name = "life"
    rule = ("operation sequences over 1-3 contexts: start-up with files, exec of def/redefine/del statements in a live context, "
            "reload of one file with new content, unload, reload of everything; 1-3 function names, 1-3 service names plus "
            "default names, alias lists, duplicate aliases, supports_response none/optional/only/absent; after every operation "
            "every mentioned name is probed (has_service, service_cnt, owner, async_call with and without return_response with "
            "fresh data; which generation ran, its kwargs, the returned value); both subsystems; non-trivial = at least one "
            "redefinition, deletion, reload or cross-context clash happened; distinct by the whole case")
    requires = "From PV Require Import Life.Services Life.ServicesSpec Life.ServicesCheck."
    case_type = "lcase"
    check_model = "lcase_model_ok pv_cfg"
    check_spec = "lcase_spec_ok"
    attrib = "lcase_attrib pv_cfg"
    explain = "lcase_explain pv_cfg"
    shard_size = 60

    def budget(self, tier):
        return 260 if tier == "quick" else 3000

    def generate(self, ctx, budget, focus=None):
        rng = ctx.rng
        cases = directed_cases()
        while len(cases) < budget:
            legacy = rng.random() < 0.5
            profile = rng.choice(["plain", "plain", "mixed", "mixed", "alias"])
            cases.append(_Gen(rng, legacy, rng.choice([1, 2, 2, 3]), profile).case())
        return cases

    def run_impl(self, ctx, cases):
        chunks = split_chunks(cases, 12)
        res = run_workers_parallel(ctx, "vh.workers.c12_services", [{"op": "life", "cases": c} for c in chunks], timeout=1500)
        out = [o for r in res for o in r]
        for o in out:
            if "error" in o:
                raise RuntimeError("C12 life worker failed on a case: " + o["error"] + "\n" + o.get("tb", ""))
        return out

    def to_coq(self, case, obs):
        steps = obs["steps"]
        ops = [(f"(OReloadAll {_q_files(case.get('init', {}))} {q.lst(q.N(g) for g in steps[0].get('oracle', []))})", case.get("init_data", {}))]
        for op, st in zip(case["ops"], steps[1:]):
            k = op["op"]
            orc = q.lst(q.N(g) for g in st.get("oracle", []))
            if k == "exec":
                t = f"(OExec {q.N(op['ctx'])} {_q_body(op['body'])})"
            elif k == "load":
                t = f"(OLoad {q.N(op['ctx'])} {_q_body(op['body'])} {orc})"
            elif k == "unload":
                t = f"(OUnload {q.N(op['ctx'])})"
            else:
                t = f"(OReloadAll {_q_files(op.get('files', {}))} {orc})"
            ops.append((t, op.get("data", {})))
        obs_t = q.lst(q.lst(_q_kobs(o) for o in st["obs"]) for st in steps)
        return ("{| lc_legacy := %s; lc_keys := %s; lc_ops := %s; lc_obs := %s |}" % (
            q.boolean(case["legacy"]), q.lst(q.N(k) for k in case["keys"]),
            q.lst(f"({t}, {_q_kw(d)})" for t, d in ops), obs_t))

    def prelude(self, ctx, findings, witness_terms):
        return cfg_prelude(CFG_FIELDS, findings, witness_terms, "lcase_spec_ok")

    def nontrivial(self, case, obs):
        return len(case["ops"]) >= 1 and any(o["has"] for st in obs["steps"] for o in st["obs"])

    def kind(self, case, obs):
        kinds = sorted({op["op"] for op in case["ops"]})
        nctx = len({str(op.get("ctx")) for op in case["ops"] if "ctx" in op} | set(case.get("init", {})))
        return f"{'legacy' if case['legacy'] else 'new'}/{nctx}ctx/{'+'.join(kinds)}"

    def describe(self, case, obs):
        return {"legacy": case["legacy"], "init": case.get("init"), "ops": case["ops"], "keys": case["keys"],
                "after_each_step": [[{"has": o["has"], "cnt": o["cnt"], "r0": o["r0"].get("gen"), "r1": o["r1"].get("gen")} for o in st["obs"]]
                                    for st in obs["steps"]]}


# ------------------------------------------------------------------------------------------------
# stream 2: outgoing calls
# ------------------------------------------------------------------------------------------------
SITE = {"call": "SiteCall", "name": "SiteName", "entity": "SiteEntity"}
TARGET = {"none": "SrNone", "opt": "SrOpt", "only": "SrOnly"}


def _q_kwarg(k):
    return f"(mk_kw {q.N(k[0])} {q.N(k[1])} {q.Z(k[2])})"


class OutStream(Stream):
    name = "out"
    rule = ("calls made from a running script through service.call(d, s, **kw), d.s(**kw) and d.entity.s(*args, **kw) to recording "
            "target services (HA services and pyscript @service functions of either subsystem) with supports_response none/optional/only; "
            "the value the script gets back is checked; keyword sets mixing free parameters with the control keywords "
            "context/blocking/return_response/limit given with matching and non-matching value types, 0-2 positional arguments, caller "
            "run by a service call (no task context) or by an event trigger (task context); observed: data received by the target, "
            "call.return_response, arguments reaching hass.services.async_call, exception type in the script; both subsystems; "
            "non-trivial = a control keyword or a positional argument is present")
    requires = "From PV Require Import Life.Services Life.ServiceCalls Life.ServicesCheck."
    case_type = "ocase"
    check_model = "ocase_model_ok pv_cfg"
    check_spec = "ocase_spec_ok"
    attrib = "ocase_attrib pv_cfg"
    explain = "ocase_explain pv_cfg"
    shard_size = 400

    def budget(self, tier):
        return 400 if tier == "quick" else 4000

    def generate(self, ctx, budget, focus=None):
        rng = ctx.rng
        cases = []
        # bounded-exhaustive: every control keyword alone with every value type, at every site
        for site in ("call", "name", "entity"):
            for key in (1, 2, 3, 4):
                for ty in (1, 2, 3, 4, 5, 6):
                    for val in ((0, 1) if ty == 2 else (3,)):
                        cases.append({"legacy": (key + ty) % 2 == 0, "site": site, "via": "service", "target": "opt", "nargs": 0, "nparams": 1,
                                      "kws": [[40, 4, 7], [key, ty, 0 if ty in (1, 6) else val]]})
        # script -> pyscript @service function, every response mode x control combination, both subsystems
        for legacy in (False, True):
            for site in ("call", "name"):
                for tgt in ("none", "opt", "only"):
                    for ctrl in ([], [[3, 2, 1]], [[3, 2, 0]], [[2, 2, 1]], [[2, 2, 0]], [[3, 2, 1], [2, 2, 1]], [[3, 2, 1], [2, 2, 0]]):
                        cases.append({"legacy": legacy, "site": site, "via": "service", "target": tgt, "tkind": "ps", "nargs": 0, "nparams": 1,
                                      "kws": [[40, 4, 21]] + ctrl})
        while len(cases) < budget:
            site = rng.choice(["call", "name", "entity"])
            kws = []
            for key in rng.sample([1, 2, 3, 4, 30, 31, 40, 41, 42], rng.choice([0, 1, 2, 2, 3, 4, 5])):
                if key == 1:
                    ty = rng.choice([1, 1, 1, 6, 4])
                elif key in (2, 3):
                    ty = rng.choice([2, 2, 2, 2, 4, 5, 6])
                elif key == 4:
                    ty = rng.choice([3, 4, 4, 5, 2])
                else:
                    ty = rng.choice([2, 3, 4, 4, 5, 6])
                val = rng.randint(0, 1) if ty == 2 else (0 if ty in (1, 6) else rng.randint(0, 9))
                kws.append([key, ty, val])
            nargs = rng.choice([0, 0, 0, 0, 1, 1, 2]) if site != "call" else 0
            cases.append({"legacy": rng.random() < 0.5, "site": site, "via": rng.choice(["service", "service", "event"]),
                          "target": rng.choice(["none", "opt", "only"]), "tkind": "ps" if (site != "entity" and rng.random() < 0.4) else "ha",
                          "nargs": nargs, "nparams": rng.choice([1, 2]), "kws": kws})
        return cases

    def run_impl(self, ctx, cases):
        chunks = split_chunks(cases, 4)
        res = run_workers_parallel(ctx, "vh.workers.c12_services", [{"op": "out", "cases": c} for c in chunks], timeout=1200)
        return [o for r in res for o in r]

    def to_coq(self, case, obs):
        if obs["seen"]:
            s = obs["seen"][-1]
            res = f"(ODelivered {q.lst(_q_kwarg(k) for k in s['data'])} {q.boolean(s['rr'])})"
            if len(obs["seen"]) > 1:
                res = "OOther"
        elif obs["exc"] == "TypeError":
            res = "OTypeError"
        elif obs["exc"] == "ServiceValidationError":
            res = "OValidation"
        else:
            res = "OOther"
        if obs["passed"]:
            kw = obs["passed"][-1]["kw"]
            passed = f"(Some ({q.boolean('context' in kw)}, {q.boolean(kw.get('blocking') is True)}, {q.boolean(kw.get('return_response') is True)}))"
        else:
            passed = "None"
        ps = case.get("tkind") == "ps"
        # how HA validates the target: a legacy pyscript function registers the decorator keyword as a plain string, which HA's
        # `is` tests treat like OPTIONAL
        target = "SrOpt" if (ps and case["legacy"]) else TARGET[case["target"]]
        only = case["target"] == "only"
        got = obs.get("got")
        ret = "None" if (obs["exc"] or got is None) else f"(Some {q.boolean(bool(got))})"
        return ("{| oc_site := %s; oc_task_ctx := %s; oc_target := %s; oc_honly := %s; oc_decl_only := %s; oc_nargs := %s; oc_nparams := %s; "
                "oc_kws := %s; oc_res := %s; oc_passed := %s; oc_ret := %s |}" % (
                    SITE[case["site"]], q.boolean(case["via"] == "event"), target, q.boolean(only), q.boolean(only), q.N(case["nargs"]),
                    q.N(case["nparams"]), q.lst(_q_kwarg(k) for k in case["kws"]), res, passed, ret))

    def prelude(self, ctx, findings, witness_terms):
        return cfg_prelude(CFG_FIELDS, findings, witness_terms, "ocase_spec_ok")

    def nontrivial(self, case, obs):
        return case["nargs"] > 0 or any(k[0] in (1, 2, 3, 4) for k in case["kws"])

    def kind(self, case, obs):
        ctrl = sorted({k[0] for k in case["kws"] if k[0] in (1, 2, 3, 4)})
        res = "delivered" if obs["seen"] else (obs["exc"] or "nothing")
        return f"{case['site']}/{case.get('tkind', 'ha')}-{case['target']}/ctrl{''.join(map(str, ctrl))}/args{case['nargs']}/{res}"

    def describe(self, case, obs):
        return {"case": case, "code": obs.get("code"), "exception": obs.get("exc"), "target_saw": obs.get("seen"), "async_call_got": obs.get("passed")}


# ------------------------------------------------------------------------------------------------
# stream 3: overlapping calls of one service
# ------------------------------------------------------------------------------------------------
class OverlapStream(Stream):
    name = "overlap"
    rule = ("2-3 concurrent hass.services.async_call(..., blocking=True, return_response=True) of one service whose function "
            "computes a local from its data, suspends in task.sleep for a per-call duration and returns a value computed from "
            "the local and the data; start times and durations chosen so that calls are nested, sequential and - most cases - "
            "resumed in non-nested order (an earlier call resumes while a later one is still suspended); supports_response "
            "optional/only; both subsystems; non-trivial = at least two calls suspended at the same time")
    requires = "From PV Require Import Life.Services Life.ServicesCheck."
    case_type = "vcase"
    check_model = "vcase_model_ok"
    check_spec = "vcase_spec_ok"
    explain = "vcase_explain"
    shard_size = 200

    def budget(self, tier):
        return 60 if tier == "quick" else 600

    def generate(self, ctx, budget, focus=None):
        rng = ctx.rng
        cases = []
        for legacy in (False, True):
            for sr in ("optional", "only"):
                # non-nested resume order, nested, sequential, three-way
                cases.append({"legacy": legacy, "sr": sr, "calls": [{"a": 10, "start": 0, "dur": 2}, {"a": 500, "start": 1, "dur": 3}]})
                cases.append({"legacy": legacy, "sr": sr, "calls": [{"a": 10, "start": 0, "dur": 4}, {"a": 500, "start": 1, "dur": 1}]})
                cases.append({"legacy": legacy, "sr": sr, "calls": [{"a": 10, "start": 0, "dur": 1}, {"a": 500, "start": 2, "dur": 1}]})
                cases.append({"legacy": legacy, "sr": sr, "calls": [{"a": 3, "start": 0, "dur": 3}, {"a": 40, "start": 1, "dur": 4}, {"a": 7, "start": 2, "dur": 1}]})
        while len(cases) < budget:
            n = rng.choice([2, 2, 3])
            calls = [{"a": rng.randint(-20, 900), "start": rng.randint(0, 3), "dur": rng.randint(1, 6)} for _ in range(n)]
            cases.append({"legacy": rng.random() < 0.4, "sr": rng.choice(["optional", "only"]), "calls": calls})
        return cases

    def run_impl(self, ctx, cases):
        chunks = split_chunks(cases, 6)
        res = run_workers_parallel(ctx, "vh.workers.c12_services", [{"op": "ov", "cases": c} for c in chunks], timeout=900)
        return [o for r in res for o in r]

    def to_coq(self, case, obs):
        # observations come back in start order; match them to the case's calls by position after the same sort
        order = sorted(range(len(case["calls"])), key=lambda i: case["calls"][i]["start"])
        calls = []
        for pos, i in enumerate(order):
            c, o = case["calls"][i], obs["calls"][pos]
            ret = f"(Some ({q.Z(o['res'])}, {q.Z(o['a1'])}))" if o["k"] == "ret" and isinstance(o.get("res"), int) and isinstance(o.get("a1"), int) else "None"
            calls.append(f"(mk_vcall {q.Z(c['a'])} {q.N(c['start'])} {q.N(c['dur'])} {ret})")
        fired = [f"({q.Z(a if isinstance(a, int) else -99999)}, {q.Z(r if isinstance(r, int) else -99999)}, {q.boolean(t == 0)})" for a, r, t in obs["fired"]]
        return f"(mk_vcase {q.lst(calls)} {q.lst(fired)})"

    def nontrivial(self, case, obs):
        cs = case["calls"]
        return any(a is not b and a["start"] < b["start"] + b["dur"] and b["start"] < a["start"] + a["dur"] for a in cs for b in cs)

    def kind(self, case, obs):
        cs = sorted(case["calls"], key=lambda c: c["start"])
        ends = [c["start"] + c["dur"] for c in cs]
        shape = "non-nested" if any(cs[i]["start"] < cs[j]["start"] < ends[i] < ends[j] for i in range(len(cs)) for j in range(len(cs)) if i != j) else "nested-or-sequential"
        return f"{'legacy' if case['legacy'] else 'new'}/{len(cs)}calls/{shape}"

    def describe(self, case, obs):
        return {"case": case, "observed": obs}


# ------------------------------------------------------------------------------------------------
# stream 4: an operation arriving in the middle of the start-ups of a (re)loaded context
# ------------------------------------------------------------------------------------------------
class MidStream(Stream):
    name = "mid"
    rule = ("default subsystem: ordinary operations, then a (re)load of a context whose functions carry 1-3 stacked @service "
            "decorators, with the start-ups of its decorator managers held after their first turn (each registered its first name "
            "and waits in `await State.get_service_params()`), then one operation executed while they wait - unload or reload of that "
            "context, (re)load/unload of another context, a deletion elsewhere - then the release; probed after each of the three; the "
            "Spec judges the final state against the plain sequence; non-trivial = a manager was waiting with names still to register")
    requires = "From PV Require Import Life.Services Life.ServicesSpec Life.ServicesMid Life.ServicesCheck."
    case_type = "mcase"
    check_model = "mcase_model_ok pv_cfg"
    check_spec = "mcase_spec_ok"
    attrib = "mcase_attrib pv_cfg"
    explain = "mcase_explain pv_cfg"
    shard_size = 60

    def budget(self, tier):
        return 80 if tier == "quick" else 800

    @staticmethod
    def _case(init, held_ctx, held_body, intr):
        c = {"legacy": False, "init": init, "init_data": {},
             "ops": [{"op": "load", "ctx": held_ctx, "body": held_body, "hold": True, "data": {}}, dict(intr, data={}), {"op": "release", "data": {}}]}
        c["keys"] = _mentioned_keys(c)
        return c

    def generate(self, ctx, budget, focus=None):
        rng = ctx.rng
        stk = lambda f, names, sr=None: {"s": "defst", "fn": f, "names": names, "sr": sr}
        cases = [
            # the context is unloaded / reloaded while its two-name function has registered only the first name
            self._case({}, 1, [stk(0, [1, 2])], {"op": "unload", "ctx": 1}),
            self._case({"0": [_def(0, [2])]}, 1, [stk(0, [1, 2])], {"op": "unload", "ctx": 1}),
            self._case({"0": [_def(0, [3])]}, 1, [stk(0, [1, 2]), _def(1, [3])], {"op": "load", "ctx": 1, "body": [_def(0, [1])]}),
            self._case({"0": [_def(0, [3])]}, 1, [stk(0, [1, 2, 3])], {"op": "load", "ctx": 0, "body": [_def(0, [2])]}),
            self._case({"0": [_def(0, [3])]}, 1, [stk(0, [1, 2])], {"op": "unload", "ctx": 0}),
        ]
        while len(cases) < budget:
            nk = rng.choice([2, 3, 3, 4])
            init = {}
            for c in rng.sample([0, 2], rng.choice([0, 1, 1, 2])):
                init[str(c)] = [_def(f, [rng.randint(1, nk)], rng.choice([None, None, "optional"])) for f in rng.sample(range(3), rng.choice([1, 2]))]
            held = []
            for f in rng.sample(range(3), rng.choice([1, 2, 2, 3])):
                n = rng.choice([1, 2, 2, 3])
                if n == 1:
                    held.append(_def(f, [rng.randint(1, nk)], rng.choice([None, "optional"])))
                else:
                    held.append(stk(f, rng.sample(range(1, nk + 1), min(n, nk)), rng.choice([None, "optional"])))
            others = sorted(int(c) for c in init)
            r = rng.random()
            if r < 0.35:
                intr = {"op": "unload", "ctx": 1}
            elif r < 0.6:
                intr = {"op": "load", "ctx": 1, "body": [_def(rng.randrange(3), [rng.randint(1, nk)])]}
            elif r < 0.8 or not others:
                c2 = rng.choice([0, 2])
                intr = {"op": "load", "ctx": c2, "body": [_def(rng.randrange(3), [rng.randint(1, nk)])]}
            else:
                intr = {"op": "unload", "ctx": rng.choice(others)}
            cases.append(self._case(init, 1, held, intr))
        return cases

    def run_impl(self, ctx, cases):
        chunks = split_chunks(cases, 8)
        res = run_workers_parallel(ctx, "vh.workers.c12_services", [{"op": "life", "cases": c} for c in chunks], timeout=1200)
        out = [o for r in res for o in r]
        for o in out:
            if "error" in o:
                raise RuntimeError("C12 mid worker failed on a case: " + o["error"] + "\n" + o.get("tb", ""))
        return out

    def to_coq(self, case, obs):
        steps = obs["steps"]
        pre = f"[OReloadAll {_q_files(case.get('init', {}))} {q.lst(q.N(g) for g in steps[0].get('oracle', []))}]"
        held, intr = case["ops"][0], case["ops"][1]
        k = intr["op"]
        orc = q.lst(q.N(g) for g in steps[2].get("oracle", []))
        if k == "load":
            it = f"(OLoad {q.N(intr['ctx'])} {_q_body(intr['body'])} {orc})"
        elif k == "unload":
            it = f"(OUnload {q.N(intr['ctx'])})"
        else:
            raise ValueError(k)
        obs_t = q.lst(q.lst(_q_kobs(o) for o in st["obs"]) for st in steps[1:4])
        return ("{| mc_keys := %s; mc_pre := %s; mc_ctx := %s; mc_body := %s; mc_oracle := %s; mc_intr := %s; mc_obs := %s |}" % (
            q.lst(q.N(x) for x in case["keys"]), pre, q.N(held["ctx"]), _q_body(held["body"]),
            q.lst(q.N(g) for g in steps[1].get("oracle", [])), it, obs_t))

    def prelude(self, ctx, findings, witness_terms):
        # switches whose witnesses belong to the life stream are not measured here: on iff the finding is still open
        from ..core import load_findings

        status = {f["id"]: f.get("status", "") for f in load_findings("C12")}
        lines, fields = [], []
        for field, fid in CFG_FIELDS:
            if fid in witness_terms and status.get(fid) == "open":
                lines.append(f"Definition pv_w_{fid} := {witness_terms[fid]}.")
                fields.append(f"{field} := negb (mcase_spec_ok pv_w_{fid})")
            else:
                fields.append(f"{field} := {q.boolean(status.get(fid) == 'open' and fid not in ('D126',))}")
        lines.append("Definition pv_cfg := {| " + "; ".join(fields) + " |}.")
        return "\n".join(lines)

    def nontrivial(self, case, obs):
        return any(st["s"] == "defst" for st in case["ops"][0]["body"])

    def kind(self, case, obs):
        intr = case["ops"][1]
        same = intr.get("ctx") == case["ops"][0]["ctx"]
        return f"{intr['op']}-{'same' if same else 'other'}ctx/{len(case['ops'][0]['body'])}fn"

    def describe(self, case, obs):
        return {"init": case.get("init"), "held_load": case["ops"][0], "interruption": case["ops"][1],
                "after_held_interrupt_release": [[{"has": o["has"], "cnt": o["cnt"], "gen": o["r0"].get("gen")} for o in st["obs"]] for st in obs["steps"][1:4]]}


class C12(Prop):
    id = "C12"
    title = "A @service exists exactly while declared and calls the current definition"
    coq_targets = ["Properties/C12.vo"]
    property_file = "Properties/C12.v"
    streams = [LifeStream(), OutStream(), OverlapStream(), MidStream()]
    trusted_base = [
        "modelled, not verified: Function.service_register/service_remove (Life/Services.v register/remove, constants from "
        "Gen/ServiceConsts.v), the service part of EvalFunc.trigger_init/trigger_stop, EvalFuncVar.__del__, ast_functiondef's "
        "register-before-rebind order, ServiceDecorator.validate/start/stop, FunctionDecoratorManager's finalizer, "
        "GlobalContext.start/stop, reload_scripts_handler/load_scripts (which contexts are stopped, loaded and started, in sorted order)",
        "environment model: HomeAssistant's ServiceRegistry (async_register overwrites the handler, async_remove, has_service, "
        "async_call's response-mode validation with `is`-comparison of supports_response; no `limit` parameter in 2025.1)",
        "CPython reference counting runs EvalFuncVar.__del__/weakref.finalize at rebinding/del time; the driver executes statements in "
        "a live context through a fresh AstEval on the context (what the Jupyter kernel does)",
        "the reference semantics Life/ServicesSpec.v (Spec) is tied to the all-switches-off Model by C12_refines_legacy / "
        "C12_refines_partial (see partial) and by the per-case Spec/Model checks",
    ]
    assumptions = [
        "scripts never `del` an unbound name and never alias a function object under a second name (generated cases do not)",
        "service names are not pyscript's builtin services (reload, jupyter_kernel_start)",
        "operations are separated by quiescence (the driver settles the event loop after every operation)",
        "outgoing calls: keyword names are distinct (Python guarantees it)",
    ]
    partial_note = ("the theorems are about the Model with all deviation switches off; the unchanged code has D21, D23, D120, D121, D122, "
                    "D123, D124 on (each reproduced on the real code and refuted in Coq; D26 repaired).  Refinement Model(all off) = reference "
                    "Spec (same registry and same answering generation for every name after every operation sequence) is proved in full "
                    "for the legacy subsystem (C12_refines_legacy) and, for the default subsystem, for every operation except a reload of "
                    "everything / start-up that leaves more than one script file (C12_refines_partial, side condition ops_ok); that case - "
                    "several contexts waiting for ctx.start() at once - is covered by C12_registry_invariant and by T2 only")

    def translate(self, ctx):
        return {"Gen/ServiceConsts.v": gen_consts()}


PROP = C12()

MANIFEST_ENTRY = {
    "technique": "Rocq proof (invariant by induction over operation sequences) + in-Coq correspondence with real pyscript in HomeAssistant",
    "level_text": ("C12_registry_invariant (induction over arbitrary operation sequences, any number of contexts, both subsystems): registered "
                   "in HA iff held by a live function, count = live holdings, holdings are declared names of bound/started functions in "
                   "loaded contexts, one owning context; C12_define_effective, C12_no_takeover, C12_calls_current, C12_outgoing_exact; about "
                   "a Gallina model whose constants/tables are regenerated from function.py/state.py on every run and whose behaviour is "
                   "compared inside Coq with real pyscript in a real HomeAssistant on generated operation sequences and outgoing calls."),
    "level_note": ("Trusted: Coq kernel+vm_compute; the HA ServiceRegistry environment model; translator and drivers in /verif/harness. "
                   "Open findings D21, D23, D26, D120, D121, D122, D123 are modelled behind switches and refuted."),
    "design_ref": "DESIGN.md §4 C12",
}
