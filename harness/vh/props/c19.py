"""C19 — Jupyter kernel: lossless ZMTP framing, authenticated requests, correlated replies."""
import ast

from .. import coqio as q
from ..core import Prop, Stream, run_workers_parallel, split_chunks
from ..translate import (TranslateError, compare_name_const, const, find_class, find_func, one, parse_file,
                         struct_width, walk_find)


# ------------------------------------------------------------------------------------------------
# T1: constants of ZmqSocket framing -> Gen/ZmqConsts.v
# ------------------------------------------------------------------------------------------------
def _pack_width(node, fn):
    calls = walk_find(node, lambda n: isinstance(n, ast.Call) and isinstance(n.func, ast.Name) and n.func.id == fn)
    widths = {struct_width(c.args[0]) for c in calls}
    return calls, widths


def _bytearray_list(node):
    """bytearray([a, b, ...]) -> list of element nodes"""
    if (isinstance(node, ast.Call) and isinstance(node.func, ast.Name) and node.func.id == "bytearray"
            and len(node.args) == 1 and isinstance(node.args[0], ast.List)):
        return node.args[0].elts
    raise TranslateError(f"expected bytearray([..]), got {ast.dump(node)[:100]}")


def _leftmost(node):
    while isinstance(node, ast.BinOp) and isinstance(node.op, ast.Add):
        node = node.left
    return node


def translate_zmq():
    tree = parse_file("jupyter_kernel.py")
    cls = find_class(tree, "ZmqSocket")
    out = {}
    # ---- send_multipart
    fn = find_func(cls, "send_multipart")
    ifexp = one(walk_find(fn, lambda n: isinstance(n, ast.IfExp)), "conditional expression in send_multipart")
    out["mp_flag_more"] = const(ifexp.body)
    out["mp_flag_last"] = const(ifexp.orelse)
    t = ifexp.test
    ok = (isinstance(t, ast.Compare) and len(t.ops) == 1 and isinstance(t.ops[0], ast.Lt) and isinstance(t.left, ast.Name)
          and isinstance(t.comparators[0], ast.BinOp) and isinstance(t.comparators[0].op, ast.Sub)
          and const(t.comparators[0].right) == 1
          and isinstance(t.comparators[0].left, ast.Call) and getattr(t.comparators[0].left.func, "id", None) == "len")
    if not ok:
        raise TranslateError("send_multipart: MORE flag condition is not `i < len(parts) - 1`")
    iff = one(walk_find(fn, lambda n: isinstance(n, ast.If)), "if statement in send_multipart")
    out["mp_short_cmp"], out["mp_short_max"] = compare_name_const(iff.test, "len_part")
    short = _bytearray_list(_leftmost(one(iff.body, "statement in short branch").value))
    if not (len(short) == 2 and isinstance(short[0], ast.Name) and short[0].id == "cmd"
            and isinstance(short[1], ast.Name) and short[1].id == "len_part"):
        raise TranslateError("send_multipart: short header is not [cmd, len_part]")
    long_ = _bytearray_list(_leftmost(one(iff.orelse, "statement in long branch").value))
    if not (len(long_) == 1 and isinstance(long_[0], ast.BinOp) and isinstance(long_[0].op, ast.Add)
            and isinstance(long_[0].left, ast.Name) and long_[0].left.id == "cmd"):
        raise TranslateError("send_multipart: long header is not [cmd + K]")
    out["mp_long_add"] = const(long_[0].right)
    _calls, widths = _pack_width(iff, "pack")
    out["mp_long_width"] = one(sorted(widths), "pack width in send_multipart")
    # ---- send
    fn = find_func(cls, "send")
    iff = one(walk_find(fn, lambda n: isinstance(n, ast.If)), "if statement in send")
    out["sd_short_cmp"], out["sd_short_max"] = compare_name_const(iff.test, "len_msg")
    short = _bytearray_list(_leftmost(one(iff.body, "short branch").value))
    if not (len(short) == 4 and isinstance(short[3], ast.Name) and short[3].id == "len_msg"):
        raise TranslateError("send: short header is not [a, b, flag, len_msg]")
    long_ = _bytearray_list(_leftmost(one(iff.orelse, "long branch").value))
    if len(long_) != 3:
        raise TranslateError("send: long header is not [a, b, flag]")
    pre_s = [const(short[0]), const(short[1])]
    pre_l = [const(long_[0]), const(long_[1])]
    if pre_s != pre_l:
        raise TranslateError("send: envelope prefix differs between branches")
    out["sd_prefix"] = pre_s
    out["sd_short_flag"] = const(short[2])
    out["sd_long_flag"] = const(long_[2])
    _calls, widths = _pack_width(iff, "pack")
    out["sd_long_width"] = one(sorted(widths), "pack width in send")
    # ---- recv
    fn = find_func(cls, "recv")
    ands = walk_find(fn, lambda n: isinstance(n, ast.BinOp) and isinstance(n.op, ast.BitAnd)
                     and isinstance(n.left, ast.Name) and n.left.id == "cmd")
    if len(ands) != 2:
        raise TranslateError(f"recv: expected two `cmd & MASK` tests, found {len(ands)}")
    ifs = [n for n in ast.walk(fn) if isinstance(n, ast.If) and n.test in ands]
    if len(ifs) != 2:
        raise TranslateError("recv: `cmd & MASK` not used as if-tests")
    ifs.sort(key=lambda n: n.lineno)
    out["rv_long_mask"] = const(ifs[0].test.right)
    _c, widths = _pack_width(ifs[0], "unpack")
    out["rv_long_width"] = one(sorted(widths), "unpack width in recv long branch")
    out["rv_cmd_mask"] = const(ifs[1].test.right)
    ins = walk_find(fn, lambda n: isinstance(n, ast.Compare) and len(n.ops) == 1 and isinstance(n.ops[0], ast.In)
                    and isinstance(n.left, ast.Name) and n.left.id == "cmd")
    fin = one(ins, "`cmd in (...)` test in recv")
    if not isinstance(fin.comparators[0], (ast.Tuple, ast.List, ast.Set)):
        raise TranslateError("recv: final-frame test is not a literal collection")
    out["rv_final_cmds"] = [const(e) for e in fin.comparators[0].elts]
    # ---- message level constants
    from ..translate import find_assign
    delim = find_assign(tree, "DELIM")
    out["zmq_delim"] = list(const(delim, (bytes,)))
    kern = find_class(tree, "Kernel")
    hk = find_func(kern, "housekeep_run")
    kws = [k for c in walk_find(hk, lambda n: isinstance(n, ast.Call)) for k in c.keywords if k.arg == "identities"]
    kw = one(kws, "identities= keyword in housekeep_run")
    if not (isinstance(kw.value, ast.List) and len(kw.value.elts) == 1):
        raise TranslateError("housekeep_run: stdout identities is not a one-element list")
    out["zmq_stdout_ident"] = list(const(kw.value.elts[0], (bytes,)))
    return out


def gen_zmq_consts():
    c = translate_zmq()
    lines = ["(* GENERATED by harness/vh/props/c19.py from jupyter_kernel.py ZmqSocket — do not edit *)",
             "From PV Require Import Common.Util.", ""]
    for k, v in c.items():
        if isinstance(v, list):
            lines.append(f"Definition {k} : list N := {q.lst(q.N(x) for x in v)}.")
        elif isinstance(v, str):
            lines.append(f"Definition {k} : cmpop := {v}.")
        elif k.endswith("_width"):
            lines.append(f"Definition {k} : nat := {v}%nat.")
        else:
            lines.append(f"Definition {k} : N := {q.N(v)}.")
    return "\n".join(lines) + "\n"


# ------------------------------------------------------------------------------------------------
# stream 1: framing round trips under fragmentation
# ------------------------------------------------------------------------------------------------
BOUNDARY_LENS = [0, 1, 2, 254, 255, 256, 257, 65535, 65536, 70001]


def _mk_frame(rng, n):
    """compact frame: list of [byte, count] runs with total length n"""
    runs = []
    left = n
    while left > 0:
        k = left if rng.random() < 0.5 else rng.randint(1, left)
        if n <= 600 and rng.random() < 0.7:
            k = 1
        runs.append([rng.randrange(256), k])
        left -= k
    return runs


def _frame_len(runs):
    return sum(c for _v, c in runs)


def _expand(runs):
    return b"".join(bytes([v]) * c for v, c in runs)


def _rle_py(b):
    runs = []
    i, n = 0, len(b)
    while i < n:
        j = i
        while j < n and b[j] == b[i]:
            j += 1
        runs.append([b[i], j - i])
        i = j
    return runs


def _q_runs(runs):
    return q.lst(f"({v}%N, {c}%N)" for v, c in runs)


def _q_robs(o):
    if o["kind"] == "ok":
        return f"(ROk {q.lst(_q_runs(p) for p in o['parts'])} {_q_runs(o['rest'])})"
    return {"eof": "REof", "badcmd": "RBadCmd"}.get(o["kind"], "ROther")


class FramingStream(Stream):
    """parts -> send_multipart -> bytes -> (fragmented) -> recv_multipart"""

    name = "framing"
    rule = ("frame lists with lengths at/around 0,1,255,256,65535,65536 and random contents, sent by the real "
            "send_multipart/send, re-read by the real recv through an asyncio.StreamReader fed chunk by chunk "
            "(all 2-cut fragmentations of small messages, random cuts otherwise); non-trivial = at least one frame "
            "and more than one chunk or a boundary length; distinct by (frames, cuts, trailer, mode)")
    requires = "From PV Require Import Zmq.Framing Zmq.FramingCheck."
    case_type = "fcase"
    check_model = "fcase_model_ok"
    check_spec = "fcase_spec_ok"
    explain = "fcase_explain"
    shard_size = 60

    def budget(self, tier):
        return 260 if tier == "quick" else 3000

    def generate(self, ctx, budget, focus=None):
        rng = ctx.rng
        cases = []
        # bounded-exhaustive part: every boundary length alone and in pairs, single chunk
        for n in BOUNDARY_LENS:
            cases.append({"mode": "multi", "parts": [_mk_frame(rng, n)], "cuts": [], "trail": []})
            cases.append({"mode": "single", "parts": [_mk_frame(rng, n)], "cuts": [], "trail": []})
        for a in (0, 255, 256):
            for b in (0, 255, 256, 65536):
                cases.append({"mode": "multi", "parts": [_mk_frame(rng, a), _mk_frame(rng, b)], "cuts": [1, 1, 1, 7], "trail": [[9, 3]]})
        # every fragmentation by two cuts of a small message
        small = [_mk_frame(rng, 0), _mk_frame(rng, 3), _mk_frame(rng, 1)]
        total = sum(_frame_len(p) + 2 for p in small)
        for i in range(0, total + 1):
            for j in range(i, total + 1, 3):
                cases.append({"mode": "multi", "parts": small, "cuts": [i, j - i], "trail": []})
        # byte-by-byte delivery of a 256-byte frame
        cases.append({"mode": "multi", "parts": [_mk_frame(rng, 256), _mk_frame(rng, 5)], "cuts": [1] * 300, "trail": [[1, 2]]})
        while len(cases) < budget:
            nparts = rng.choice([1, 1, 2, 3, 4, 6])
            parts = []
            for _ in range(nparts):
                r = rng.random()
                if r < 0.45:
                    n = rng.choice(BOUNDARY_LENS[:8]) if rng.random() < 0.5 else rng.randint(0, 40)
                elif r < 0.9:
                    n = rng.randint(0, 600)
                else:
                    n = rng.choice([65535, 65536, 70001, rng.randint(300, 5000)])
                parts.append(_mk_frame(rng, n))
            ncuts = rng.choice([0, 1, 2, 5, 20])
            cuts = [rng.choice([1, 2, 3, 7, 8, 9, 10, 255, 256, 1000, rng.randint(1, 70000)]) for _ in range(ncuts)]
            trail = _mk_frame(rng, rng.choice([0, 0, 1, 5]))
            mode = "single" if (nparts == 1 and rng.random() < 0.4) else "multi"
            cases.append({"mode": mode, "parts": parts, "cuts": cuts, "trail": trail})
        return cases

    def run_impl(self, ctx, cases):
        chunks = split_chunks(cases, 8)
        res = run_workers_parallel(ctx, "vh.workers.zmq_framing", [{"op": "framing", "cases": c} for c in chunks])
        return [o for r in res for o in r]

    def to_coq(self, case, obs):
        mode = "true" if case["mode"] == "single" else "false"
        return ("{| fc_single := %s; fc_parts := %s; fc_cuts := %s; fc_trail := %s; fc_sent := %s; fc_recv := %s |}" % (
            mode, q.lst(_q_runs(p) for p in case["parts"]), q.lst(q.N(c) for c in case["cuts"]), _q_runs(case["trail"]),
            q.option(_q_runs(obs["sent"]) if obs["sent"] is not None else None), _q_robs(obs["recv"])))

    def nontrivial(self, case, obs):
        lens = [_frame_len(p) for p in case["parts"]]
        return bool(lens) and (len(case["cuts"]) > 0 or any(n in BOUNDARY_LENS for n in lens))

    def kind(self, case, obs):
        lens = [_frame_len(p) for p in case["parts"]]
        mx = max(lens) if lens else -1
        b = "empty" if mx <= 0 else "short" if mx <= 255 else "long" if mx < 65536 else "huge"
        return f"{case['mode']}/{len(lens)}parts/{b}/{'frag' if case['cuts'] else 'whole'}"

    def describe(self, case, obs):
        return {"mode": case["mode"], "frame_lengths": [_frame_len(p) for p in case["parts"]], "cuts": case["cuts"][:12],
                "trailer_len": _frame_len(case["trail"]), "sent_len": _frame_len(obs["sent"]) if obs["sent"] is not None else None,
                "recv": obs["recv"]["kind"],
                "recv_lengths": [_frame_len(p) for p in obs["recv"].get("parts", [])]}


class RawStream(Stream):
    """arbitrary (also malformed) byte streams -> recv: Model must predict the implementation"""

    name = "rawrecv"
    rule = ("random byte streams built from valid frames, command frames (well- and ill-formed), unusual flag bytes and "
            "truncations, fed fragmented to the real recv; Model must predict parts/rest/EOF/command-error; non-trivial = "
            "contains a command frame, an unusual flag or a truncation")
    requires = "From PV Require Import Zmq.Framing Zmq.FramingCheck."
    case_type = "rcase"
    check_model = "rcase_model_ok"
    check_spec = "fun _ => true"
    explain = "rcase_explain"
    shard_size = 100

    def budget(self, tier):
        return 300 if tier == "quick" else 4000

    def generate(self, ctx, budget, focus=None):
        rng = ctx.rng
        cases = []

        def frame(flag, body, long_=None):
            n = len(body)
            if long_ is None:
                long_ = n > 255
            if long_:
                return bytes([flag | 2]) + n.to_bytes(8, "big") + body
            return bytes([flag & ~2 & 0xFF, n]) + body

        def cmdbody(good=True):
            name = bytes(rng.randrange(65, 91) for _ in range(rng.randint(0, 6)))
            b = bytes([len(name)]) + name
            for _ in range(rng.randint(0, 3)):
                pn = bytes(rng.randrange(97, 123) for _ in range(rng.randint(0, 8)))
                pv = bytes(rng.randrange(256) for _ in range(rng.randint(0, 12)))
                b += bytes([len(pn)]) + pn + len(pv).to_bytes(4, "big") + pv
            if not good:
                r = rng.random()
                if r < 0.3:
                    b = b[: rng.randint(0, len(b))]
                elif r < 0.6:
                    b += bytes([rng.randrange(256) for _ in range(rng.randint(1, 3))])
                else:
                    b = bytes(rng.randrange(256) for _ in range(rng.randint(0, 10)))
            return b

        while len(cases) < budget:
            s = b""
            tags = set()
            for _ in range(rng.randint(1, 5)):
                r = rng.random()
                body = bytes(rng.randrange(256) for _ in range(rng.choice([0, 1, 3, 10, 255, 256, 300])))
                if r < 0.35:
                    s += frame(rng.choice([0, 1]), body)
                elif r < 0.5:
                    s += frame(rng.choice([0, 1]), body, long_=True)
                    tags.add("long-small")
                elif r < 0.7:
                    s += frame(4 | rng.choice([0, 1]), cmdbody(True))
                    tags.add("cmd")
                elif r < 0.8:
                    s += frame(4, cmdbody(False))
                    tags.add("badcmd")
                elif r < 0.9:
                    s += frame(rng.choice([8, 9, 16, 0x81, 3, 0xF8]), body[:20])
                    tags.add("oddflag")
                else:
                    s += bytes(rng.randrange(256) for _ in range(rng.randint(1, 4)))
                    tags.add("junk")
            if rng.random() < 0.3 and s:
                s = s[: rng.randint(0, len(s))]
                tags.add("trunc")
            ncuts = rng.choice([0, 1, 3, 10])
            cuts = [rng.choice([1, 2, 3, 8, 9, 100, 257]) for _ in range(ncuts)]
            cases.append({"stream": _rle_py(s), "cuts": cuts, "tags": sorted(tags)})
        return cases

    def run_impl(self, ctx, cases):
        chunks = split_chunks(cases, 8)
        res = run_workers_parallel(ctx, "vh.workers.zmq_framing", [{"op": "raw", "cases": c} for c in chunks])
        return [o for r in res for o in r]

    def to_coq(self, case, obs):
        return "(%s, %s, %s)" % (_q_runs(case["stream"]), q.lst(q.N(c) for c in case["cuts"]), _q_robs(obs))

    def nontrivial(self, case, obs):
        return bool(case.get("tags"))

    def kind(self, case, obs):
        return obs["kind"] + ":" + ",".join(case.get("tags", []))

    def describe(self, case, obs):
        return {"stream_len": _frame_len(case["stream"]), "cuts": case["cuts"], "tags": case.get("tags"), "recv": obs["kind"],
                "recv_lengths": [_frame_len(p) for p in obs.get("parts", [])]}


REQ_TYPES = {
    "execute_request": "RExecute", "kernel_info_request": "RKernelInfo", "complete_request": "RComplete",
    "is_complete_request": "RIsComplete", "comm_info_request": "RCommInfo", "history_request": "RHistory",
    "comm_open": "RComm", "comm_msg": "RComm", "comm_close": "RComm",
}


class SessionStream(Stream):
    """sessions of shell requests (valid, corrupted, wrongly keyed) against the real Kernel"""

    name = "session"
    rule = ("sessions of 1-8 shell requests (execute with value/None/error/syntax-error/printing cells and store_history on/off, "
            "kernel_info, complete, is_complete, comm_info, history, comm_*, unknown types; 1-2 identity frames) signed with the "
            "session key, of which some are corrupted: wrong key, single-bit flips in identity/delimiter/signature/message frames, "
            "dropped or truncated frames; fed as ZMTP bytes to the real shell_listen; every written byte is decoded independently; "
            "non-trivial = session with >= 2 requests; distinct by request specs")
    requires = "From PV Require Import Zmq.Framing Zmq.Shell Zmq.ShellCheck."
    case_type = "scase"
    check_model = "scase_model_ok"
    check_spec = "scase_spec_ok"
    explain = "scase_explain"
    shard_size = 12

    def budget(self, tier):
        return 140 if tier == "quick" else 1500

    def _cell(self, rng, k):
        kind = rng.choice(["none", "none", "value", "value", "error", "syntax", "print", "printvalue"])
        code = f"pv_log.append({k})"
        nprint = 0
        if kind in ("print", "printvalue"):
            nprint = rng.randint(1, 3)
            code += "".join(f"\nprint('line{j}')" for j in range(nprint))
        if kind in ("value", "printvalue"):
            # falsy values are results too (only None means "no result")
            code += "\n" + rng.choice([f"{k} * 2 + 1", f"{k} - {k}", "''", "[]", "False", "0.0", "{}", "'text'", "(1, 2)"])
            outcome = "ExValue"
        elif kind == "error":
            code += rng.choice(["\n1/0", "\nundefined_name_xyz", "\n[][3]"])
            outcome = "ExError"
        elif kind == "syntax":
            code += rng.choice(["\n((", "\nx = = 1", "\nfor in :"])
            outcome = "ExSyntax"
        else:
            outcome = "ExNone"
        return code, outcome, nprint

    def _request(self, rng, k):
        r = rng.random()
        spec = {"nonce": rng.randrange(10**6), "ids": [[rng.randrange(256) for _ in range(rng.randint(1, 5))] for _ in range(rng.choice([1, 1, 2]))]}
        if r < 0.5:
            code, outcome, nprint = self._cell(rng, k)
            content = {"code": code}
            store = True
            if rng.random() < 0.3:
                store = rng.random() < 0.5
                content["store_history"] = store
            spec.update(msg_type="execute_request", content=content, outcome=outcome, stdout=nprint, store=store)
        else:
            t = rng.choice(["kernel_info_request", "complete_request", "is_complete_request", "comm_info_request", "history_request",
                            "comm_open", "comm_msg", "weird_request"])
            content = {}
            if t == "complete_request":
                content = {"code": "pv_lo", "cursor_pos": 5}
            if t == "is_complete_request":
                content = {"code": rng.choice(["x = 1", "if x:", "x = (", "for i in range(3):\n    "])}
            spec.update(msg_type=t, content=content, outcome="ExNone", stdout=0, store=True)
        return spec

    def _corrupt(self, rng, spec):
        r = rng.random()
        nids = len(spec["ids"])
        if r < 0.2:
            spec["sign_key"] = "not-the-session-key"
        elif r < 0.3:
            # signature frame shortened (incl. empty) or extended: still not the MAC of the frames
            spec["mutations"] = [rng.choice([["sigcut", rng.choice([0, 0, 1, 32, 63])], ["sigext", [rng.randrange(256) for _ in range(rng.randint(1, 4))]]])]
        elif r < 0.75:
            spec["mutations"] = [["flip", rng.randrange(0, nids + 6), rng.randrange(0, 400), rng.randrange(8)]]
        elif r < 0.85:
            spec["mutations"] = [["drop", rng.randrange(0, nids + 6)]]
        elif r < 0.95:
            spec["mutations"] = [["trunc", rng.randrange(1, nids + 6)]]   # an empty multipart message cannot be put on the wire
        else:
            spec["extra_frames"] = [[1, 2, 3]]   # extra (signed) buffers are allowed by the wire protocol
        return spec

    def _structured(self, rng):
        """Two iopub subscribers x a send buffer that fills up right after each message type on either/both of them x
        cells that print, return a value, fail: the per-subscriber order (stdout before idle, busy first) must hold."""
        out = []
        k = 0
        for kind in ["stream", "status", "execute_input", "execute_result", "error"]:
            for which in (["stall1"], ["stall2"], ["stall1", "stall2"]):
                for cells in (["printvalue", "none"], ["print", "error", "value"]):
                    reqs = []
                    for c in cells:
                        k += 1
                        code = f"pv_log.append({k})"
                        nprint = 0
                        outcome = "ExNone"
                        if c in ("print", "printvalue"):
                            # one line or two: with a single line the house-keeping queue is empty while the message is still
                            # being delivered
                            nprint = 1 if c == "printvalue" else 2
                            code += "\nprint('a')" + ("\nprint('b')" if nprint == 2 else "")
                        if c in ("value", "printvalue"):
                            code += f"\n{k} + 1"
                            outcome = "ExValue"
                        if c == "error":
                            code += "\n1/0"
                            outcome = "ExError"
                        reqs.append({"nonce": rng.randrange(10**6), "ids": [[1, 2, 3]], "msg_type": "execute_request",
                                     "content": {"code": code}, "outcome": outcome, "stdout": nprint, "store": True})
                    sess = {"key": "k%08x" % rng.randrange(2**32), "reqs": reqs, "second_sub": True}
                    for w in which:
                        sess[w] = [kind, 200]
                    out.append(sess)
        return out

    def generate(self, ctx, budget, focus=None):
        rng = ctx.rng
        sessions = self._structured(rng)
        while len(sessions) < budget:
            n = rng.choice([1, 2, 3, 4, 6, 8])
            reqs = [self._request(rng, k + 1) for k in range(n)]
            # histories that matter for an evaluator reused across cells: the same cell (valid or not) executed again,
            # and is_complete_request for a cell that is executed next
            for i in range(1, n):
                r = rng.random()
                prev = reqs[i - 1]
                if prev["msg_type"] == "execute_request" and r < 0.2:
                    reqs[i] = dict(prev, nonce=rng.randrange(10**6))
                elif reqs[i]["msg_type"] == "execute_request" and r < 0.35:
                    reqs[i - 1] = {"nonce": rng.randrange(10**6), "ids": prev["ids"], "msg_type": "is_complete_request",
                                   "content": {"code": reqs[i]["content"]["code"]}, "outcome": "ExNone", "stdout": 0, "store": True}
            if rng.random() < 0.5:
                i = rng.randrange(n)
                reqs[i] = self._corrupt(rng, reqs[i])
            sess = {"key": "k%08x" % rng.randrange(2**32), "reqs": reqs}
            if rng.random() < 0.45:
                # a second iopub subscriber: it may close its connection in the middle of the session, complete its ZMTP
                # greeting late and in pieces (so it is mid-handshake while requests are handled), and either subscriber's
                # transport may exert back-pressure (drain() takes several loop turns)
                sess["second_sub"] = True
                r2 = rng.random()
                if r2 < 0.45:
                    sess["second_sub_leaves_before"] = rng.randrange(0, n)
                elif r2 < 0.8:
                    ks = sorted(rng.randrange(0, n + 1) for _ in range(3))
                    sess["second_sub_late"] = ks
                r3 = rng.random()
                if r3 < 0.3:
                    sess[rng.choice(["slow1", "slow2"])] = rng.choice([1, 3, 8])
                elif r3 < 0.75:
                    # a transiently full send buffer: the drain() after one particular write stalls for a long time
                    if rng.random() < 0.4:
                        sess[rng.choice(["stall1", "stall2"])] = [rng.randrange(3, 4 + 6 * n), rng.choice([40, 200])]
                    else:
                        # ... or right after a message of one particular type, on one or both subscribers
                        kind = rng.choice(["stream", "stream", "status", "execute_input", "execute_result", "error"])
                        for which in rng.choice([["stall1"], ["stall2"], ["stall1", "stall2"]]):
                            sess[which] = [kind, rng.choice([40, 200])]
            sessions.append(sess)
        return sessions

    def run_impl(self, ctx, cases):
        chunks = split_chunks(cases, 8)
        res = run_workers_parallel(ctx, "vh.workers.zmq_kernel", [{"sessions": c} for c in chunks])
        return [o for r in res for o in r]

    def to_coq(self, case, obs):
        reqs = []
        for spec, ro in zip(case["reqs"], obs["reqs"]):
            reqs.append("{| r_wire := %s; r_json_ok := %s; r_type := %s; r_store := %s; r_outcome := %s; r_stdout := %s |}" % (
                q.lst(q.bytes_N(f) for f in ro["wire"]), q.boolean(ro["json_ok"]), REQ_TYPES.get(spec["msg_type"], "RUnknown"),
                q.boolean(spec["store"]), spec["outcome"], q.N(spec["stdout"])))
        groups = []
        for g in obs["groups"]:
            groups.append(q.lst(
                "(mkOut %s %s %s %s %s %s)" % (o["chan"], o["type"], q.lst(q.bytes_N(i) for i in o["ids"]), q.boolean(o["sig_ok"]),
                                               q.boolean(o["parent_ok"]), q.option(q.N(o["count"]) if isinstance(o["count"], int) else None))
                for o in g))
        tbl = q.lst("(%s, %s)" % (q.lst(q.bytes_N(f) for f in fr), q.bytes_N(d)) for fr, d in obs["tbl"])
        return "{| sc_tbl := %s; sc_reqs := %s; sc_obs := %s; sc_executed := %s |}" % (tbl, q.lst(reqs), q.lst(groups), q.N(obs["executed"]))

    def nontrivial(self, case, obs):
        return len(case["reqs"]) >= 2

    def kind(self, case, obs):
        bad = any(("sign_key" in r or "mutations" in r) for r in case["reqs"])
        sub = "/2sub-leaves" if "second_sub_leaves_before" in case else ("/2sub-late" if case.get("second_sub_late") else ("/2sub" if case.get("second_sub") else ""))
        if case.get("slow1") or case.get("slow2") or case.get("stall1") or case.get("stall2"):
            sub += "/slow"
        return ("corrupted" if bad else "valid") + f"/{len(case['reqs'])}req" + sub

    def describe(self, case, obs):
        return {"requests": [{k: v for k, v in r.items() if k in ("msg_type", "content", "sign_key", "mutations", "store")} for r in case["reqs"]],
                "observed_groups": [[(o["chan"], o["type"], o["sig_ok"], o["parent_ok"], o["count"]) for o in g] for g in obs["groups"]],
                "executed": obs["executed"]}


class C19(Prop):
    id = "C19"
    title = "Jupyter kernel: lossless framing, authenticated requests, correlated replies"
    coq_targets = ["Properties/C19.vo"]
    property_file = "Properties/C19.v"
    streams = [FramingStream(), RawStream(), SessionStream()]
    trusted_base = [
        "modelled, not verified: ZmqSocket.read_bytes/recv/send/send_multipart (Zmq/Framing.v); asyncio.StreamReader.read(n) is "
        "modelled as 'at most n bytes of the first pending chunk, never empty before EOF'",
        "HMAC-SHA256 is a Section variable (not modelled); TCP, port allocation and session house-keeping are not modelled",
    ]
    assumptions = ["frames shorter than 2^64 bytes", "reader.read(n) returns between 1 and n bytes unless the stream ended"]
    partial_note = "TCP transport, port allocation and session house-keeping are exercised by no model (DESIGN.md §5)"

    def translate(self, ctx):
        return {"Gen/ZmqConsts.v": gen_zmq_consts()}


PROP = C19()

MANIFEST_ENTRY = {
    "technique": "Rocq proof (induction over frame lists and over read fuel; all fragmentations) + in-Coq correspondence with the real ZmqSocket",
    "level_text": ("Theorems C19_multipart_roundtrip / C19_single_roundtrip hold for every frame list, every frame length < 2^64 and "
                   "every fragmentation of the stream, about a Gallina model of ZmqSocket whose constants are regenerated from "
                   "jupyter_kernel.py on every run and whose behaviour is compared inside Coq with the real send/recv on generated "
                   "frame lists, fragmentations and malformed streams. Authentication/reply correlation: see evidence 'partial'."),
    "level_note": ("Trusted: Coq kernel+vm_compute; the stream model of asyncio.StreamReader.read; translator and drivers in /verif/harness. "
                   "Not modelled: TCP, ports, house-keeping task; HMAC is a section variable."),
    "design_ref": "DESIGN.md §4 C19",
}
