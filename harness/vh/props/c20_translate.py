"""C20 — T1: constants of requirements.py / const.py -> Gen/ReqConsts.v (fail-closed)."""
import ast

from ..translate import TranslateError, const, find_assign, find_func, one, parse_file, str_collection, walk_find


def _codes(s):
    return [ord(c) for c in s]


def _q_str(s):
    return "[" + "; ".join(f"{c}%N" for c in _codes(s)) + "]"


def _method_calls(fn, var, meth):
    return walk_find(fn, lambda n: isinstance(n, ast.Call) and isinstance(n.func, ast.Attribute) and n.func.attr == meth
                     and isinstance(n.func.value, ast.Name) and n.func.value.id == var)


def _is_len_of(node, name):
    return (isinstance(node, ast.Call) and isinstance(node.func, ast.Name) and node.func.id == "len" and len(node.args) == 1
            and isinstance(node.args[0], ast.Name) and node.args[0].id == name)


def translate_requirements():
    out = {}
    # ---- const.py
    ctree = parse_file("const.py")
    paths = str_collection(find_assign(ctree, "REQUIREMENTS_PATHS"))
    pats = []
    for p in paths:
        comps = []
        for comp in [c for c in p.split("/") if c != ""]:
            if comp in ("*", "**"):
                comps.append(None)  # one non-hidden path component (glob.glob without recursive=True)
            elif any(ch in comp for ch in "*?["):
                raise TranslateError(f"REQUIREMENTS_PATHS: unsupported glob component {comp!r}")
            else:
                comps.append(comp)
        pats.append(comps)
    out["req_paths"] = pats
    out["req_file"] = const(find_assign(ctree, "REQUIREMENTS_FILE"), (str,))
    unp = const(find_assign(ctree, "UNPINNED_VERSION"), (str,))
    if unp == "" or unp != unp.strip():
        raise TranslateError("UNPINNED_VERSION must be a non-empty string without surrounding white space")
    out["unpinned_version"] = unp

    # ---- requirements.py : process_all_requirements
    tree = parse_file("requirements.py")
    fn = find_func(tree, "process_all_requirements")
    find_call = one(_method_calls(fn, "pkg", "find"), "pkg.find(...) call")
    cc = const(one(find_call.args, "argument of pkg.find"), (str,))
    if len(cc) != 1:
        raise TranslateError("comment marker is not a single character")
    out["req_comment_char"] = ord(cc)
    strip_call = one(_method_calls(fn, "pkg", "strip"), "pkg.strip() call")
    if strip_call.args or strip_call.keywords:
        raise TranslateError("pkg.strip() has arguments")
    split_call = one(_method_calls(fn, "pkg", "split"), "pkg.split(...) call")
    sep = const(one(split_call.args, "argument of pkg.split"), (str,))
    if sep == "" or split_call.keywords:
        raise TranslateError("pkg.split separator is empty or has maxsplit")
    out["req_sep"] = sep
    # the rejection test: len(parts) > K or "c" in pkg or ...
    rej = [n for n in ast.walk(fn) if isinstance(n, ast.If) and isinstance(n.test, ast.BoolOp) and isinstance(n.test.op, ast.Or)
           and any(isinstance(v, ast.Compare) and _is_len_of(v.left, "parts") for v in n.test.values)]
    rej = one(rej, "`len(parts) > K or c in pkg ...` test")
    if not (len(rej.body) == 2 and isinstance(rej.body[1], ast.Continue) and not rej.orelse):
        raise TranslateError("rejection branch does not end in `continue`")
    chars = []
    maxparts = None
    for v in rej.test.values:
        if isinstance(v, ast.Compare) and len(v.ops) == 1 and _is_len_of(v.left, "parts") and isinstance(v.ops[0], ast.Gt):
            if maxparts is not None:
                raise TranslateError("two len(parts) tests")
            maxparts = const(v.comparators[0])
        elif (isinstance(v, ast.Compare) and len(v.ops) == 1 and isinstance(v.ops[0], ast.In)
              and isinstance(v.comparators[0], ast.Name) and v.comparators[0].id == "pkg"):
            ch = const(v.left, (str,))
            if len(ch) != 1:
                raise TranslateError("rejected specifier is not a single character")
            chars.append(ord(ch))
        else:
            raise TranslateError(f"unexpected disjunct in rejection test: {ast.dump(v)[:100]}")
    if maxparts is None:
        raise TranslateError("no len(parts) > K test")
    out["req_max_parts"] = maxparts
    out["req_reject_chars"] = chars
    # unpinned iff len(parts) == 1; version = parts[1]; name = parts[0]
    one_if = [n for n in ast.walk(fn) if isinstance(n, ast.If) and isinstance(n.test, ast.Compare) and _is_len_of(n.test.left, "parts")]
    one_if = one(one_if, "`if len(parts) == 1`")
    if not (isinstance(one_if.test.ops[0], ast.Eq) and const(one_if.test.comparators[0]) == 1):
        raise TranslateError("unpinned test is not len(parts) == 1")

    def _assign_value(stmts, name):
        s = one(stmts, "statement")
        if isinstance(s, ast.Assign) and len(s.targets) == 1 and isinstance(s.targets[0], ast.Name) and s.targets[0].id == name:
            return s.value
        raise TranslateError(f"expected `{name} = ...`")

    v1 = _assign_value(one_if.body, "new_version")
    if not (isinstance(v1, ast.Name) and v1.id == "UNPINNED_VERSION"):
        raise TranslateError("unpinned branch does not assign UNPINNED_VERSION")
    v2 = _assign_value(one_if.orelse, "new_version")

    def _parts_idx(node):
        if isinstance(node, ast.Subscript) and isinstance(node.value, ast.Name) and node.value.id == "parts":
            return const(node.slice)
        raise TranslateError(f"expected parts[i], got {ast.dump(node)[:80]}")

    if _parts_idx(v2) != 1:
        raise TranslateError("version is not parts[1]")
    names = [n for n in ast.walk(fn) if isinstance(n, ast.Assign) and len(n.targets) == 1 and isinstance(n.targets[0], ast.Name)
             and n.targets[0].id == "pkg_name"]
    if _parts_idx(one(names, "pkg_name assignment").value) != 0:
        raise TranslateError("package name is not parts[0]")
    handlers = [h for n in ast.walk(fn) if isinstance(n, ast.Try) for h in n.handlers]
    h = one(handlers, "exception handler in process_all_requirements")
    if not (isinstance(h.type, ast.Name) and h.type.id == "ValueError"):
        raise TranslateError("handler is not `except ValueError`")

    # ---- install_requirements : the requirement string handed to the installer
    fn2 = find_func(tree, "install_requirements")
    js = one(walk_find(fn2, lambda n: isinstance(n, ast.JoinedStr)), "f-string in install_requirements")
    if not (len(js.values) == 3 and isinstance(js.values[0], ast.FormattedValue) and isinstance(js.values[2], ast.FormattedValue)
            and isinstance(js.values[0].value, ast.Name) and js.values[0].value.id == "package"):
        raise TranslateError("installer requirement is not f\"{package}<sep>{version}\"")
    out["req_fmt_sep"] = const(js.values[1], (str,))
    return out


def gen_req_consts():
    c = translate_requirements()
    ws = [cp for cp in range(0x110000) if chr(cp).isspace()]
    lines = ["(* GENERATED by harness/vh/props/c20_translate.py from requirements.py / const.py — do not edit *)",
             "From PV Require Import Common.Util.", "",
             "(* one component of a REQUIREMENTS_PATHS pattern: a literal directory name or `*`/`**` *)",
             "Inductive pcomp := PLit (s : list N) | PStar.", ""]
    pats = []
    for pat in c["req_paths"]:
        pats.append("[" + "; ".join("PStar" if comp is None else f"PLit {_q_str(comp)}" for comp in pat) + "]")
    lines.append("Definition req_paths : list (list pcomp) := [" + ";\n   ".join(pats) + "].")
    lines.append(f"Definition req_file : list N := {_q_str(c['req_file'])}.")
    lines.append(f"Definition unpinned_version : list N := {_q_str(c['unpinned_version'])}.")
    lines.append(f"Definition req_comment_char : N := {c['req_comment_char']}%N.")
    lines.append(f"Definition req_sep : list N := {_q_str(c['req_sep'])}.")
    lines.append(f"Definition req_max_parts : N := {c['req_max_parts']}%N.")
    lines.append("Definition req_reject_chars : list N := [" + "; ".join(f"{x}%N" for x in c["req_reject_chars"]) + "].")
    lines.append(f"Definition req_fmt_sep : list N := {_q_str(c['req_fmt_sep'])}.")
    lines.append("(* environment constant: code points c with chr(c).isspace() in the running CPython (what str.strip() removes) *)")
    lines.append("Definition py_whitespace : list N := [" + "; ".join(f"{x}%N" for x in ws) + "].")
    return "\n".join(lines) + "\n"
