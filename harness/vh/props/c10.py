"""C10 — Reload loads exactly what the files and configuration now dictate."""
import copy

from .. import coqio as q
from ..core import Prop, Stream, cfg_prelude, run_workers_parallel, split_chunks
from .c10_translate import gen_reload_consts

# ids (coq/Life/ReloadBase.v)
INIT, APPS, FILE, MODULES, SCRIPTS = 0, 1, 2, 3, 4
HASH = 1000
RESERVED = {0: "__init__", 1: "apps", 2: "file", 3: "modules", 4: "scripts"}

TOPS = [10, 11, 12]
SCRIPT_PATHS = [[SCRIPTS, 20], [SCRIPTS, 30, 21], [SCRIPTS, 30, 31, 22], [SCRIPTS, 32, 23]]
APPS_IDS = [40, 41]
APP_SIBS = [50, 51, 52]
MOD_IDS = [60, 61, 62, 63]
MOD_SIBS = [70, 71, 72]
GHOST_MOD = 69
MTIME0 = 5000


def seg_name(i):
    if i in RESERVED:
        return RESERVED[i]
    if i >= HASH:
        return "#" + seg_name(i - HASH)
    return "x%03d" % i


def pid(path):
    return "/".join(str(x) for x in path)


def unpid(p):
    return [int(x) for x in p.split("/")]


def rel_of(p):
    return "/".join(seg_name(x) for x in unpid(p)) + ".py"


# ------------------------------------------------------------------------------------------------
# Gallina serialisation
# ------------------------------------------------------------------------------------------------
def q_nl(ids):
    return "[" + ";".join(str(x) for x in ids) + "]"          # N_scope is open in the shard (see prelude)


def q_imp(imp):
    kind, m = imp
    return f"({'ImpAbs' if kind == 'abs' else 'ImpRel'} {q_nl(m)})"


def q_tree(files):
    items = sorted(files.items(), key=lambda kv: rel_of(kv[0]))  # the order of sorted(glob.glob(...))
    return "[" + ";".join(
        "(%s,Build_file %d %d [%s])" % (q_nl(unpid(p)), i["gen"], i["mtime"], ";".join(q_imp(x) for x in i["imps"]))
        for p, i in items) + "]"


def q_arg(a):
    if a is None:
        return "RNone"
    if a == "*":
        return "RAll"
    return f"(RName {q_nl(a)})"


def _n(x):
    return str(x if isinstance(x, int) and x >= 0 else 999999)


def _b(x):
    return "true" if x else "false"


def q_octx(c, steps):
    cfgl = "None"
    nm = c["name"]
    b = c["born"]
    if len(nm) == 2 and nm[0] == APPS and isinstance(b, int) and 0 <= b < len(steps):
        v = steps[b]["cfg"].get(str(nm[1]))
        cfgl = "None" if v is None else f"(Some {v})"
    # Build_octx name gen mtime cfg cfgl imports ismod rel born started cnt
    return "(Build_octx %s %s %s %s %s [%s] %s %s %s %s %s)" % (
        q_nl(nm), _n(c["gen"]), _n(c["mtime"]), _n(c["cfg"]), cfgl, ";".join(q_nl(i) for i in c["imports"]), _b(c["ismod"]),
        f"(Some {q_nl(c['rel'])})" if c["rel"] is not None else "None", _n(c["born"]), _b(c["started"]), _n(c["cnt"]))


def q_ostep(o, steps):
    ev = "[" + ";".join(f"({q_nl(n)},{_n(g)})" for n, g in o["events"]) + "]"
    return "(Build_ostep %s [%s] %s %s)" % (ev, ";".join(q_octx(c, steps) for c in o["ctxs"]), q_nl(o.get("srv", [])), q_nl(o.get("pongs", [])))


def q_case(case, obs):
    """one rcase; identical trees of successive steps are shared through let-bindings"""
    steps = case["steps"]
    lets, names, seen = [], [], {}
    for st in steps:
        t = q_tree(st["files"])
        if t not in seen:
            seen[t] = f"pv_t{len(seen)}"
            lets.append(f"let {seen[t]} : tree := {t} in")
        names.append(seen[t])
    qs = []
    for st, tn in zip(steps, names):
        cfg = "[" + ";".join(f"({int(a)},{v})" for a, v in sorted(st["cfg"].items(), key=lambda kv: int(kv[0]))) + "]"
        qs.append(f"(Build_rstep {tn} {cfg} {q_arg(st['arg'])} {int(st.get('opts', 0))})")
    return "(%s Build_rcase %s [%s] [%s])" % (" ".join(lets), _b(case.get("legacy")), ";".join(qs),
                                             ";".join(q_ostep(o, steps) for o in obs.get("steps", [])))


# ------------------------------------------------------------------------------------------------
# generator
# ------------------------------------------------------------------------------------------------
class Builder:
    """A file tree under construction + the list of reload steps taken so far."""

    def __init__(self, rng=None):
        self.rng = rng
        self.files = {}
        self.cfg = {}
        self.steps = []
        self.opts = 0       # bit 0: hass_is_global, bit 1: allow_all_imports off
        self.ghosts = []    # [pid, "link" | "dir"]: glob-matched entries that are not readable files
        self.gen = 0
        self.clock = 0
        self.style = {}  # package root -> "rel" | "abs" (form of sibling -> sibling imports)

    # -- primitive edits ---------------------------------------------------------------------
    def tick(self):
        self.clock += 1
        return MTIME0 + self.clock

    def write(self, path, imps=(), keep_mtime=False):
        p = pid(path)
        self.gen += 1
        mt = self.files[p]["mtime"] if (keep_mtime and p in self.files) else self.tick()
        self.files[p] = {"gen": self.gen, "mtime": mt, "imps": [[i[0], list(i[1])] for i in imps]}

    def touch(self, path):
        self.files[pid(path)]["mtime"] = self.tick()

    def delete(self, path):
        self.files.pop(pid(path), None)

    def rename_seg(self, prefix, seg_old, seg_new):
        """rename the segment following `prefix` (a file stem or a directory) in every path below it"""
        k = len(prefix)
        new = {}
        for p, info in self.files.items():
            pl = unpid(p)
            if pl[:k] == prefix and len(pl) > k and pl[k] == seg_old:
                pl = pl[:k] + [seg_new] + pl[k + 1:]
            new[pid(pl)] = info
        self.files = new

    def reload(self, arg=None):
        self.steps.append({"files": copy.deepcopy(self.files), "cfg": dict(self.cfg), "arg": arg, "opts": self.opts,
                           "ghosts": copy.deepcopy(self.ghosts) if self.steps else []})

    def case(self, legacy=False, tags=()):
        return {"legacy": legacy, "steps": self.steps, "tags": sorted(tags)}


def A(*m):
    return ["abs", list(m)]


def R(*m):
    return ["rel", list(m)]


def structured_cases():
    """diamonds, module only imported by an app sibling, package replacing module form, '#' renames, config changes"""
    out = []
    # 1 diamond: a -> m1, m2 -> m3; touch m3; then modify m1 only
    b = Builder()
    b.write([10], [A(60), A(61)]); b.write([11]); b.write([MODULES, 60], [A(62)]); b.write([MODULES, 61], [A(62)]); b.write([MODULES, 62])
    b.reload(); b.reload()
    b.touch([MODULES, 62]); b.reload()
    b.write([MODULES, 60], [A(62)]); b.reload()
    b.reload("*")
    out.append(b.case(tags=["diamond"]))
    # 2 module imported only by an app sibling
    b = Builder()
    b.cfg = {"40": 1}
    b.write([APPS, 40, INIT], [R(50)]); b.write([APPS, 40, 50], [A(60)]); b.write([APPS, 40, 51]); b.write([MODULES, 60]); b.write([10])
    b.reload()
    b.touch([MODULES, 60]); b.reload()
    b.write([APPS, 40, 50], [A(60)], keep_mtime=True); b.reload()
    b.cfg = {"40": 2}; b.reload(); b.reload()                # the app writes to its pyscript.app_config: still unchanged
    b.cfg = {}; b.reload()
    b.cfg = {"40": 3}; b.reload(); b.touch([10]); b.reload()
    out.append(b.case(legacy=True, tags=["app-sibling-module"]))
    # 3 package replacing module form (module and app), and back
    b = Builder()
    b.cfg = {"41": 1}
    b.write([10], [A(60)]); b.write([MODULES, 60]); b.write([APPS, 41])
    b.reload()
    b.write([MODULES, 60, INIT], [R(70)]); b.write([MODULES, 60, 70]); b.reload()
    b.write([APPS, 41, INIT], [R(50)]); b.write([APPS, 41, 50]); b.reload()
    b.delete([MODULES, 60, INIT]); b.delete([APPS, 41, INIT]); b.reload()
    out.append(b.case(tags=["package-replaces-module"]))
    # 4 '#' renames of a script, a script directory and back; new files; reload by name
    b = Builder()
    b.write([10]); b.write([SCRIPTS, 20]); b.write([SCRIPTS, 30, 21]); b.write([SCRIPTS, 30, 31, 22]); b.write([HASH + 11])
    b.reload()
    b.rename_seg([SCRIPTS], 20, HASH + 20); b.reload()
    b.rename_seg([SCRIPTS], 30, HASH + 30); b.rename_seg([], HASH + 11, 11); b.reload()
    b.rename_seg([SCRIPTS], HASH + 30, 30); b.rename_seg([SCRIPTS], HASH + 20, 20); b.reload()
    b.write([12]); b.reload([FILE, 10]); b.reload([FILE, 12]); b.reload([FILE, 99])
    b.delete([10]); b.reload([FILE, 12]); b.reload([FILE, 10])          # a deleted file, reloaded by name
    out.append(b.case(legacy=True, tags=["hash-rename", "named"]))
    # 5 module package with siblings (absolute sibling imports), sibling change, named reload of the module
    b = Builder()
    b.write([10], [A(60)]); b.write([11]); b.write([MODULES, 60, INIT], [R(70)]); b.write([MODULES, 60, 70], [A(60, 71)]); b.write([MODULES, 60, 71])
    b.reload()
    b.touch([MODULES, 60, 71]); b.reload()
    b.reload("*")
    out.append(b.case(tags=["module-package"]))
    # 6 failing import, later repaired
    b = Builder()
    b.write([10], [A(60), A(61)]); b.write([MODULES, 60]); b.write([11])
    b.reload(); b.reload()
    b.write([MODULES, 61]); b.reload()
    out.append(b.case(tags=["import-failure"]))
    # 7 a change of the global options (everything reloads once), then ordinary edits: only what changed reloads
    for legacy in (False, True):
        b = Builder()
        b.write([10], [A(60)]); b.write([11]); b.write([MODULES, 60]); b.write([SCRIPTS, 20])
        b.reload(); b.reload()
        b.opts = 1; b.reload()
        b.touch([10]); b.reload()
        b.write([11]); b.reload([FILE, 11])
        b.opts = 3; b.touch([SCRIPTS, 20]); b.reload(); b.reload()
        b.opts = 0; b.reload([FILE, 10]); b.touch([MODULES, 60]); b.reload()
        out.append(b.case(legacy=legacy, tags=["global-options"]))
    # 8 files that fail after defining their service and trigger (dangling import), both subsystems; repaired; deleted
    for legacy in (False, True):
        b = Builder()
        b.cfg = {"40": 1}
        b.write([10]); b.write([11], [A(GHOST_MOD)]); b.write([APPS, 40, INIT], [R(50)]); b.write([APPS, 40, 50], [A(GHOST_MOD)])
        b.reload()
        b.write([10], [A(60), A(GHOST_MOD)]); b.write([MODULES, 60]); b.reload()
        b.write([10], [A(60)]); b.write([11]); b.reload()
        b.write([APPS, 40, 50]); b.reload()
        b.delete([10]); b.delete([11]); b.reload()
        b.reload("*")
        out.append(b.case(legacy=legacy, tags=["load-failure"]))
    # 9 glob-matched entries that are not readable files (dangling symlinks, a directory named *.py) among ordinary edits
    b = Builder()
    b.write([10]); b.write([SCRIPTS, 20]); b.write([MODULES, 60])
    b.reload()
    b.ghosts = [[pid([SCRIPTS, 24]), "link"]]; b.write([10]); b.write([12]); b.reload()
    b.ghosts = [[pid([SCRIPTS, 24]), "link"], [pid([13]), "dir"], [pid([MODULES, 64]), "link"]]
    b.write([11], [A(60)]); b.touch([SCRIPTS, 20]); b.reload()
    b.write([12], [A(64)]); b.reload([FILE, 12]); b.reload("*")
    b.ghosts = []; b.delete([12]); b.reload()
    out.append(b.case(legacy=True, tags=["ghost-entries"]))
    return out


def witness_cases():
    w = {}
    # D100: delete a module that a.py imports
    b = Builder()
    b.write([10], [A(60)]); b.write([MODULES, 60]); b.reload()
    b.delete([MODULES, 60]); b.reload()
    w["D100"] = b.case(tags=["D100"])
    # D101: a package sibling imports another sibling relatively
    b = Builder()
    b.write([10], [A(60)]); b.write([MODULES, 60, INIT], [R(70)]); b.write([MODULES, 60, 70], [R(71)]); b.write([MODULES, 60, 71]); b.reload()
    b.reload()
    w["D101"] = b.case(tags=["D101"])
    # D102: app configured with a null value, then the entry is removed
    b = Builder()
    b.cfg = {"40": 0}
    b.write([APPS, 40, INIT]); b.reload()
    b.cfg = {}; b.reload()
    w["D102"] = b.case(tags=["D102"])
    # D103: reload of a module by name re-executes the importing script but does not start it
    b = Builder()
    b.write([10], [A(60)]); b.write([MODULES, 60]); b.reload()
    b.reload([MODULES, 60])
    w["D103"] = b.case(tags=["D103"])
    return w


class RandomTree:
    def __init__(self, rng):
        self.rng = rng
        self.b = Builder(rng)
        self.tags = set()

    # names of files that may exist (un-hashed form)
    def universe(self):
        u = [[t] for t in TOPS] + [list(p) for p in SCRIPT_PATHS]
        for a in APPS_IDS:
            u += [[APPS, a], [APPS, a, INIT]] + [[APPS, a, h] for h in APP_SIBS]
        for m in MOD_IDS:
            u += [[MODULES, m], [MODULES, m, INIT]] + [[MODULES, m, x] for x in MOD_SIBS]
        return u

    def exists(self, path):
        return pid(path) in self.b.files

    def draw_imports(self, path):
        """imports of the file at (un-hashed) `path`: mostly to files that exist, now and then dangling"""
        rng = self.rng
        imps = []
        top = path[0]
        in_pkg = top in (APPS, MODULES) and len(path) == 3
        lo = MOD_IDS.index(path[1]) + 1 if top == MODULES else 0      # modules: acyclic by index
        for m in MOD_IDS[lo:]:
            there = self.exists([MODULES, m]) or self.exists([MODULES, m, INIT])
            if rng.random() < (0.4 if there else 0.03):
                imps.append(A(m))
        if rng.random() < 0.04:
            imps.append(A(GHOST_MOD))
        if in_pkg:
            sibs = APP_SIBS if top == APPS else MOD_SIBS
            root = pid(path[:2])
            style = self.b.style.setdefault(root, rng.choice(["rel", "abs", "abs"]))
            later = sibs if path[2] == INIT else sibs[sibs.index(path[2]) + 1:]
            for h in later:
                there = self.exists(path[:2] + [h])
                if rng.random() < ((0.65 if path[2] == INIT else 0.5) if there else 0.03):
                    imps.append(R(h) if (path[2] == INIT or style == "rel") else A(path[1], h))
        rng.shuffle(imps)
        return imps

    def initial(self):
        rng, b = self.rng, self.b
        for t in TOPS:
            if rng.random() < 0.6:
                b.write([t])
        for p in SCRIPT_PATHS:
            if rng.random() < 0.4:
                b.write(p)
        for ids, sibs, root in ((APPS_IDS, APP_SIBS, APPS), (MOD_IDS, MOD_SIBS, MODULES)):
            for a in ids:
                form = rng.choice(["none", "mod", "pkg", "pkg", "both"] if root == APPS else ["none", "mod", "mod", "pkg", "pkg", "both"])
                if form in ("mod", "both"):
                    b.write([root, a])
                if form in ("pkg", "both"):
                    b.write([root, a, INIT])
                    for h in sibs:
                        if rng.random() < 0.6:
                            b.write([root, a, h])
        for p in list(b.files):
            b.files[p]["imps"] = self.draw_imports(unpid(p))
        for a in APPS_IDS:
            if rng.random() < 0.75:
                b.cfg[str(a)] = rng.choice([0, 1, 1, 2, 3])
        # a few files start "commented"
        for p in list(b.files):
            if p in b.files and rng.random() < 0.05:
                self.toggle_hash(unpid(p))
        b.reload()

    def toggle_hash(self, path):
        """rename a random segment of `path` (file stem or a directory above it) with / without '#'"""
        b = self.b
        cand = [k for k in range(len(path)) if path[k] not in (APPS, MODULES, SCRIPTS, INIT) or (k == len(path) - 1 and path[k] != INIT)]
        cand = [k for k in cand if not (k == 0 and len(path) > 1)]
        if not cand:
            return False
        k = self.rng.choice(cand)
        s = path[k]
        new = s - HASH if s >= HASH else s + HASH
        # do not rename onto an existing name
        if any(unpid(p)[:k + 1] == path[:k] + [new] for p in b.files):
            return False
        b.rename_seg(path[:k], s, new)
        self.tags.add("hash-rename")
        return True

    def edit(self):
        rng, b = self.rng, self.b
        existing = [unpid(p) for p in b.files]
        r = rng.random()
        if r < 0.22 and existing:
            p = rng.choice(existing)
            clean = [x - HASH if x >= HASH else x for x in p]
            keep = rng.random() < 0.4
            imps = b.files[pid(p)]["imps"] if keep else self.draw_imports(clean)
            b.write(p, imps, keep_mtime=rng.random() < 0.3)
            self.tags.add("modify")
        elif r < 0.40 and existing:
            b.touch(rng.choice(existing))
            self.tags.add("touch")
        elif r < 0.58:
            free = [p for p in self.universe() if pid(p) not in b.files]
            if free:
                p = rng.choice(free)
                b.write(p, self.draw_imports(p))
                self.tags.add("create")
        elif r < 0.72 and existing:
            b.delete(rng.choice(existing))
            self.tags.add("delete")
        elif r < 0.84 and existing:
            self.toggle_hash(rng.choice(existing))
        elif r < 0.90:
            b.opts ^= rng.choice([1, 2])
            self.tags.add("global-options")
        elif r < 0.93:
            g = rng.choice([[pid([SCRIPTS, 24]), "link"], [pid([13]), "dir"], [pid([MODULES, 64]), "link"], [pid([APPS, 42]), "link"]])
            if g in b.ghosts:
                b.ghosts.remove(g)
            else:
                b.ghosts.append(g)
            self.tags.add("ghost-entries")
        else:
            a = str(rng.choice(APPS_IDS))
            if a in b.cfg and rng.random() < 0.5:
                del b.cfg[a]
            else:
                b.cfg[a] = rng.choice([0, 1, 2, 3, 4])
            self.tags.add("config")

    def pick_arg(self):
        rng, b = self.rng, self.b
        r = rng.random()
        if r < 0.62:
            return None
        if r < 0.72:
            self.tags.add("star")
            return "*"
        self.tags.add("named")
        names = []
        for p in b.files:
            pl = unpid(p)
            if any(x >= HASH for x in pl):
                continue
            if pl[-1] == INIT:
                pl = pl[:-1]
            names.append([FILE] + pl if len(pl) == 1 else pl)
        # also names of files that existed at an earlier reload (possibly deleted by now), and a bogus one
        for st in b.steps[-2:]:
            for p in st["files"]:
                pl = unpid(p)
                if any(x >= HASH for x in pl):
                    continue
                if pl[-1] == INIT:
                    pl = pl[:-1]
                names.append([FILE] + pl if len(pl) == 1 else pl)
        names.append([FILE, 99])
        return rng.choice(names)

    def build(self):
        rng = self.rng
        self.initial()
        for _ in range(rng.choice([2, 3, 3, 4, 5])):
            for _e in range(rng.choice([0, 1, 1, 2, 3])):
                self.edit()
            self.b.reload(self.pick_arg())
        return self.b.case(legacy=rng.random() < 0.4, tags=self.tags)


class ReloadStream(Stream):
    name = "reload"
    rule = ("real file trees (pyscript/*.py, scripts/** with sub-directories, apps in module/package/both forms with siblings, "
            "modules in module/package/both forms with siblings; import edges: any file -> module, package -> sibling (relative), "
            "sibling -> sibling (relative or absolute), diamonds, dangling imports) walked through 2-5 reloads "
            "(None / a context name / '*') separated by 0-3 modify / touch / create / delete / '#'-rename / app-config steps; "
            "both decorator subsystems; structured cases first (diamond, module imported only by an app sibling, package "
            "replacing module form, '#' renames); non-trivial = some reload re-executes a context that was not itself "
            "named or changed, or discards one; distinct by the whole history")
    requires = "From PV Require Import Life.ReloadBase Gen.ReloadConsts Life.Modules Life.Reload Life.ReloadSpec Life.ReloadCheck."
    case_type = "rcase"
    check_model = "rcase_model_ok pv_cfg"
    check_spec = "rcase_spec_ok"
    attrib = "rcase_attrib pv_cfg"
    explain = "rcase_explain pv_cfg"
    shard_size = 15
    coqc_timeout = 600

    def budget(self, tier):
        return 150 if tier == "quick" else 1500

    def generate(self, ctx, budget, focus=None):
        cases = structured_cases()
        while len(cases) < budget:
            cases.append(RandomTree(ctx.rng).build())
        return cases

    def run_impl(self, ctx, cases):
        chunks = split_chunks(cases, 12)
        res = run_workers_parallel(ctx, "vh.workers.c10_reload", [{"cases": c} for c in chunks], timeout=1500)
        return [o for r in res for o in r]

    def to_coq(self, case, obs):
        return q_case(case, obs)

    def prelude(self, ctx, findings, witness_terms):
        return "Local Open Scope N_scope.\n" + cfg_prelude(
            [("d_deleted_no_propagate", "D100"), ("d_sibling_rel_name", "D101"), ("d_null_cfg", "D102"),
             ("d_named_start", "D103")], findings, witness_terms, "rcase_spec_ok")

    def key(self, case):
        import json
        return json.dumps({"l": case.get("legacy"), "s": case["steps"]}, sort_keys=True)

    def nontrivial(self, case, obs):
        steps = obs.get("steps", [])
        for i in range(1, len(steps)):
            before = {tuple(c["name"]): c["born"] for c in steps[i - 1]["ctxs"]}
            after = {tuple(c["name"]): c["born"] for c in steps[i]["ctxs"]}
            if len(steps[i]["events"]) >= 2 or any(n not in after for n in before):
                return True
        return False

    def kind(self, case, obs):
        args = {"none" if s["arg"] is None else "star" if s["arg"] == "*" else "named" for s in case["steps"][1:]}
        return ("legacy" if case.get("legacy") else "new") + "/" + "+".join(sorted(args)) + "/" + ",".join(case.get("tags", []))

    def describe(self, case, obs):
        def nm(ids):
            return ".".join(seg_name(x) for x in ids)
        d = []
        for i, st in enumerate(case["steps"]):
            o = obs.get("steps", [])
            d.append({"files": sorted(rel_of(p) for p in st["files"]), "apps": st["cfg"],
                      "arg": st["arg"] if st["arg"] in (None, "*") else nm(st["arg"]),
                      "re-executed": [nm(n) for n, _g in o[i]["events"]] if i < len(o) else None,
                      "loaded": [nm(c["name"]) for c in o[i]["ctxs"]] if i < len(o) else None})
        return {"legacy": case.get("legacy"), "steps": d, "errors": obs.get("errors"), "crash": obs.get("crash")}


class C10(Prop):
    id = "C10"
    title = "Reload loads exactly what the files and configuration now dictate"
    coq_targets = ["Properties/C10.vo"]
    property_file = "Properties/C10.v"
    streams = [ReloadStream()]
    trusted_base = [
        "modelled, not verified: load_scripts (glob_read_files, plan, delete-then-load), reload_scripts_handler, "
        "start_global_contexts, GlobalContext.module_import, GlobalContextMgr.load_file (Life/Modules.v, Life/Reload.v); "
        "executing a file = its load event + its import statements in order",
        "glob.glob + sorted are modelled by the pattern matcher gmatch over the tree listed in sorted path order",
        "the id<->string table of the harness (fixed-width names so that string order = numeric order)",
    ]
    assumptions = ["recorded import graph of the loaded contexts is acyclic (an import cycle does not terminate in pyscript)",
                   "context names are unique in GlobalContextMgr.contexts (a dict)"]
    partial_note = ("C10_post_state_default_partial: the equality contexts = spec_loaded after a DEFAULT reload assumes that the contexts surviving "
                    "the delete phase are consistent with the new tree (proved outright for '*' and start-up); "
                    "the watchdog thread is not exercised (reload is invoked as the service); import levels >= 2, nested "
                    "sub-packages, apps importing apps and `import pkg.sub` from outside the package are not generated")

    def translate(self, ctx):
        return {"Gen/ReloadConsts.v": gen_reload_consts()}


PROP = C10()

MANIFEST_ENTRY = {
    "technique": "Rocq proof (memoised import closure = reachability incl. fuel bound; step-by-step plan = declarative discard/force sets; "
                 "untouched/post-state invariants lifted over all reload histories; discovery vs documented rules) "
                 "+ in-Coq correspondence with the real pyscript.reload service on real file trees",
    "level_text": ("Theorems C10_import_closure(+_terminates) / C10_plan_exact / C10_untouched / C10_post_state_star / _startup (table = spec_loaded, the by-source import closure, each at current source) / "
                   "C10_post_state_default_partial / C10_post_state_current (+ C10_star_discards_all, C10_reexecuted, C10_reexecution_exact, "
                   "C10_autoload_complete) / C10_history_post / C10_history / C10_discover_names / C10_discover_autoload about a Gallina model of "
                   "load_scripts, module_import and start_global_contexts whose load_paths, context roots, change-detection fields and import "
                   "candidate table are regenerated from the source on every run and whose behaviour (load events in order and the complete "
                   "context table after every reload) is compared inside Coq with the real service on generated trees and histories. "
                   "Four deviations of the unchanged code (D100-D103) are modelled behind switches, refuted by vm_compute on their witnesses and "
                   "reported as KNOWN-FINDING while they persist."),
    "level_note": ("Trusted: Coq kernel+vm_compute; glob/sorted model; translator and drivers in /verif/harness. The exact post-state "
                   "(table = spec_loaded, each at current source) is proved for '*' and start-up; for default reloads under the hypothesis that "
                   "the survivors are consistent with the new tree (C10_post_state_default_partial; missing: cross-tree stability of import "
                   "resolution for unchanged files), which the correspondence checks on every history. Not exercised: watchdog thread."),
    "design_ref": "DESIGN.md §4 C10",
}
