"""C06 — time triggers fire at exactly the instants their specification denotes (partial)."""
import ast
import datetime as dt
from fractions import Fraction

from .. import coqio as q
from ..core import Prop, Stream, cfg_prelude, load_findings, run_workers_parallel, split_chunks
from ..translate import TranslateError, const, find_class, find_func, parse_file, walk_find

EPOCH = dt.datetime(1970, 1, 1)
US = dt.timedelta(microseconds=1)
TZ_NAME = "America/New_York"

# the documented unit names (docs/reference.rst, "optional offset"), in the order fixed in coq/Time/DtExpr.v
DOC_UNITS = ["", "s", "sec", "second", "seconds", "m", "min", "mins", "minute", "minutes", "h", "hr", "hour", "hours",
             "d", "day", "days", "w", "week", "weeks"]
DOC_SCALE = [1] * 5 + [60] * 5 + [3600] * 4 + [86400] * 3 + [604800] * 3
DOW_NAMES = [("sun", "sunday"), ("mon", "monday"), ("tue", "tuesday"), ("wed", "wednesday"), ("thu", "thursday"),
             ("fri", "friday"), ("sat", "saturday")]


def to_us(d):
    return (d - EPOCH) // US


def from_us(n):
    return EPOCH + dt.timedelta(microseconds=n)


# ------------------------------------------------------------------------------------------------
# T1: the unit table of parse_time_offset and the day_dither lists -> Gen/TimeConsts.v
# ------------------------------------------------------------------------------------------------
def _int_expr(node):
    """constant integer expression built from literals and `*`"""
    if isinstance(node, ast.Constant) and isinstance(node.value, int) and not isinstance(node.value, bool):
        return node.value
    if isinstance(node, ast.BinOp) and isinstance(node.op, ast.Mult):
        return _int_expr(node.left) * _int_expr(node.right)
    raise TranslateError(f"parse_time_offset: scale is not a product of integer literals: {ast.dump(node)[:80]}")


def _is_match2(node):
    return (isinstance(node, ast.Subscript) and isinstance(node.value, ast.Name) and node.value.id == "match"
            and isinstance(node.slice, ast.Constant) and node.slice.value == 2)


def translate_units():
    tree = parse_file("trigger.py")
    fn = find_func(tree, "parse_time_offset")
    init = [n for n in fn.body if isinstance(n, ast.Assign) and len(n.targets) == 1 and isinstance(n.targets[0], ast.Name)
            and n.targets[0].id == "scale"]
    if len(init) != 1:
        raise TranslateError("parse_time_offset: expected one top-level `scale = ...`")
    default = _int_expr(init[0].value)
    ret = [n for n in fn.body if isinstance(n, ast.Return)]
    ok = (len(ret) == 1 and isinstance(ret[0].value, ast.BinOp) and isinstance(ret[0].value.op, ast.Mult)
          and {getattr(ret[0].value.left, "id", None), getattr(ret[0].value.right, "id", None)} == {"value", "scale"})
    if not ok:
        raise TranslateError("parse_time_offset: does not `return value * scale`")
    tests = [n for n in ast.walk(fn) if isinstance(n, ast.If) and isinstance(n.test, ast.Compare) and _is_match2(n.test.left)]
    table = {}
    default_names = None
    for node in tests:
        t = node.test
        if len(t.ops) != 1 or not isinstance(t.comparators[0], (ast.Set, ast.Tuple, ast.List)):
            raise TranslateError("parse_time_offset: unit test is not `match[2] in {...}`")
        names = [const(e, (str,)) for e in t.comparators[0].elts]
        if isinstance(t.ops[0], ast.In):
            asg = [s for s in node.body if isinstance(s, ast.Assign)]
            if len(node.body) != 1 or len(asg) != 1 or getattr(asg[0].targets[0], "id", None) != "scale":
                raise TranslateError("parse_time_offset: unit branch is not a single `scale = ...`")
            sc = _int_expr(asg[0].value)
            for nme in names:
                if nme in table:
                    raise TranslateError(f"parse_time_offset: unit {nme!r} listed twice")
                table[nme] = sc
        elif isinstance(t.ops[0], ast.NotIn):
            if default_names is not None:
                raise TranslateError("parse_time_offset: two `not in` tests")
            default_names = names
        else:
            raise TranslateError("parse_time_offset: unexpected comparison on match[2]")
    if default_names is None:
        raise TranslateError("parse_time_offset: no `not in {...}` test for plain seconds")
    for nme in default_names:
        table.setdefault(nme, default)
    missing = [n for n in DOC_UNITS if n not in table]
    if missing:
        raise TranslateError(f"parse_time_offset: documented unit names not accepted: {missing}")
    # day_dither lists of timer_trigger_next
    cls = find_class(tree, "TrigTime")
    ttn = find_func(cls, "timer_trigger_next")
    dith = walk_find(ttn, lambda n: isinstance(n, ast.Assign) and len(n.targets) == 1
                     and isinstance(n.targets[0], ast.Name) and n.targets[0].id == "day_dither")
    if len(dith) != 2 or not all(isinstance(d.value, ast.List) for d in dith):
        raise TranslateError("timer_trigger_next: expected two literal `day_dither = [...]` assignments")

    def lit(node):
        if isinstance(node, ast.UnaryOp) and isinstance(node.op, ast.USub):
            return -const(node.operand)
        return const(node)

    dith.sort(key=lambda n: -len(n.value.elts))
    lists = [[lit(e) for e in d.value.elts] for d in dith]
    return [table[n] for n in DOC_UNITS], lists[0], lists[1]


def gen_time_consts():
    scales, d_undated, d_dated = translate_units()
    return "\n".join([
        "(* GENERATED by harness/vh/props/c06.py from trigger.py parse_time_offset / timer_trigger_next — do not edit *)",
        "From Coq Require Import ZArith List.", "Import ListNotations.", "",
        "(* seconds per unit, in the order of the documented unit names: " + " ".join(repr(n) for n in DOC_UNITS) + " *)",
        f"Definition unit_scale_table : list Z := {q.lst(q.Z(s) for s in scales)}.",
        f"Definition dither_undated : list Z := {q.lst(q.Z(s) for s in d_undated)}.",
        f"Definition dither_dated : list Z := {q.lst(q.Z(s) for s in d_dated)}.", ""])


# ------------------------------------------------------------------------------------------------
# time zone data (zoneinfo as an external oracle, shipped as data)
# ------------------------------------------------------------------------------------------------
def tz_table(name=TZ_NAME, y0=2022, y1=2028):
    from zoneinfo import ZoneInfo

    z = ZoneInfo(name)
    utc = dt.timezone.utc
    t = dt.datetime(y0, 1, 1, tzinfo=utc)
    end = dt.datetime(y1, 1, 1, tzinfo=utc)
    step = dt.timedelta(hours=1)
    cur = t.astimezone(z).utcoffset()
    default = cur
    trans = []
    while t < end:
        n = t + step
        o = n.astimezone(z).utcoffset()
        if o != cur:
            # refine to the minute
            lo, hi = t, n
            while hi - lo > dt.timedelta(minutes=1):
                mid = lo + (hi - lo) / 2
                if mid.astimezone(z).utcoffset() == cur:
                    lo = mid
                else:
                    hi = mid
            trans.append((to_us(hi.replace(tzinfo=None)), cur // US, o // US))
            cur = o
        t = n
    return default // US, trans


_TZ_CACHE = {}


def tz_coq():
    if TZ_NAME not in _TZ_CACHE:
        default, trans = tz_table()
        _TZ_CACHE[TZ_NAME] = "{| tz_default := %s; tz_trans := %s |}" % (
            q.Z(default), q.lst("(%s, %s, %s)" % (q.Z(a), q.Z(b), q.Z(c)) for a, b, c in trans))
    return _TZ_CACHE[TZ_NAME]


# ------------------------------------------------------------------------------------------------
# grammar: (string, parsed form) pairs
# ------------------------------------------------------------------------------------------------
def dec_str(num, exp):
    """num / 10^exp as a decimal literal (num >= 0)"""
    s = str(num)
    if exp == 0:
        return s
    s = s.rjust(exp + 1, "0")
    return s[:-exp] + "." + s[-exp:]


def mk_amount(rng, us_value=None, units=None):
    """-> (text without sign, [num, exp, unit_idx], exact microseconds).  If us_value is given the amount equals it."""
    for _ in range(200):
        ui = rng.randrange(len(DOC_UNITS)) if units is None else rng.choice(units)
        sc = DOC_SCALE[ui]
        if us_value is None:
            exp = rng.choice([0, 0, 0, 1, 2, 3])
            num = rng.choice([1, 2, 5, 10, 15, 30, 45, 90, 120, rng.randint(1, 3000)])
            val = Fraction(num, 10 ** exp) * sc * 10 ** 6
            if val.denominator != 1:
                continue
        else:
            val = Fraction(us_value)
            fr = val / (sc * 10 ** 6)
            # finite decimal expansion with at most 9 digits?
            exp = None
            for e in range(0, 10):
                if (fr * 10 ** e).denominator == 1:
                    exp = e
                    break
            if exp is None:
                continue
            num = int(fr * 10 ** exp)
        name = DOC_UNITS[ui]
        sep = rng.choice(["", " "]) if name else ""
        return dec_str(num, exp) + sep + name, [num, exp, ui], int(val)
    raise RuntimeError("no amount found")


def fmt_offset(rng, us):
    """signed offset text for `us` microseconds -> (text, amount)"""
    sign = "-" if us < 0 else "+"
    units = [1, 2, 5, 6, 10, 11, 12, 14, 15, 17] if rng.random() < 0.7 else None
    txt, am, val = mk_amount(rng, abs(us), units)
    lead = rng.choice([" ", ""])
    gap = rng.choice(["", " "])
    am = [(-am[0] if us < 0 else am[0]), am[1], am[2]]
    return f"{lead}{sign}{gap}{txt}", am


def fmt_tod(rng, tod_us):
    """h:m[:s[.f]] for a time of day in microseconds (0 <= tod < 24h)"""
    h, r = divmod(tod_us, 3600 * 10 ** 6)
    m, r = divmod(r, 60 * 10 ** 6)
    pad = rng.random() < 0.5
    hs = f"{h:02d}" if pad else str(h)
    ms = f"{m:02d}" if (pad or rng.random() < 0.8) else str(m)
    if r == 0 and rng.random() < 0.7:
        return f"{hs}:{ms}", ["hms", h, m, 0, 0]
    # seconds with up to 6 decimals
    exp = 6
    num = r
    while exp > 0 and num % 10 == 0:
        num //= 10
        exp -= 1
    ss = dec_str(num, exp)
    if pad and exp == 0:
        ss = ss.rjust(2, "0")
    return f"{hs}:{ms}:{ss}", ["hms", h, m, num, exp]


def fmt_date(rng, kind, day):
    """day: datetime.date -> (text, parsed date)"""
    if kind == "full":
        sep = rng.choice(["/", "/", "-"])
        if rng.random() < 0.5:
            return f"{day.year}{sep}{day.month}{sep}{day.day}", ["full", day.year, day.month, day.day]
        return f"{day.year}{sep}{day.month:02d}{sep}{day.day:02d}", ["full", day.year, day.month, day.day]
    if kind == "md":
        if rng.random() < 0.5:
            return f"{day.month}/{day.day}", ["md", day.month, day.day]
        return f"{day.month:02d}/{day.day:02d}", ["md", day.month, day.day]
    if kind == "dow":
        w = day.isoweekday() % 7
        return rng.choice(DOW_NAMES[w]), ["dow", w]
    return kind, [kind]  # today / tomorrow


def mk_expr(rng, target, now, su, allow_sun=True, kinds=None, allow_off=True, allow_feb29=False):
    """An expression that (for a suitable day) denotes the instant `target`; -> dict(str, date, time, off).
    `now` is only used to decide which relative date forms can denote the target's day."""
    tday = target.date()
    nday = now.date()
    cands = ["full", "md", "none", "none"]
    if tday == nday:
        cands.append("today")
    if tday == nday + dt.timedelta(days=1):
        cands.append("tomorrow")
    if 0 <= (tday - nday).days < 7:
        cands.append("dow")
    if kinds:
        cands = [c for c in cands if c in kinds] or ["none"]
    dk = rng.choice(cands)
    # offset: keep the base time inside the target's day where a date is named
    off_us = 0
    if allow_off and rng.random() < 0.35:
        off_us = rng.choice([1, -1]) * rng.choice([10 ** 6, 30 * 10 ** 6, 90 * 10 ** 6, 5 * 60 * 10 ** 6, 3600 * 10 ** 6, 5400 * 10 ** 6,
                                                   86400 * 10 ** 6, 2 * 86400 * 10 ** 6, 7 * 86400 * 10 ** 6, 500000, 1500])
    base = target - dt.timedelta(microseconds=off_us)
    tod = to_us(base) % (86400 * 10 ** 6)
    r = rng.random()
    if tod == 0 and r < 0.3:
        ttxt, tp = rng.choice([("midnight", ["midnight"]), ("", ["none"])])
    elif tod == 12 * 3600 * 10 ** 6 and r < 0.5:
        ttxt, tp = "noon", ["noon"]
    else:
        ttxt, tp = fmt_tod(rng, tod)
    if dk == "none":
        dtxt, dp = "", ["none"]
    else:
        # the named day must be the day of `base` (offset may have moved it)
        bday = base.date()
        if dk == "today" and bday != nday:
            dk = "full"
        if dk == "tomorrow" and bday != nday + dt.timedelta(days=1):
            dk = "full"
        if dk == "dow" and not 0 <= (bday - nday).days < 7:
            dk = "full"
        if dk == "md" and (bday.month, bday.day) == (2, 29) and not allow_feb29:
            dk = "full"
        dtxt, dp = fmt_date(rng, dk, bday)
    if not dtxt and not ttxt:
        ttxt, tp = "0:00", ["hms", 0, 0, 0, 0]
    otxt, am = ("", None)
    if off_us:
        otxt, am = fmt_offset(rng, off_us)
    if dtxt and not ttxt and otxt and not otxt.startswith(" "):
        otxt = " " + otxt       # "3/5-1d" would be read as the date 0003-05-01
    txt = (dtxt + " " + ttxt).strip() + otxt
    return {"str": txt, "date": dp, "time": tp, "off": am}


def mk_now_expr(rng, off_us):
    otxt, am = ("", None)
    if off_us:
        otxt, am = fmt_offset(rng, off_us)
    return {"str": "now" + otxt, "date": ["none"], "time": ["now"], "off": am}


def mk_sun_expr(rng, now):
    kind = rng.choice(["sunrise", "sunset"])
    dk = rng.choice(["none", "none", "today", "tomorrow", "dow", "full"])
    day = now.date() + dt.timedelta(days=rng.randint(0, 6))
    if dk == "none":
        dtxt, dp = "", ["none"]
    else:
        dtxt, dp = fmt_date(rng, dk, day if dk in ("dow", "full") else now.date())
    otxt, am = ("", None)
    if rng.random() < 0.5:
        otxt, am = fmt_offset(rng, rng.choice([1, -1]) * rng.choice([30 * 60 * 10 ** 6, 5400 * 10 ** 6, 10 ** 6, 3600 * 10 ** 6]))
    return {"str": (dtxt + " " + kind).strip() + otxt, "date": dp, "time": [kind], "off": am}


PERIODS_US = [10 ** 5, 250000, 10 ** 6, 1500000, 1100000, 30 * 10 ** 6, 60 * 10 ** 6, 90 * 10 ** 6, 120 * 10 ** 6, 180 * 10 ** 6,
              15 * 60 * 10 ** 6, 3600 * 10 ** 6, 2 * 3600 * 10 ** 6, 4 * 3600 * 10 ** 6, 43200 * 10 ** 6, 43200360000,
              86400 * 10 ** 6, 7 * 86400 * 10 ** 6, 36 * 3600 * 10 ** 6]
DIVISORS_24H = [10 ** 6, 30 * 10 ** 6, 60 * 10 ** 6, 120 * 10 ** 6, 15 * 60 * 10 ** 6, 3600 * 10 ** 6, 2 * 3600 * 10 ** 6,
                4 * 3600 * 10 ** 6, 6 * 3600 * 10 ** 6, 12 * 3600 * 10 ** 6, 86400 * 10 ** 6]


def cron_field(rng, value, lo, hi, allow_step):
    """a field text matching `value` -> (text, expanded list or None)"""
    r = rng.random()
    if r < 0.3:
        return "*", None
    if r < 0.55:
        return str(value), [value]
    if r < 0.7:
        a = rng.randint(lo, value)
        b = rng.randint(value, hi)
        if a == b:            # croniter 6.2.4 expands the degenerate range N-N to "*" (observation, see notes/C06.md)
            return str(value), [value]
        return f"{a}-{b}", list(range(a, b + 1))
    if r < 0.85:
        others = sorted({value} | {rng.randint(lo, hi) for _ in range(rng.randint(1, 3))})
        return ",".join(map(str, others)), others
    if allow_step:
        steps = [s for s in (2, 3, 5, 10, 15, 20, 30) if (value - lo) % s == 0 and s <= hi]
        if steps:
            s = rng.choice(steps)
            return f"*/{s}", list(range(lo, hi + 1, s))
    a = rng.randint(lo, value)
    if a == value:
        return str(value), [value]
    return f"{a}-{value},{value}", sorted(set(range(a, value + 1)))


def mk_cron(rng, target):
    """cron spec matching the minute of `target`"""
    t = target.replace(second=0, microsecond=0)
    mtxt, mv = cron_field(rng, t.minute, 0, 59, True)
    htxt, hv = cron_field(rng, t.hour, 0, 23, True)
    dtxt, dv = ("*", None)
    montxt, monv = ("*", None)
    wtxt, wv = ("*", None)
    r = rng.random()
    if r < 0.25 and t.day <= 28:
        dtxt, dv = cron_field(rng, t.day, 1, 28, False)
    elif r < 0.45:
        wtxt, wv = cron_field(rng, t.isoweekday() % 7, 0, 6, False)
    elif r < 0.55 and t.day <= 28:
        dtxt, dv = cron_field(rng, t.day, 1, 28, False)
        wtxt, wv = cron_field(rng, rng.randint(0, 6), 0, 6, False)
    if rng.random() < 0.25:
        montxt, monv = cron_field(rng, t.month, 1, 12, False)
    txt = f"cron({mtxt} {htxt} {dtxt} {montxt} {wtxt})"
    return {"kind": "cron", "str": txt, "fields": [mv, hv, dv, monv, wv]}


def mk_spec(rng, target, now, su, kind=None):
    """a specification denoting `target` (at least for suitable days) -> spec dict"""
    kind = kind or rng.choice(["once", "once", "period", "period", "pclosed", "cron", "now", "sun"])
    if kind == "once":
        e = mk_expr(rng, target, now, su, allow_feb29=True)     # once(2/29 ...): finding D65 in years without that day
        return {"kind": "once", "str": f"once({e['str']})", "e": e}
    if kind == "now":
        off = to_us(target) - to_us(su)
        if abs(off) > 40 * 86400 * 10 ** 6 or rng.random() < 0.3:
            off = rng.choice([0, 0, 60 * 10 ** 6, 5 * 60 * 10 ** 6, 3600 * 10 ** 6, 86400 * 10 ** 6])
        e = mk_now_expr(rng, off)
        if rng.random() < 0.5:
            return {"kind": "once", "str": f"once({e['str']})", "e": e}
        ptxt, pam, pus = mk_amount(rng, rng.choice(PERIODS_US))
        if rng.random() < 0.5:
            return {"kind": "period", "str": f"period({e['str']}, {ptxt})", "s": e, "iv": pam, "e": None}
        e2 = mk_now_expr(rng, off + pus * rng.randint(0, 4) + rng.choice([0, 0, 1, -1, 1000]))
        if rng.random() < 0.3:
            e2 = mk_expr(rng, target + dt.timedelta(microseconds=pus * rng.randint(0, 3)), now, su, kinds=["none", "today", "full"])
        return {"kind": "period", "str": f"period({e['str']}, {ptxt}, {e2['str']})", "s": e, "iv": pam, "e": e2}
    if kind == "sun":
        e = mk_sun_expr(rng, now)
        if rng.random() < 0.6:
            return {"kind": "once", "str": f"once({e['str']})", "e": e}
        ptxt, pam, pus = mk_amount(rng, rng.choice([3600 * 10 ** 6, 4 * 3600 * 10 ** 6, 30 * 60 * 10 ** 6]))
        if rng.random() < 0.5:
            return {"kind": "period", "str": f"period({e['str']}, {ptxt})", "s": e, "iv": pam, "e": None}
        e2 = mk_sun_expr(rng, now)
        return {"kind": "period", "str": f"period({e['str']}, {ptxt}, {e2['str']})", "s": e, "iv": pam, "e": e2}
    if kind == "cron":
        return mk_cron(rng, target)
    # period: target = start + k * P
    if kind == "period":
        if rng.random() < 0.4:
            # time-only start, self-consistent daily re-anchoring: start < interval, interval divides 24 h
            pus = rng.choice(DIVISORS_24H)
            tod = to_us(target) % (86400 * 10 ** 6)
            s_us = tod % pus
            start = dt.datetime.combine(target.date(), dt.time()) + dt.timedelta(microseconds=s_us)
            ttxt, tp = fmt_tod(rng, s_us)     # start's time of day inside [0, interval), no offset
            e = {"str": ttxt, "date": ["none"], "time": tp, "off": None}
        else:
            pus = rng.choice(PERIODS_US)
            k = rng.choice([0, 1, 2, 3, 10, rng.randint(0, 2000)])
            start = target - dt.timedelta(microseconds=pus * k)
            e = mk_expr(rng, start, now, su, kinds=["full", "full", "md", "today", "dow"])
        ptxt, pam, _ = mk_amount(rng, pus)
        return {"kind": "period", "str": f"period({e['str']}, {ptxt})", "s": e, "iv": pam, "e": None}
    # period with an end
    pus = rng.choice(PERIODS_US[:15])
    k = rng.choice([0, 1, 2, 3, rng.randint(0, 50)])
    start = target - dt.timedelta(microseconds=pus * k)
    if rng.random() < 0.5:
        # both undated: daily window (possibly over midnight)
        length = rng.choice([pus * rng.randint(0, 6) + rng.choice([0, 0, 1, -1, 500000]), rng.randint(0, 86399) * 10 ** 6])
        length = max(0, min(length, 86399 * 10 ** 6))
        es = mk_expr(rng, start, now, su, kinds=["none"])
        ee = mk_expr(rng, start + dt.timedelta(microseconds=length), now, su, kinds=["none"])
    else:
        length = pus * rng.randint(0, 6) + rng.choice([0, 0, 1, -1, 500000, -500000])
        es = mk_expr(rng, start, now, su, kinds=rng.choice([["full"], ["today"], ["none"], ["full", "dow"]]))
        ee = mk_expr(rng, start + dt.timedelta(microseconds=length), now, su, kinds=rng.choice([["full"], ["today"], ["none"], ["full"]]))
    ptxt, pam, _ = mk_amount(rng, pus)
    return {"kind": "period", "str": f"period({es['str']}, {ptxt}, {ee['str']})", "s": es, "iv": pam, "e": ee}


# ------------------------------------------------------------------------------------------------
# current times: a two-year window with its awkward days
# ------------------------------------------------------------------------------------------------
D = dt.datetime
WINDOW = (D(2024, 1, 1), D(2025, 12, 31, 23, 59, 59, 999999))
SPECIAL = [
    D(2024, 3, 10, 1, 59, 59, 999999), D(2024, 3, 10, 2, 0), D(2024, 3, 10, 2, 30), D(2024, 3, 10, 3, 0), D(2024, 3, 10, 6, 0),
    D(2024, 11, 3, 0, 30), D(2024, 11, 3, 1, 0), D(2024, 11, 3, 1, 30), D(2024, 11, 3, 2, 0), D(2024, 11, 3, 6, 0),
    D(2025, 3, 9, 2, 0), D(2025, 3, 9, 18, 0), D(2025, 11, 2, 1, 15), D(2025, 11, 2, 18, 0),
    D(2024, 2, 28, 23, 59, 59, 999999), D(2024, 2, 29, 0, 0), D(2024, 2, 29, 12, 0), D(2024, 3, 1, 0, 0), D(2025, 2, 28, 23, 59, 59),
    D(2025, 3, 1, 0, 0), D(2024, 12, 31, 23, 59, 59, 999999), D(2025, 1, 1, 0, 0), D(2024, 1, 31, 23, 59), D(2024, 4, 30, 23, 59, 59),
    D(2024, 6, 30, 12, 0), D(2025, 12, 31, 23, 0), D(2024, 1, 1, 0, 0),
]


def rand_instant(rng):
    span = to_us(WINDOW[1]) - to_us(WINDOW[0])
    t = from_us(to_us(WINDOW[0]) + rng.randrange(span))
    r = rng.random()
    if r < 0.4:
        t = t.replace(microsecond=0)
    if r < 0.25:
        t = t.replace(second=0)
    if r < 0.1:
        t = t.replace(minute=rng.choice([0, 30]))
    return t


def pick_anchor(rng):
    if rng.random() < 0.45:
        a = rng.choice(SPECIAL)
        if rng.random() < 0.5:
            a = a + dt.timedelta(seconds=rng.choice([0, 60, 3600, -3600, 86400, -86400, 1800]))
        return a
    return rand_instant(rng)


NEAR = [0, 1, -1, 2, -2, 10 ** 6, -10 ** 6, 999999, 60 * 10 ** 6, -60 * 10 ** 6, 3600 * 10 ** 6, -3600 * 10 ** 6,
        86400 * 10 ** 6, -86400 * 10 ** 6, 86400 * 10 ** 6 + 1, -86400 * 10 ** 6 - 1, 7 * 86400 * 10 ** 6]


def gen_feb29_case(rng):
    """once(2/29 ...) at a random current time of the window (2024 has the day, 2025 does not: finding D65)"""
    target = D(2024, 2, 29, rng.randint(0, 23), rng.choice([0, 30, 59]))
    now = rand_instant(rng) if rng.random() < 0.7 else target + dt.timedelta(microseconds=rng.choice(NEAR))
    su = now - dt.timedelta(microseconds=rng.choice([0, 1, 10 ** 6, 86400 * 10 ** 6]))
    e = mk_expr(rng, target, target, su, kinds=["md"], allow_feb29=True)
    specs = [{"kind": "once", "str": f"once({e['str']})", "e": e}]
    if rng.random() < 0.4:
        specs.insert(rng.randint(0, 1), mk_spec(rng, now + dt.timedelta(hours=1), now, su, kind=rng.choice(["once", "cron", "period"])))
    return {"specs": specs, "now": to_us(now), "su": to_us(su)}


def gen_next_case(rng):
    if rng.random() < 0.012:
        return gen_feb29_case(rng)
    target = pick_anchor(rng)
    r = rng.random()
    if r < 0.55:
        delta = rng.choice(NEAR)
    elif r < 0.8:
        delta = rng.randint(-3 * 86400 * 10 ** 6, 3 * 86400 * 10 ** 6)
    else:
        delta = rng.randint(-400 * 86400 * 10 ** 6, 400 * 86400 * 10 ** 6)
    now = target + dt.timedelta(microseconds=delta)
    if not WINDOW[0] <= now <= WINDOW[1]:
        now = target
    r = rng.random()
    if r < 0.2:
        su = now
    elif r < 0.3:
        su = target
    elif r < 0.4:
        su = now - US
    else:
        su = now - dt.timedelta(microseconds=rng.choice([1, 1000, 10 ** 6, 61 * 10 ** 6, 3600 * 10 ** 6, 86400 * 10 ** 6,
                                                           rng.randint(1, 30 * 86400 * 10 ** 6)]))
    n = rng.choice([1, 1, 1, 2, 2, 3])
    specs = []
    for i in range(n):
        tgt = target if (i == 0 or rng.random() < 0.4) else target + dt.timedelta(microseconds=rng.choice(NEAR + [rng.randint(-10 ** 10, 10 ** 10)]))
        specs.append(mk_spec(rng, tgt, now, su))
    return {"specs": specs, "now": to_us(now), "su": to_us(su)}


# ------------------------------------------------------------------------------------------------
# Gallina terms
# ------------------------------------------------------------------------------------------------
def q_amount(a):
    return "{| am_num := %s; am_exp := %s; am_unit := %s |}" % (q.Z(a[0]), q.N(a[1]), q.N(a[2]))


def q_expr(e):
    d = e["date"]
    dk = d[0]
    if dk == "full":
        ds = f"(DFull {q.Z(d[1])} {q.Z(d[2])} {q.Z(d[3])})"
    elif dk == "md":
        ds = f"(DMonthDay {q.Z(d[1])} {q.Z(d[2])})"
    elif dk == "dow":
        ds = f"(DDow {q.Z(d[1])})"
    else:
        ds = {"today": "DToday", "tomorrow": "DTomorrow", "none": "DNone"}[dk]
    t = e["time"]
    if t[0] == "hms":
        ts = f"(THMS {q.Z(t[1])} {q.Z(t[2])} {q.Z(t[3])} {q.N(t[4])})"
    else:
        ts = {"noon": "TNoon", "midnight": "TMidnight", "sunrise": "TSunrise", "sunset": "TSunset", "now": "TNow", "none": "TNone"}[t[0]]
    off = q.option(q_amount(e["off"]) if e["off"] is not None else None)
    return "{| de_date := %s; de_time := %s; de_off := %s |}" % (ds, ts, off)


def q_field(f):
    return q.option(q.lst(q.Z(x) for x in f) if f is not None else None)


def q_spec(s):
    if s["kind"] == "once":
        return f"(Once {q_expr(s['e'])})"
    if s["kind"] == "period":
        return "(Period %s %s %s)" % (q_expr(s["s"]), q_amount(s["iv"]), q.option(q_expr(s["e"]) if s["e"] is not None else None))
    f = s["fields"]
    return "(Cron {| c_min := %s; c_hour := %s; c_dom := %s; c_mon := %s; c_dow := %s |})" % tuple(q_field(x) for x in f)


def q_nobs(o):
    if o["kind"] == "exc":
        return "OExc"
    if o["t"] is None:
        return "(ORes None)"
    return f"(ORes (Some ({q.Z(o['t'])}, {q.Z(o['adj'])})))"


def q_sun(tbl):
    return q.lst("(%s, %s, %s)" % (q.Z(d), q.boolean(k), q.option(q.Z(v) if v is not None else None)) for d, k, v in tbl)


SWITCHES = [("d_period_wallclock", "D60"), ("d_once_md_this_year", "D61"), ("d_float_floor", "D63"),
            ("d_su_coincidence", "D64"), ("d_md_invalid_raises", "D65"), ("d_newsub_adj_recheck", None), ("d_legacy_gap_recheck", None), ("d_legacy_stop_fault", None)]


def spec_features(s):
    f = [s["kind"]]
    for key in ("e", "s"):
        e = s.get(key)
        if isinstance(e, dict):
            f.append(e["date"][0])
            f.append(e["time"][0])
    return f


class NextStream(Stream):
    """(specification list, current time, startup time) -> the real TrigTime.timer_trigger_next"""

    name = "next"
    rule = ("specifications generated from the documented grammar around an anchor instant (DST transition days of America/New_York, "
            "leap day, month/year ends, random instants of 2024-2025): once()/period() with and without end/cron(), dates full, "
            "month/day, weekday, today/tomorrow, omitted; times h:m[:s[.f]], noon, midnight, sunrise, sunset, now; offsets in all "
            "documented units; lists of 1-3; current time = anchor +- {0, 1us, 1s, 1min, 1h, 1d, ...} or random; startup = now, "
            "now-1us, anchor or earlier.  The string goes to the real timer_trigger_next (real HomeAssistant, time zone "
            "America/New_York), the parsed form to the Model; astral's values are passed through as data.  non-trivial = a next "
            "time was returned or the current time is within a day of the anchor; distinct by (strings, now, startup)")
    requires = "From PV Require Import Common.Civil Time.DtExpr Time.Next Time.NextCheck."
    case_type = "ncase"
    check_model = "ncase_model_ok pv_tz pv_cfg"
    check_spec = "ncase_spec_ok pv_tz"
    attrib = "ncase_attrib pv_tz pv_cfg"
    explain = "ncase_explain pv_tz pv_cfg"
    shard_size = 250

    def budget(self, tier):
        return 4000 if tier == "quick" else 40000

    def prelude(self, ctx, findings, witness_terms):
        return f"Definition pv_tz : tzdata := {tz_coq()}.\n" + cfg_prelude(SWITCHES, findings, witness_terms, "ncase_spec_ok pv_tz")

    def generate(self, ctx, budget, focus=None):
        return [gen_next_case(ctx.rng) for _ in range(budget)]

    def run_impl(self, ctx, cases):
        chunks = split_chunks(cases, 8)
        payloads = [{"op": "next", "tz": TZ_NAME,
                     "cases": [{"specs": [s["str"] for s in c["specs"]], "now": c["now"], "su": c["su"]} for c in ch]} for ch in chunks]
        res = run_workers_parallel(ctx, "vh.workers.c06_time", payloads)
        return [o for r in res for o in r]

    def to_coq(self, case, obs):
        return "{| nc_specs := %s; nc_now := %s; nc_su := %s; nc_sun := %s; nc_obs := %s |}" % (
            q.lst(q_spec(s) for s in case["specs"]), q.Z(case["now"]), q.Z(case["su"]), q_sun(obs.get("sun", [])), q_nobs(obs))

    def key(self, case):
        return "|".join(s["str"] for s in case["specs"]) + f"@{case['now']}@{case['su']}"

    def nontrivial(self, case, obs):
        return obs["kind"] == "res" and obs["t"] is not None

    def kind(self, case, obs):
        ks = sorted({s["kind"] for s in case["specs"]})
        out = "exc" if obs["kind"] == "exc" else ("none" if obs["t"] is None else "some")
        return f"{len(case['specs'])}:{'+'.join(ks)}:{out}"

    def describe(self, case, obs):
        return {"specs": [s["str"] for s in case["specs"]], "now": str(from_us(case["now"])), "startup": str(from_us(case["su"])),
                "next_time": None if obs.get("t") is None else str(from_us(obs["t"])),
                "next_time_adj": None if obs.get("adj") is None else str(from_us(obs["adj"])), "exception": obs.get("exc")}


# ------------------------------------------------------------------------------------------------
# running triggers on the virtual clock
# ------------------------------------------------------------------------------------------------
def local_to_utc_us(local_naive):
    from zoneinfo import ZoneInfo

    aware = local_naive.replace(tzinfo=ZoneInfo(TZ_NAME))
    return to_us(aware.astimezone(dt.timezone.utc).replace(tzinfo=None))


RUN_BASES = [D(2024, 3, 4, 12, 0), D(2024, 2, 28, 23, 50), D(2024, 12, 31, 23, 45), D(2025, 6, 15, 8, 30), D(2024, 7, 1, 17, 59, 30)]
DST_BASES = [D(2024, 3, 9, 22, 0), D(2024, 11, 2, 22, 0), D(2025, 3, 8, 23, 30), D(2025, 11, 1, 23, 30)]
MIN = 60 * 10 ** 6


def _expr_at(rng, inst, kinds, allow_off=True):
    return mk_expr(rng, inst, inst, inst, kinds=kinds, allow_off=allow_off)


def gen_run_scenario(rng, idx):
    """-> scenario dict without the subsystem"""
    kinds = ["now", "clock_step2", "combo_hold", "now_period", "tod", "fault_stop", "clock_slew", "cron_min", "mixed", "dst_cron",
             "clock_step1", "combo_event", "dst_hourly", "sun", "startup_only", "full", "fault_stop", "window", "clock_slew_step", "combo_hold"]
    kind = kinds[idx % len(kinds)]
    if kind.startswith("clock"):
        return gen_clock_scenario(rng, kind)
    if kind.startswith("combo"):
        return gen_combo_scenario(rng, kind)
    if kind == "fault_stop":
        return gen_fault_stop_scenario(rng, idx)
    base = rng.choice(DST_BASES if kind.startswith("dst") else RUN_BASES)
    if kind not in ("dst_cron", "dst_hourly") and rng.random() < 0.5:
        base = base + dt.timedelta(seconds=rng.randint(0, 3000))
    loc = base + dt.timedelta(seconds=1)          # about the trigger's startup time
    specs = []
    startup = rng.random() < 0.4
    shutdown = rng.random() < 0.4
    noargs = False
    horizon = 600
    if kind == "now":
        for _ in range(rng.randint(1, 3)):
            specs.append(mk_spec_now_once(rng, rng.choice([1, 5, 30, 60, 90, 300]) * 10 ** 6))
        horizon = 400
    elif kind == "now_period":
        pus = rng.choice([10, 30, 60, 300]) * 10 ** 6
        a = rng.choice([0, 1, 2]) * pus + rng.choice([0, 10 ** 6])
        n = rng.randint(1, 6)
        e1, e2 = mk_now_expr(rng, a), mk_now_expr(rng, a + n * pus + rng.choice([0, 0, 500000, -500000]))
        ptxt, pam, _ = mk_amount(rng, pus)
        if rng.random() < 0.6:
            specs.append({"kind": "period", "str": f"period({e1['str']}, {ptxt}, {e2['str']})", "s": e1, "iv": pam, "e": e2})
        else:
            specs.append({"kind": "period", "str": f"period({e1['str']}, {ptxt})", "s": e1, "iv": pam, "e": None})
        if a == 0:
            startup = False      # legacy consumes the first iteration for "startup" (see notes/C06.md)
        horizon = (a + 8 * pus) // 10 ** 6
    elif kind == "tod":
        t1 = loc.replace(microsecond=0) + dt.timedelta(seconds=rng.choice([30, 61, 600, 3599]))
        e = _expr_at(rng, t1, ["none"])
        specs.append({"kind": "once", "str": f"once({e['str']})", "e": e})
        horizon = rng.choice([3700, 86400 + 3700, 2 * 86400 + 3700])
    elif kind == "full":
        t1 = loc.replace(microsecond=0) + dt.timedelta(seconds=rng.choice([30, 61, 600, 3599]))
        e = _expr_at(rng, t1, ["full"])
        specs.append({"kind": "once", "str": f"once({e['str']})", "e": e})
        e2 = _expr_at(rng, t1 - dt.timedelta(seconds=7200), ["full"])
        specs.append({"kind": "once", "str": f"once({e2['str']})", "e": e2})       # already in the past: never fires
        horizon = 4000
    elif kind == "window":
        t1 = loc.replace(second=0, microsecond=0) + dt.timedelta(minutes=rng.choice([1, 2, 10]))
        pus = rng.choice([60, 120, 300]) * 10 ** 6
        n = rng.randint(1, 5)
        es = _expr_at(rng, t1, ["none"], allow_off=False)        # offsets of days would make the window days long
        ee = _expr_at(rng, t1 + dt.timedelta(microseconds=n * pus + rng.choice([0, 30 * 10 ** 6])), ["none"], allow_off=False)
        ptxt, pam, _ = mk_amount(rng, pus)
        specs.append({"kind": "period", "str": f"period({es['str']}, {ptxt}, {ee['str']})", "s": es, "iv": pam, "e": ee})
        horizon = rng.choice([3600, 86400 + 3600])
    elif kind == "cron_min":
        step = rng.choice([1, 2, 5, 10, 15])
        specs.append({"kind": "cron", "str": f"cron(*/{step} * * * *)", "fields": [list(range(0, 60, step)), None, None, None, None]})
        horizon = step * 60 * rng.randint(2, 8) + 7
    elif kind == "mixed":
        specs.append(mk_spec_now_once(rng, rng.choice([45, 600]) * 10 ** 6))
        t1 = loc.replace(second=0, microsecond=0) + dt.timedelta(minutes=rng.choice([2, 7]))
        specs.append(mk_cron(rng, t1))
        e = _expr_at(rng, t1 + dt.timedelta(seconds=rng.choice([0, 30])), ["none", "today", "full", "dow"])
        specs.append({"kind": "once", "str": f"once({e['str']})", "e": e})
        horizon = 1800
    elif kind == "dst_cron":
        h = rng.choice([6, 1, 3])
        m = rng.choice([0, 30])
        specs.append({"kind": "cron", "str": f"cron({m} {h} * * *)", "fields": [[m], [h], None, None, None]})
        horizon = 2 * 86400
    elif kind == "dst_hourly":
        specs.append({"kind": "cron", "str": "cron(1 1-4 * * *)", "fields": [[1], [1, 2, 3, 4], None, None, None]})
        horizon = 9 * 3600
    elif kind == "sun":
        e = mk_sun_expr(rng, loc)
        e = {"str": e["str"], "date": e["date"], "time": e["time"], "off": e["off"]}
        if e["date"][0] != "none":
            e = {"str": e["time"][0], "date": ["none"], "time": e["time"], "off": None}
        specs.append({"kind": "once", "str": f"once({e['str']})", "e": e})
        horizon = 86400 + 40000
    else:
        noargs = rng.random() < 0.5
        startup = True
        shutdown = (not noargs) and rng.random() < 0.7
        horizon = 30
    return {"specs": specs, "startup": startup, "shutdown": shutdown, "noargs": noargs, "startup_pos": rng.randint(0, 3),
            "base_utc": local_to_utc_us(base), "horizon": horizon + 0.5, "lead": 1.0}


def gen_combo_scenario(rng, kind):
    """One function with @time_trigger AND @state_trigger(state_hold=H) (and @event_trigger): while it waits for the next instant the
    state expression becomes true and false again (hold periods that complete, that are abandoned, that would end before / after
    the next instant) and events arrive.  Only the time runs are judged here (trigger_time of every run)."""
    base = rng.choice(RUN_BASES).replace(second=0) + dt.timedelta(seconds=rng.randint(0, 50))
    p = rng.choice([4, 6, 10])
    specs = []
    r = rng.random()
    if r < 0.4:
        e = mk_now_expr(rng, rng.choice([3, 5, 7]) * 10 ** 6)
        ptxt, pam, _ = mk_amount(rng, p * 10 ** 6, units=[1, 2, 3, 4])
        specs.append({"kind": "period", "str": f"period({e['str']}, {ptxt})", "s": e, "iv": pam, "e": None})
    elif r < 0.7:
        t1 = base + dt.timedelta(seconds=1 + rng.choice([6, 7, 9]))
        e = mk_expr(rng, t1, base, base, kinds=["none", "full"], allow_off=False)
        specs.append({"kind": "once", "str": f"once({e['str']})", "e": e})
        specs.append(mk_spec_now_once(rng, rng.choice([13, 17]) * 10 ** 6))
    else:
        specs.append(mk_spec_now_once(rng, rng.choice([6, 8]) * 10 ** 6))
        specs.append(mk_spec_now_once(rng, rng.choice([14, 19]) * 10 ** 6))
    hold = rng.choice([2, 2.5, 3, 4.5])
    hist = []
    t = 0.0
    horizon = 24
    while True:
        t += rng.choice([0.25, 0.75, 1.25, 2.25])
        if t > horizon - 4:
            break
        hist.append([t, "set", "1"])
        # abandoned before the hold ends, or kept until after it
        t += rng.choice([hold * 0.4, hold * 0.4, hold + 0.75, hold + 1.75]) if True else 0
        t = round(t * 8) / 8 + 0.0625
        hist.append([t, "set", "0"])
    if kind == "combo_event":
        for _ in range(rng.randint(1, 4)):
            hist.append([round(rng.uniform(0.3, horizon - 3), 2) + 0.003, "ev", rng.randint(1, 9)])
    return {"specs": specs, "startup": rng.random() < 0.3, "shutdown": rng.random() < 0.5, "noargs": False, "startup_pos": 0,
            "base_utc": local_to_utc_us(base), "horizon": horizon + 0.5, "lead": 1.0, "state_hold": hold,
            "event": kind == "combo_event", "history": sorted(hist)}


def gen_fault_stop_scenario(rng, idx):
    """@mqtt_trigger next to @time_trigger(..., "shutdown"); the function is removed while the timer waits; the (injected) MQTT
    unsubscribe callback raises in half of the scenarios.  Judged: shutdown once at removal, no run after the removal."""
    base = rng.choice(RUN_BASES).replace(second=0)
    p = rng.choice([1, 2, 3])
    e = mk_now_expr(rng, rng.choice([1, 2]) * 10 ** 6)
    ptxt, pam, _ = mk_amount(rng, p * 10 ** 6, units=[1, 2, 3, 4])
    specs = [{"kind": "period", "str": f"period({e['str']}, {ptxt})", "s": e, "iv": pam, "e": None}]
    return {"specs": specs, "startup": rng.random() < 0.3, "shutdown": True, "noargs": False, "startup_pos": 0,
            "base_utc": local_to_utc_us(base), "horizon": rng.choice([2, 5, 7]) + 0.5, "lead": 1.0, "tail": 3 * p + 1.25,
            "mqtt": {"pos": rng.choice(["above", "below"]), "fault": idx % 20 == 5 or rng.random() < 0.3}}


def gen_clock_scenario(rng, kind):
    """The wall clock falls behind the event loop's monotonic clock during a wait: set back once, set back twice within the
    same wait (the second time while the remainder of the first is being slept), slewed, or both."""
    base = rng.choice([D(2024, 3, 4, 12, 0), D(2025, 6, 15, 8, 30), D(2024, 12, 31, 23, 0), D(2024, 7, 1, 17, 40)])
    p_s = rng.choice([600, 600, 300])
    start = base + dt.timedelta(seconds=p_s)
    es = mk_expr(rng, start, base, base, kinds=["full"], allow_off=False)
    ptxt, pam, _ = mk_amount(rng, p_s * 10 ** 6)
    specs = [{"kind": "period", "str": f"period({es['str']}, {ptxt})", "s": es, "iv": pam, "e": None}]
    if rng.random() < 0.6:
        eo = mk_expr(rng, base + dt.timedelta(seconds=p_s * 2 + p_s // 2), base, base, kinds=["full", "none"], allow_off=False)
        specs.append({"kind": "once", "str": f"once({eo['str']})", "e": eo})
    n_inst = 3
    steps = []
    ppm = 0
    if kind in ("clock_slew", "clock_slew_step"):
        ppm = rng.choice([100, 500, 1000])
    if kind != "clock_slew":
        k = rng.choice([1, 2])                     # the k-th period instant is the one waited for
        w_t = p_s * k                              # its elapsed seconds on a perfect clock (no earlier steps)
        d1 = rng.choice([10, 30, 45, 120])
        lo = p_s * (k - 1) + d1 + 20
        m1 = rng.randint(max(lo, 5), w_t - 25)
        steps.append([m1 * 10 ** 6, -d1 * 10 ** 6])
        if kind in ("clock_step2", "clock_slew_step"):
            # while the remainder d1 is being slept (monotonic w_t .. w_t + d1) the clock is set back again
            d2 = rng.choice([150, 250000, 2 * 10 ** 6, 7 * 10 ** 6])
            at = w_t * 10 ** 6 + int(d1 * 10 ** 6 * rng.choice([0.3, 0.5, 0.7]))
            if ppm:
                at += w_t * ppm + 10 ** 6      # the slewed clock reaches the instant later
            steps.append([at, -d2])
    total_back = -sum(d for _a, d in steps) // 10 ** 6 + 1
    horizon = p_s * n_inst + p_s // 3 + total_back + (p_s * n_inst * ppm) // 10 ** 6
    return {"specs": specs, "startup": rng.random() < 0.3, "shutdown": rng.random() < 0.3, "noargs": False, "startup_pos": 0,
            "base_utc": local_to_utc_us(base), "horizon": horizon + 0.5, "lead": 1.0, "ppm": ppm, "steps": steps}


def mk_spec_now_once(rng, off):
    e = mk_now_expr(rng, off)
    return {"kind": "once", "str": f"once({e['str']})", "e": e}


def q_rkind(k):
    if k == "startup":
        return "RStartup"
    if k == "shutdown":
        return "RShutdown"
    return f"(RTime {q.Z(k)})"


class RunStream(Stream):
    """real @time_trigger functions running on the virtual clock (both subsystems)"""

    name = "run"
    rule = ("@time_trigger functions (once(now+x), period(now+a, p[, now+b]), once(h:m:s), once(full date), daily period windows, "
            "cron every n minutes, daily/hourly cron across the America/New_York DST changes of 2024/2025, sunrise/sunset, wall clock "
            "set back once / twice within one wait / slewed 100-1000 ppm relative to the loop's monotonic clock, the same function also "
            "carrying @state_trigger(state_hold=...) / @event_trigger with state changes and events during the waits, removal with a "
            "sibling @mqtt_trigger whose (injected) unsubscribe callback raises, "
            "'startup'/'shutdown' entries and the bare decorator; lists of 1-3) defined in a real HomeAssistant on the virtual "
            "clock whose wall clock is derived from virtual UTC through zoneinfo; each scenario under the legacy and the default "
            "decorator subsystem; every run is recorded with its virtual time and trigger_time, every timer_trigger_next call "
            "with its arguments and result; the function's file is removed at the end.  non-trivial = at least one timed run; "
            "distinct by (subsystem, strings, base time, horizon)")
    requires = "From PV Require Import Common.Civil Time.DtExpr Time.Next Time.NextCheck."
    case_type = "rcase"
    check_model = "rcase_model_ok pv_tz pv_cfg"
    check_spec = "rcase_spec_ok pv_tz"
    attrib = "rcase_attrib pv_tz pv_cfg"
    explain = "rcase_explain pv_tz pv_cfg"
    shard_size = 40

    def budget(self, tier):
        return 80 if tier == "quick" else 800

    def prelude(self, ctx, findings, witness_terms):
        # D62 is measured on its witness; the switches of the "next" stream follow their listed status
        allf = {f["id"]: f.get("status", "") for f in load_findings("C06")}
        sw = []
        for field, fid in SWITCHES:
            if fid is not None:
                sw.append(f"{field} := {q.boolean(allf.get(fid) == 'open')}")
        lines = [f"Definition pv_tz : tzdata := {tz_coq()}."]
        st = {f["id"]: f.get("status", "") for f in findings}
        for field, fid in (("d_newsub_adj_recheck", "D62"), ("d_legacy_gap_recheck", "D66"), ("d_legacy_stop_fault", "D67")):
            if st.get(fid) == "open" and fid in witness_terms:
                lines.append(f"Definition pv_w_{fid} := {witness_terms[fid]}.")
                sw.append(f"{field} := negb (rcase_spec_ok pv_tz pv_w_{fid})")
            else:
                sw.append(f"{field} := false")
        lines.append("Definition pv_cfg := {| " + "; ".join(sw) + " |}.")
        return "\n".join(lines)

    def generate(self, ctx, budget, focus=None):
        cases = []
        i = 0
        while len(cases) < budget:
            sc = gen_run_scenario(ctx.rng, i)
            i += 1
            for legacy in (True, False):
                cases.append(dict(sc, legacy=legacy))
        return cases[:budget]

    def run_impl(self, ctx, cases):
        chunks = split_chunks(cases, 8)
        payloads = [{"op": "run", "tz": TZ_NAME,
                     "cases": [dict(c, specs=[s["str"] for s in c["specs"]]) for c in ch]} for ch in chunks]
        res = run_workers_parallel(ctx, "vh.workers.c06_time", payloads)
        return [o for r in res for o in r]

    def to_coq(self, case, obs):
        sus = {c["su"] for c in obs["calls"]}
        su = obs["calls"][0]["su"] if obs["calls"] else 0
        runs = []
        bad = len(sus) > 1
        for u, k, ty in obs["runs"]:
            if isinstance(k, str) and k.startswith("bad:") or ty != "time":
                bad = True
                continue
            runs.append("(%s, %s)" % (q.Z(u), q_rkind(k)))
        calls = q.lst("(%s, %s, %s)" % (q.Z(c["mono"]), q.Z(c["now"]), q_nobs(c)) for c in obs["calls"])
        return ("{| rc_legacy := %s; rc_specs := %s; rc_startup := %s; rc_shutdown := %s; rc_su := %s; rc_def_utc := %s; "
                "rc_remove_utc := %s; rc_sun := %s; rc_calls := %s; rc_runs := %s; rc_wellformed := %s; "
                "rc_base := %s; rc_ppm := %s; rc_steps := %s; rc_stop_fault := %s; rc_end_utc := %s |}") % (
            q.boolean(case["legacy"]), q.lst(q_spec(s) for s in case["specs"]), q.boolean(case["startup"] or case["noargs"]),
            q.boolean(case["shutdown"] and not case["noargs"]), q.Z(su), q.Z(obs["def_utc"]), q.Z(obs["remove_utc"]),
            q_sun(obs["sun"]), calls, q.lst(runs), q.boolean(not bad),
            q.Z(obs["base"]), q.Z(obs["ppm"]), q.lst("(%s, %s)" % (q.Z(a), q.Z(d)) for a, d in obs["steps"]),
            q.boolean(bool(case.get("mqtt", {}).get("fault"))), q.Z(obs["end_utc"]))

    def key(self, case):
        return (f"{case['legacy']}|" + "|".join(s["str"] for s in case["specs"]) + f"|{case['base_utc']}|{case['horizon']}|"
                f"{case['startup']}{case['shutdown']}{case['noargs']}|{case.get('ppm', 0)}|{case.get('steps', [])}|"
                f"{case.get('state_hold')}|{case.get('history')}|{case.get('mqtt')}")

    def nontrivial(self, case, obs):
        return any(not isinstance(k, str) for _u, k, _t in obs["runs"])

    def kind(self, case, obs):
        ks = "+".join(sorted({s["kind"] for s in case["specs"]})) or "startup-only"
        clock = ""
        if case.get("steps"):
            clock += f"/wall set back x{len(case['steps'])}"
        if case.get("ppm"):
            clock += "/slewed"
        if case.get("state_hold") is not None:
            clock += "/+state_hold" + ("+event" if case.get("event") else "")
        if case.get("mqtt"):
            clock += "/+mqtt " + case["mqtt"]["pos"] + (" unsubscribe raises" if case["mqtt"].get("fault") else "")
        return ("legacy" if case["legacy"] else "default") + ":" + ks + clock

    def describe(self, case, obs):
        return {"subsystem": "legacy" if case["legacy"] else "default", "specs": [s["str"] for s in case["specs"]],
                "startup": case["startup"], "shutdown": case["shutdown"], "bare": case["noargs"],
                "base_utc": str(from_us(case["base_utc"])), "horizon_s": case["horizon"],
                "wall_clock": {"slew_ppm": case.get("ppm", 0), "steps_at_elapsed_s_by_s": [[a / 1e6, d / 1e6] for a, d in case.get("steps", [])]},
                "wall_at_run": [str(from_us(w)) for w in obs.get("walls", [])][:12],
                "siblings": {"state_hold": case.get("state_hold"), "event_trigger": bool(case.get("event")), "mqtt": case.get("mqtt"),
                             "history_elapsed_s": case.get("history")},
                "sibling_runs": [[str(from_us(u)), t] for u, t in obs.get("other_runs", [])][:12], "reload_exception": obs.get("reload_exc"),
                "runs": [[str(from_us(u)), k if isinstance(k, str) else str(from_us(k))] for u, k, _t in obs["runs"]][:12],
                "n_calls": len(obs["calls"]), "log": obs.get("errors")}


class CivilStream(Stream):
    """Common/Civil.v against CPython's datetime (external oracle)"""

    name = "civil"
    rule = ("day numbers -150000..150000 around 1970 (years 1559-2380): all days of 2023-2026, every year boundary and Feb 28/29/Mar 1 "
            "of 1890-2110, random others; CPython date.fromordinal/toordinal/isoweekday/calendar.isleap vs civil_from_days / "
            "days_from_civil / weekday_sun0 / is_leap; distinct by day number")
    requires = "From PV Require Import Common.Civil Time.DtExpr Time.Next Time.NextCheck."
    case_type = "ccase"
    check_model = "ccase_ok"
    check_spec = "fun _ => true"
    shard_size = 2000

    def budget(self, tier):
        return 3000 if tier == "quick" else 30000

    def generate(self, ctx, budget, focus=None):
        days = set()
        d0 = dt.date(1970, 1, 1)
        for n in range((dt.date(2023, 12, 25) - d0).days, (dt.date(2026, 1, 10) - d0).days):
            days.add(n)
        for y in range(1890, 2111):
            for m, d in ((1, 1), (12, 31), (2, 28), (3, 1)):
                days.add((dt.date(y, m, d) - d0).days)
            days.add((dt.date(y, 3, 1) - d0).days - 1)
        days = sorted(days)
        if len(days) > budget:
            keep = set(ctx.rng.sample(days, budget))
            days = [n for n in days if n in keep]
        while len(days) < budget:
            days.append(ctx.rng.randint(-150000, 150000))
        return [{"day": n} for n in days]

    def run_impl(self, ctx, cases):
        import calendar

        out = []
        d0 = dt.date(1970, 1, 1).toordinal()
        for c in cases:
            d = dt.date.fromordinal(d0 + c["day"])
            out.append({"y": d.year, "m": d.month, "d": d.day, "wd": d.isoweekday() % 7, "leap": calendar.isleap(d.year)})
        return out

    def to_coq(self, case, obs):
        return "{| cc_day := %s; cc_y := %s; cc_m := %s; cc_d := %s; cc_wd := %s; cc_leap := %s |}" % (
            q.Z(case["day"]), q.Z(obs["y"]), q.Z(obs["m"]), q.Z(obs["d"]), q.Z(obs["wd"]), q.boolean(obs["leap"]))

    def key(self, case):
        return str(case["day"])

    def kind(self, case, obs):
        return "leap" if obs["leap"] else "common"

    def describe(self, case, obs):
        return {"day": case["day"], "date": f"{obs['y']}-{obs['m']}-{obs['d']}", "weekday_sun0": obs["wd"]}


class C06(Prop):
    id = "C06"
    title = "Time triggers fire at exactly the instants their specification denotes"
    coq_targets = ["Properties/C06.vo"]
    property_file = "Properties/C06.v"
    streams = [NextStream(), RunStream(), CivilStream()]
    trusted_base = [
        "modelled, not verified: parse_date_time after its regex stage (Time/DtExpr.v) and timer_trigger_next (Time/Next.v), written by "
        "hand from trigger.py l.610-880; the string -> parsed form step is a generator in harness/vh/props/c06.py (same trust as the drivers)",
        "Section variables with recorded contracts: cron_next/cron_ok (croniter; instance for the correspondence: the Gallina crontab "
        "successor Time/NextCheck.v cron_next_impl, compared with croniter through the real code on every cron case), sun (astral: "
        "values passed through as data), lu/ul (zoneinfo: transition table of America/New_York shipped as data; fold=0 rule written out)",
        "exact integer-microsecond arithmetic for period()/offsets; binary floating point of the real code is only compared with it "
        "(disagreements are finding D63); timedelta's round-half-even is written out (Common/Civil.v div_rhe)",
        "virtual clock + zoneinfo-derived wall clock of the running scenarios (harness/vh/workers/c06_run.py); run times are compared "
        "with a tolerance of 1 ms, a run 1 us early (default subsystem accepts `timeout <= 1e-6`) is within tolerance",
    ]
    assumptions = [
        "theorems: specifications of the fragment `in_fragment` (no sunrise/sunset, month/day existing in every year, time-only "
        "period start with start < interval and interval | 24h, daily windows with both times of day in [0,24h)); cron through "
        "`cron_ok`; current time a real local clock reading (`real_now`); elapsed-time period spacing only in zones without transitions",
        "weekday names, today and tomorrow are read relative to the current time (the reading under which the code conforms); "
        "month/day in once() is read as 'every year' (documentation), which the code violates (D61)",
        "generator: current times 2024-01-01..2025-12-31, zone America/New_York, English weekday names, lower-case units, "
        "no degenerate cron ranges N-N (croniter 6.2.4 expands them to '*'); month/day 2/29 only inside once() (finding D65)",
    ]
    partial_note = ("proved about the model: successor property of once()/period()/lists, cron and sunrise/sunset through contracts; only "
                    "validated against the running code: regex parsing, croniter, astral, zoneinfo data, float rounding, real sleeping "
                    "(DESIGN.md §5)")

    def translate(self, ctx):
        return {"Gen/TimeConsts.v": gen_time_consts()}


PROP = C06()

MANIFEST_ENTRY = {
    "technique": ("Rocq proof (calendar arithmetic with round-trip lemmas; successor property of once()/period()/cron-by-contract and of the "
                  "<-minimum over lists, by arithmetic on Z microseconds) + in-Coq correspondence with the real parse_date_time / "
                  "timer_trigger_next and with running @time_trigger functions on a virtual clock with real DST transitions"),
    "level_text": ("Theorems C06_next_is_successor_partial / C06_strictly_increasing_partial / C06_idempotent_between_partial hold for every "
                   "current time, startup time and list of specifications of the stated fragment, about a Gallina model of "
                   "parse_date_time + timer_trigger_next whose unit table and day_dither lists are regenerated from trigger.py on every run "
                   "and whose results are compared inside Coq with the real code on generated (string, parsed form) pairs around DST days, "
                   "leap day, month/year ends and +-1 us of every anchor instant; running triggers (both subsystems) are checked to run once "
                   "per instant with trigger_time equal to it, startup/shutdown once. Six deviations of the unchanged code are listed as "
                   "known findings (D60-D66)."),
    "level_note": ("Trusted: Coq kernel+vm_compute; hand-written model of the two functions; generator/drivers in /verif/harness; croniter, "
                   "astral, zoneinfo enter as data/contracts; float arithmetic is compared with the exact model, not modelled."),
    "design_ref": "DESIGN.md §4 C06",
}
