"""C18 — script errors are contained and attributed to the right file, function, line (partial)."""
import copy
import json

from .. import c18lang as L
from .. import coqio as q
from ..c18_translate import gen_error_consts
from ..core import Prop, Stream, cfg_prelude, run_workers_parallel, split_chunks


# ------------------------------------------------------------------------------------------------
# stream 1: attribution - generated call chains with a fault at every statement position
# ------------------------------------------------------------------------------------------------
A_SWITCHES = [("d_merge_same_name", "D182"), ("d_deco_rename", "D183"), ("d_chain_ctx", "D184"), ("d_node_start_line", "D185"),
              ("d_with_swallow", "D186"), ("d_import_sticky", "D187"), ("d_lambda_name", "D190")]

ATOMS = ["1", "2", '"s"', "None", "True", "[1, 2]", "len([3])", "(4, 5)"]
WRAP_FORMS = ["list", "tuple", "dict", "sub", "cmp", "or", "ifexp", "not", "str", "len", "kw", "listcomp", "listcompif",
              "dictcomp", "setcomp", "nestcomp", "listml", "tupleml", "strml", "cmpml", "listcompml"]
STMT_FORMS = ["expr", "assign", "ret", "assert", "subassign", "tupassign", "aug", "ann", "walrus", "attrassign", "starassign",
              "delsub", "ifexpstmt"]
BLK_FORMS = ["if", "ifelse", "for", "while", "with"]
TRY_FORMS = ["none", "finally", "from", "ctx", "swallow"]


def _atom(rng):
    return {"t": "a", "s": rng.choice(ATOMS)}


def _wrap_expr(rng, inner, depth):
    e = inner
    for _ in range(depth):
        form = rng.choice(WRAP_FORMS)
        if form == "setcomp" and e["t"] == "o":
            form = "listcomp"
        e = {"t": "o", "form": form, "subs": [e]}
    return e


def _simple_stmt(rng, e, allow_ret=True):
    forms = STMT_FORMS if allow_ret else [f for f in STMT_FORMS if f != "ret"]
    return {"t": "s", "form": rng.choice(forms), "e": e}


def _nest_stmt(rng, stmt, depth, allow_swallow=True):
    """wrap a statement in block / try statements"""
    s = stmt
    for _ in range(depth):
        r = rng.random()
        if r < 0.55:
            pre = [_filler(rng)] if rng.random() < 0.3 else []
            post = [_filler(rng)] if rng.random() < 0.3 else []
            s = {"t": "blk", "form": rng.choice(BLK_FORMS), "e": _atom(rng), "body": pre + [s] + post}
        else:
            forms = TRY_FORMS if allow_swallow else TRY_FORMS[:-1]
            w = [8, 4, 6, 6, 1] if allow_swallow else [8, 4, 6, 6]
            h = rng.choices(forms, weights=w)[0]
            pre = [_filler(rng)] if rng.random() < 0.3 else []
            s = {"t": "try", "body": pre + [s], "h": h}
    return s


def _filler(rng):
    r = rng.random()
    if r < 0.5:
        return {"t": "pass", "v": rng.randint(0, 99)}
    if r < 0.8:
        return {"t": "s", "form": rng.choice(["expr", "assign", "assert", "tupassign"]), "e": _wrap_expr(rng, _atom(rng), rng.choice([0, 1]))}
    if r < 0.9:
        return {"t": "blk", "form": "ifnot", "e": _atom(rng), "body": [{"t": "pass", "v": 1}]}
    return {"t": "blk", "form": rng.choice(BLK_FORMS), "e": _atom(rng), "body": [{"t": "pass", "v": 2}]}


def _link_stmt(rng, style_ok_attr, allow_ret=True):
    """the statement through which a unit calls the next one"""
    style = rng.choices(["plain", "multiline", "attrml"], weights=[6, 2, 2 if style_ok_attr else 0])[0]
    nargs = rng.choice([0, 0, 1, 2])
    args = [_wrap_expr(rng, _atom(rng), rng.choice([0, 0, 1])) for _ in range(nargs)]
    call = {"t": "next", "style": style, "args": args}
    e = _wrap_expr(rng, call, rng.choice([0, 0, 1, 1, 2]))
    r = rng.random()
    if r < 0.15:
        # the call sits in the test/iterable of a block statement
        s = {"t": "blk", "form": rng.choice(BLK_FORMS), "e": e, "body": [_filler(rng)]}
    else:
        s = _simple_stmt(rng, e, allow_ret)
    return _nest_stmt(rng, s, rng.choice([0, 0, 0, 1, 1, 2]))


def gen_fault_stmt(rng, k, allow_ret=True):
    """an abstract statement that raises; k cycles through the exception kinds"""
    r = rng.random()
    if r < 0.22:
        # the statement's own operation raises (augmented assignment, stores, unpacking, del, iteration, comparison ...)
        ops = sorted(o for o in L.OP_FAULTS if allow_ret or o != "retneg")
        s = {"t": "op", "k": ops[k % len(ops)]}
        return _nest_stmt(rng, s, rng.choice([0, 0, 1, 2]), allow_swallow=False)
    if r < 0.5:
        exc = L.RAISE_KINDS[k % len(L.RAISE_KINDS)]
        cause = None
        if rng.random() < 0.25 and exc != "StopIteration":
            cause = rng.choice(["KeyError", "ValueError", "PvErr", "OSError"])
        s = {"t": "raise", "exc": exc, "msg": rng.choice(["m", "bad value 3", "x y"]), "cause": cause}
    elif r < 0.92:
        kinds = sorted(L.FAULT_EXPR)
        fk = kinds[k % len(kinds)]
        e = _wrap_expr(rng, {"t": "f", "k": fk}, rng.choice([0, 0, 1, 2]))
        if rng.random() < 0.15:
            s = {"t": "blk", "form": rng.choice(BLK_FORMS), "e": e, "body": [_filler(rng)]}
        else:
            s = _simple_stmt(rng, e, allow_ret)
    else:
        s = {"t": "assertfail"}
    return _nest_stmt(rng, s, rng.choice([0, 0, 0, 1, 2]), allow_swallow=False)


def gen_native_fault(rng, k, kind):
    """a raising statement for natively compiled code; a lambda can only hold an expression"""
    # StopIteration is left out here: its conversion to RuntimeError (D189) happens at the first coroutine above the native
    # frames, which splits the traceback differently from what the D189 switch models
    if kind != "lambda" and rng.random() < 0.5:
        # (user classes of the script are interpreter variables; native code cannot rely on them)
        pool = [x for x in L.RAISE_KINDS if x not in ("StopIteration", "PvErr", "PvErr2")]
        exc = pool[k % len(pool)]
        s = {"t": "raise", "exc": exc, "msg": "m", "cause": None}
    else:
        kinds = sorted(x for x in L.FAULT_EXPR if x != "stopiter")
        e = _wrap_expr(rng, {"t": "f", "k": kinds[k % len(kinds)]}, rng.choice([0, 0, 1]))
        s = ({"t": "s", "form": "expr", "e": e} if kind == "lambda"
             else {"t": "s", "form": rng.choice(["expr", "assign", "ret", "assert", "tupassign", "ann", "walrus", "aug"]), "e": e})
    if kind != "lambda" and rng.random() < 0.2:
        s = {"t": "blk", "form": rng.choice(["if", "for", "while"]), "e": _atom(rng), "body": [s]}
    return s


def fault_is_stopiter(stmt):
    if isinstance(stmt, dict):
        if stmt.get("t") == "raise" and stmt.get("exc") == "StopIteration":
            return True
        if stmt.get("t") == "f" and stmt.get("k") == "stopiter":
            return True
        return any(fault_is_stopiter(v) for v in stmt.values())
    if isinstance(stmt, list):
        return any(fault_is_stopiter(v) for v in stmt)
    return False


def gen_skeleton(rng, entry):
    """units of one program without fault"""
    units = []
    if entry == "load":
        units.append({"file": "main", "kind": "module", "name": "<module>", "body": []})
    else:
        units.append({"file": "main", "kind": "entry", "name": L.ENTRY_NAME, "body": []})
    target = rng.randint(1, 5)
    acts = 0
    cur = "main"
    links = []  # link kind required from unit i to unit i+1: "call" | "deco" | "import"
    while acts < target:
        i = len(units)
        r = rng.random()
        if cur == "main" and rng.random() < 0.25:
            cur = "mod"
        if r < 0.06 and cur == "main" and not any(u["file"] == "lmod" for u in units):
            units.append({"file": "lmod", "kind": "module", "name": "<module>", "body": []})
            links.append("import")
            cur = "lmod"
            acts += 1
        elif r < 0.14:
            units.append({"file": cur, "kind": "decof", "name": f"pvd_{i}", "body": []})
            links.append("deco")
            acts += 1
        elif r < 0.30:
            d = rng.choice([1, 1, 2])
            units.append({"file": cur, "kind": "rec", "name": f"pvr_{i}", "rec": d, "body": []})
            links.append("call")
            acts += d + 1
        elif r < 0.45 and acts + 2 <= target + 1:
            units.append({"file": cur, "kind": "wrapper", "name": f"pvw_{i}", "callname": f"pvf_{i + 1}", "body": []})
            links.append("call")
            units.append({"file": cur, "kind": "func", "name": f"pvf_{i + 1}", "body": []})
            links.append("call")
            acts += 2
        elif r < 0.70:
            same = rng.random() < 0.15
            units.append({"file": cur, "kind": "method", "name": "run" if same else f"pvm_{i}", "cls": f"PvK_{i}", "body": []})
            links.append("call")
            acts += 1
        else:
            units.append({"file": cur, "kind": "func", "name": f"pvf_{i}", "body": []})
            links.append("call")
            acts += 1
    if rng.random() < 0.22 and units[-1]["kind"] != "wrapper":
        # a natively compiled leaf: @pyscript_compile / @pyscript_executor function or a file-level lambda
        i = len(units)
        nk = rng.choice(["compiled", "executor", "lambda"])
        units.append({"file": cur, "kind": nk, "name": f"pvn_{i}", "body": []})
        links.append("call")
    for i, u in enumerate(units):
        if u["kind"] in L.NATIVE_KINDS:
            u["body"] = [] if u["kind"] == "lambda" else [{"t": "pass", "v": rng.randint(0, 9)} for _ in range(rng.choice([0, 1, 2]))]
            continue
        pre = [_filler(rng) for _ in range(rng.choice([0, 1, 1, 2]))]
        post = [_filler(rng) for _ in range(rng.choice([0, 0, 1, 2]))]
        body = list(pre)
        if u["kind"] == "rec":
            body.append({"t": "recif"})
        if i < len(links):
            lk = links[i]
            if u["kind"] == "wrapper":
                call = {"t": "next", "style": "plain", "args": []}
                body.append(_simple_stmt(rng, _wrap_expr(rng, call, rng.choice([0, 0, 1]))))
            elif lk == "deco":
                body.append(_nest_stmt(rng, {"t": "deco"}, rng.choice([0, 0, 1])))
            elif lk == "import":
                body.append(_nest_stmt(rng, {"t": "import"}, rng.choice([0, 0, 1])))
            else:
                n = units[i + 1]
                attr_ok = n["kind"] == "method" or (n["file"] != u["file"])
                body.append(_link_stmt(rng, attr_ok, allow_ret=u["kind"] != "module"))
        body += post
        u["body"] = body
    return units


def n_slots(units, i):
    return len(L.slots_of(units[i]["body"]))


class AttribStream(Stream):
    """generated call chains, a fault at every statement position, pyscript's report vs CPython's traceback vs Model"""

    name = "attrib"
    rule = ("programs of 1-6 activations chained through plain functions, methods (incl. same-named ones), recursion, user "
            "decorator wrappers, decorator application, functions of an imported module, import of a module whose body "
            "runs the chain, and natively compiled leaves (@pyscript_compile, @pyscript_executor, file-level lambda); calls embedded in 0-2 expression nodes (displays, comparisons, comprehensions, multi-line "
            "forms, multi-line method calls) and 0-2 statements (if/else/for/while/with/try with passing, chaining and "
            "swallowing handlers); for every program one case per statement position with an injected fault (every builtin "
            "exception kind in turn, user classes, raise..from, expression faults); entered at load time, as trigger "
            "function, service and task.create body, both subsystems; the logged report is parsed into (file, function, "
            "line) per exception of the chain and compared with CPython's traceback.extract_tb of the same source and "
            "with the Model; non-trivial = CPython raised; distinct by the whole case")
    requires = "From PV Require Import Interp.Frames Interp.FramesCheck."
    case_type = "acase"
    check_model = "acase_model_ok pv_cfg"
    check_spec = "acase_spec_ok"
    attrib = "acase_attrib pv_cfg"
    explain = "acase_explain pv_cfg"
    shard_size = 120

    def budget(self, tier):
        return 420 if tier == "quick" else 4000

    def prelude(self, ctx, findings, witness_terms):
        status = {f["id"]: f.get("status", "") for f in findings}
        lines = []
        vals = []
        for field, fid in A_SWITCHES + [("a_stopiter", "D189")]:
            if status.get(fid) == "open" and fid in witness_terms:
                lines.append(f"Definition pv_w_{fid} := {witness_terms[fid]}.")
                vals.append(f"(negb (acase_spec_ok pv_w_{fid}))")
            else:
                vals.append("false")
        lines.append("Definition pv_cfg := mkACfg (mkDev " + " ".join(vals[:7]) + ") " + vals[7] + ".")
        return "\n".join(lines)

    def generate(self, ctx, budget, focus=None):
        rng = ctx.rng
        cases = []
        k = rng.randrange(1000)
        combos = [("legacy", "load"), ("legacy", "trig"), ("legacy", "svc"), ("legacy", "tc"), ("dm", "load"), ("dm", "svc"),
                  ("dm", "tc")]
        while len(cases) < budget:
            sub, entry = combos[len(cases) % len(combos)] if rng.random() < 0.5 else rng.choice(combos)
            units = gen_skeleton(rng, entry)
            base = {"sub": sub, "entry": entry, "units": units}
            for i in range(len(units)):
                for j in range(n_slots(units, i)):
                    if len(cases) >= budget:
                        break
                    c = copy.deepcopy(base)
                    if units[i]["kind"] in L.NATIVE_KINDS:
                        c["fault"] = {"unit": i, "slot": j, "stmt": gen_native_fault(rng, k, units[i]["kind"])}
                    else:
                        c["fault"] = {"unit": i, "slot": j, "stmt": gen_fault_stmt(rng, k, allow_ret=units[i]["kind"] != "module")}
                    k += 1
                    cases.append(c)
            if rng.random() < 0.1 and len(cases) < budget:
                c = copy.deepcopy(base)
                c["fault"] = None
                cases.append(c)
        return cases[:budget]

    def run_impl(self, ctx, cases):
        chunks = split_chunks(cases, 12)
        res = run_workers_parallel(ctx, "vh.workers.c18_attrib", [{"cases": c} for c in chunks], timeout=1500)
        return [o for r in res for o in r]

    def to_coq(self, case, obs):
        _files, units = L.render(case)
        names = L.Names()
        prog, entry = L.to_gallina(case, units, names)
        ps, py = obs.get("ps"), obs.get("py")
        if py is None or ps is None:
            msg_ok = py is None and ps is None and obs.get("n_recs", 0) == 0
        else:
            msg_ok = [(e["type"], e["msg"]) for e in ps] == [(e["type"], e["msg"]) for e in py]
        ps_t = q.option(L.q_exc([e["tb"] for e in ps], names) if ps is not None else None)
        if ps is None and py is None and obs.get("n_recs", 0) != 0:
            # something was logged although CPython raised nothing: make the mismatch visible
            ps_t = "(Some [])"
        py_t = q.option(L.q_exc([e["tb"] for e in py], names) if py is not None else None)
        stop = fault_is_stopiter(case.get("fault"))
        return ("(mkACase %s %s %s %s %s %s)" % (prog, entry, q.boolean(stop), ps_t, py_t, q.boolean(msg_ok)))

    def nontrivial(self, case, obs):
        return obs.get("py") is not None

    def kind(self, case, obs):
        py = obs.get("py")
        depth = len(py[0]["tb"]) if py else 0
        kinds = "+".join(sorted({u["kind"] for u in case["units"][1:]})) or "none"
        return f"{case['sub']}/{case['entry']}/depth{depth}/chain{len(py) if py else 0}/{kinds}"

    def describe(self, case, obs):
        files, _ = L.render(case)
        return {"sub": case["sub"], "entry": case["entry"], "source": files, "pyscript_report": obs.get("ps"),
                "cpython_traceback": obs.get("py"), "records_on_script_logger": obs.get("n_recs"), "raw": obs.get("raw"),
                "errors": {k: obs[k] for k in ("ps_error", "py_error") if k in obs}}


# ------------------------------------------------------------------------------------------------
# stream 2: containment - every entry point x every exception kind, histories of occurrences
# ------------------------------------------------------------------------------------------------
C_SWITCHES = [("d_base_escapes", "D181"), ("d_dm_trig_nowrap", "D180"), ("d_cb_break", "D22")]
ENTRIES = ["ETrigFunc", "EExprEvent", "EExprState", "EActive", "ETaskCreate", "EService"]
EXC_KINDS = [k for k in L.RAISE_KINDS if k not in ("PvErr2",)] + ["from:KeyError:ValueError", "from:PvErr:OSError"]
BASE_KINDS = ["GeneratorExit", "PvBase"]
LATE_ENTRIES = ["ETrigFunc", "ETaskCreate", "EService"]


def kind_class(kind):
    if kind == "ret":
        return "ORet"
    return "(ORaise KBase)" if kind in BASE_KINDS else "(ORaise KExc)"


class ContainStream(Stream):
    """histories of occurrences at every user-code entry point of the real pyscript, both subsystems"""

    name = "contain"
    rule = ("one script with a trigger per entry kind (trigger function, event filter expression, state trigger expression, "
            "@state_active expression, task.create body, service, done-callbacks); the user code returns or raises the kind named "
            "by the occurrence: every builtin Exception class in turn, user classes, raise..from, StopIteration, and BaseException "
            "kinds (GeneratorExit, user subclass); systematic part: every kind at every entry kind followed by a returning occurrence "
            "at every entry kind, both subsystems; random part: histories of 2-8 occurrences; observed per occurrence: user code ran, "
            "error records on the script's logger / other loggers, asyncio exception handler, exception at the caller, callbacks run; "
            "histories also contain reloads of the script file (edited, or removed/unloaded/restored) and runs of trigger function / "
            "task.create body / service that are suspended in task.wait_until while their file is reloaded or unloaded and return or "
            "raise afterwards; at the end a never-raising trigger of the same file and one of another file must still run; non-trivial = a raising "
            "occurrence followed by another occurrence; distinct by the whole case")
    requires = "From PV Require Import Policy.Errors Policy.ErrorsCheck."
    case_type = "ccase"
    check_model = "ccase_model_ok pv_cfg"
    check_spec = "ccase_spec_ok"
    attrib = "ccase_attrib pv_cfg"
    explain = "ccase_explain pv_cfg"
    shard_size = 200

    def budget(self, tier):
        return 110 if tier == "quick" else 900

    def prelude(self, ctx, findings, witness_terms):
        return cfg_prelude(C_SWITCHES, findings, witness_terms, "ccase_spec_ok")

    def generate(self, ctx, budget, focus=None):
        rng = ctx.rng
        cases = []
        kinds = BASE_KINDS + EXC_KINDS
        rot = rng.randrange(len(EXC_KINDS))
        kinds = BASE_KINDS + EXC_KINDS[rot:] + EXC_KINDS[:rot]
        for kind in kinds:
            for sub in ("legacy", "dm"):
                if len(cases) >= budget * 4 // 5:
                    break
                ents = list(ENTRIES)
                rng.shuffle(ents)
                hist = [[e, kind] for e in ents] + [["OCallbacks", [kind, "ret"]]] + [[e, "ret"] for e in ents]
                if rng.random() < 0.5:
                    # a reload revives what a BaseException killed; then runs that outlive a reload of their file
                    hist += [["OReload", rng.choice(["edit", "unload"])]]
                    hist += [["OLate", e, kind, rng.choice(["edit", "unload"])] for e in LATE_ENTRIES]
                    hist += [[e, "ret"] for e in ents[:3]]
                cases.append({"sub": sub, "hist": hist})
        while len(cases) < budget:
            hist = []
            for _ in range(rng.randint(2, 8)):
                r = rng.random()
                def pick():
                    x = rng.random()
                    return "ret" if x < 0.3 else rng.choice(BASE_KINDS) if x < 0.45 else rng.choice(EXC_KINDS)
                if r < 0.15:
                    hist.append(["OCallbacks", [pick() for _ in range(rng.randint(1, 3))]])
                elif r < 0.23:
                    # the script file is edited and reloaded, or removed, unloaded, restored and reloaded
                    hist.append(["OReload", rng.choice(["edit", "unload"])])
                elif r < 0.45:
                    # a run is suspended while its file is reloaded / unloaded and ends afterwards
                    hist.append(["OLate", rng.choice(LATE_ENTRIES), pick(), rng.choice(["edit", "edit", "unload"])])
                else:
                    hist.append([rng.choice(ENTRIES), pick()])
            cases.append({"sub": rng.choice(["legacy", "dm"]), "hist": hist})
        return cases[:budget]

    def run_impl(self, ctx, cases):
        chunks = split_chunks(cases, 12)
        res = run_workers_parallel(ctx, "vh.workers.c18_contain", [{"op": "contain", "cases": c} for c in chunks], timeout=1500)
        return [o for r in res for o in r]

    def to_coq(self, case, obs):
        sub = "Legacy" if case["sub"] == "legacy" else "Dm"
        hist = []
        for oc in case["hist"]:
            if oc[0] == "OCallbacks":
                hist.append("(OCallbacks %s)" % q.lst(kind_class(k) for k in oc[1]))
            elif oc[0] == "OReload":
                hist.append("OReload")
            elif oc[0] == "OLate":
                hist.append(f"(OLate {oc[1]} {kind_class(oc[2])})")
            else:
                hist.append(f"(OUser {oc[0]} {kind_class(oc[1])})")
        obl = []
        for o in obs.get("obs", []):
            obl.append("(mkObs %s %s %s %s %s)" % (q.boolean(o["served"]), q.N(o["script"]), q.N(o["other"]), o["sink"],
                                                  q.lst(q.boolean(b) for b in o["ran"])))
        return "(mkCCase %s %s %s %s)" % (sub, q.lst(hist), q.lst(obl), q.boolean(bool(obs.get("others_ok"))))

    @staticmethod
    def _kinds(oc):
        if oc[0] == "OCallbacks":
            return list(oc[1])
        if oc[0] == "OReload":
            return []
        if oc[0] == "OLate":
            return [oc[2]]
        return [oc[1]]

    def nontrivial(self, case, obs):
        return any(k != "ret" for oc in case["hist"][:-1] for k in self._kinds(oc))

    def kind(self, case, obs):
        ks = set()
        for oc in case["hist"]:
            for k in self._kinds(oc):
                ks.add("ret" if k == "ret" else "base" if k in BASE_KINDS else "exc")
        tags = ("+late" if any(oc[0] == "OLate" for oc in case["hist"]) else "") + ("+reload" if any(oc[0] == "OReload" for oc in case["hist"]) else "")
        return f"{case['sub']}/len{len(case['hist'])}/" + "+".join(sorted(ks)) + tags

    def describe(self, case, obs):
        return {"sub": case["sub"], "history": case["hist"],
                "observed": [{k: o[k] for k in ("served", "script", "other", "sink", "ran", "detail", "handler", "caller")} for o in obs.get("obs", [])],
                "others_ok": obs.get("others_ok"), "error": obs.get("error")}


# ------------------------------------------------------------------------------------------------
# stream 3: load - lists of script files, some failing at load time
# ------------------------------------------------------------------------------------------------
class LoadStream(Stream):
    """script files loaded by the real pyscript setup; some raise at module level or do not parse"""

    name = "load"
    rule = ("2-4 script files, each defining a @service and a trigger, then returning / raising (through a function call at module "
            "level) an exception of a builtin, user or BaseException kind / failing to parse, then defining another @service and "
            "trigger; loaded at start-up and then 0-3 times rewritten and reloaded: all files by pyscript.reload, or ONE file through "
            "the targeted path (global_ctx: file.x) - loaded files break at parse time or at run time, broken ones are repaired; in "
            "40% of the cases two files claim the same service name (the second registration is refused) and the refused function is "
            "later released by reloading its file: the name must keep belonging to, and running, the first file; both subsystems; observed per phase and file: hass.services.has_service and "
            "Function.service_cnt for both services, whether calling them and firing the trigger event runs anything, error records "
            "on the file's logger, whether setup / reload raised into Home Assistant; non-trivial = at least one failing and one good "
            "file; distinct by the whole case")
    requires = "From PV Require Import Policy.Errors Policy.ErrorsCheck."
    case_type = "lcase"
    check_model = "lcase_model_ok pv_cfg"
    check_spec = "lcase_spec_ok"
    attrib = "lcase_attrib pv_cfg"
    explain = "lcase_explain pv_cfg"
    shard_size = 300

    def budget(self, tier):
        return 60 if tier == "quick" else 500

    def prelude(self, ctx, findings, witness_terms):
        return cfg_prelude([("d_base_escapes", "D188"), ("d_dm_trig_nowrap", None), ("d_cb_break", None)], findings, witness_terms,
                           "lcase_spec_ok")

    def generate(self, ctx, budget, focus=None):
        rng = ctx.rng
        cases = []
        kinds = [k for k in L.RAISE_KINDS if k not in ("PvErr2",)]
        kk = rng.randrange(len(kinds))

        def bad(p_syntax=0.3):
            nonlocal kk
            x = rng.random()
            if x < p_syntax:
                return "syntax"
            if x < p_syntax + 0.08:
                return rng.choice(BASE_KINDS)
            kk += 1
            return kinds[kk % len(kinds)]

        while len(cases) < budget:
            n = rng.randint(2, 4)
            names = [f"f{chr(97 + i)}" for i in range(n)]
            shared = None
            if rng.random() < 0.4:
                # two files claim one service name; the owner (loaded first) stays good and is never reloaded on its own
                shared = {"owner": names[0], "dup": rng.choice(names[1:])}
            cur = {}
            for nm in names:
                cur[nm] = "ret" if (shared and nm == shared["owner"]) or rng.random() < 0.55 else bad(0.15)
            if shared and rng.random() < 0.7:
                cur[shared["dup"]] = "ret"
            phases = [{"t": "all", "files": [[nm, cur[nm]] for nm in names], "dup": True}]
            if shared and rng.random() < 0.75:
                # release the refused function: its file is reloaded on its own without it (or fails after defining it again)
                nm = shared["dup"]
                cur[nm] = "ret" if rng.random() < 0.7 else bad(0.0)
                phases.append({"t": "one", "name": nm, "kind": cur[nm], "dup": cur[nm] != "ret"})
            for _ in range(rng.choice([0, 1, 1, 2, 3])):
                if rng.random() < 0.6:
                    # targeted reload of one file: a loaded file breaks (at parse time or at run time), a broken one is repaired
                    cand = [nm for nm in names if not (shared and nm == shared["owner"])]
                    nm = shared["dup"] if (shared and rng.random() < 0.6) else rng.choice(cand)
                    new = bad(0.45) if (cur[nm] == "ret" and rng.random() < 0.65) else "ret"
                    cur[nm] = new
                    phases.append({"t": "one", "name": nm, "kind": new, "dup": rng.random() < 0.3})
                else:
                    for nm in names:
                        if shared and nm == shared["owner"]:
                            continue
                        x = rng.random()
                        if x < 0.5:
                            cur[nm] = "ret" if cur[nm] != "ret" else bad(0.3)
                        elif x < 0.7:
                            cur[nm] = "ret"
                    phases.append({"t": "all", "files": [[nm, cur[nm]] for nm in names], "dup": rng.random() < 0.5})
            cases.append({"sub": "legacy" if len(cases) % 2 == 0 else "dm", "shared": shared, "phases": phases})
        return cases

    def run_impl(self, ctx, cases):
        chunks = split_chunks(cases, 12)
        res = run_workers_parallel(ctx, "vh.workers.c18_contain", [{"op": "load", "cases": c} for c in chunks], timeout=1500)
        return [o for r in res for o in r]

    def to_coq(self, case, obs):
        phs = []
        ob = obs.get("phases", [])
        for i, ph in enumerate(case["phases"]):
            fl = ph["files"] if ph["t"] == "all" else [[ph["name"], ph["kind"]]]
            files = q.lst(kind_class(kd) for _n, kd in fl)
            if i >= len(ob):
                if "error" in obs and i == 0:
                    phs.append("(mkLPhase %s true [] [] [] false)" % files)
                break
            o = ob[i]
            phs.append("(mkLPhase %s %s %s %s %s %s)" % (files, q.boolean(o["escaped"]), q.lst(q.boolean(b) for b in o["loaded"]),
                                                        q.lst(q.boolean(b) for b in o["residue"]), q.lst(q.N(n) for n in o["logs"]),
                                                        q.boolean(o["others_ok"])))
        return "(mkLCase %s)" % q.lst(phs)

    def _kinds(self, case):
        out = []
        for ph in case["phases"]:
            out += [kd for _n, kd in ph["files"]] if ph["t"] == "all" else [ph["kind"]]
        return out

    def nontrivial(self, case, obs):
        ks = self._kinds(case)
        return any(x == "ret" for x in ks) and any(x != "ret" for x in ks)

    def kind(self, case, obs):
        ks = {("ret" if x == "ret" else "base" if x in BASE_KINDS else "syntax" if x == "syntax" else "exc") for x in self._kinds(case)}
        modes = "".join("A" if ph["t"] == "all" else "1" for ph in case["phases"])
        return f"{case['sub']}/{len(case['phases'][0]['files'])}files/{modes}/{'shared/' if case.get('shared') else ''}" + "+".join(sorted(ks))

    def describe(self, case, obs):
        return {"sub": case["sub"], "shared": case.get("shared"), "phases": case["phases"], "observed": obs}


# ------------------------------------------------------------------------------------------------
class C18(Prop):
    id = "C18"
    title = "Script errors are contained and attributed to the right file, function, line"
    coq_targets = ["Properties/C18.vo"]
    property_file = "Properties/C18.v"
    streams = [AttribStream(), ContainStream(), LoadStream()]
    trusted_base = [
        "modelled, not verified: EvalExceptionFormatter._build_stack/ast_frame/real_frame/format as a fold over an abstract chain of "
        "interpreter frames (Interp/Frames.v); the chain itself (which CPython frames of eval.py exist when an exception escapes) "
        "is tied by the differential stream only - CPython frame objects, f_locals order and co_positions are the runtime",
        "the mini language's control flow (which statement faults first) is shared by the pyscript and CPython instances of the "
        "generic evaluator; that pyscript runs statements in Python's order is C01/C02's claim",
        "entry points as stacks of try/except layers whose exception classes are re-read from the source (Gen/ErrorConsts.v); "
        "asyncio's treatment of a task that ends with an exception (never-retrieved report) is part of the layer model",
        "external oracle: CPython 3.12 exec + traceback.extract_tb on the same source text",
    ]
    assumptions = [
        "programs of the mini language (functions, methods, comprehensions, decorator wrappers, imported modules, try/raise-from); "
        "class bodies, lambdas, natively compiled (@pyscript_compile) functions and generators are outside the fragment",
        "asyncio.CancelledError is task cancellation, not an error; KeyboardInterrupt/SystemExit are not generated (they stop the loop)",
    ]
    partial_note = ("attribution is proved for the mini-language fragment about an abstract frame chain (C18_attribution_partial); "
                    "CPython frame objects / co_positions are only exercised by the differential stream (DESIGN.md §5)")

    def translate(self, ctx):
        return {"Gen/ErrorConsts.v": gen_error_consts()}


PROP = C18()

MANIFEST_ENTRY = {
    "technique": ("Rocq proof (simulation of two algebras of one generic evaluator by induction on fuel; induction over occurrence "
                  "histories, callback lists and file lists) + in-Coq correspondence with the real pyscript and with CPython's traceback"),
    "level_text": ("C18_attribution_partial: for every program of the mini language (any call depth, any nesting, any cause chain) the "
                   "formatter fold over pyscript's interpreter frames yields exactly CPython's traceback entries; C18_contained / "
                   "C18_load_isolated: every entry point, both subsystems, every outcome, every history. Models tied on every run by "
                   "except-classes re-read from the source and by fault injection at every statement position compared inside Coq."),
    "level_note": ("partial: CPython frame objects/co_positions, class bodies, lambdas, generators are outside the proved fragment; "
                   "open findings D22, D180-D189 are reported as KNOWN-FINDING."),
    "design_ref": "DESIGN.md §4 C18",
}
