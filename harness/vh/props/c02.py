"""C02 — control flow and exception handling follow Python's paths exactly."""
import ast
import itertools
import json

from .. import coqio as q
from ..core import Prop, Stream, cfg_prelude, run_workers_parallel, split_chunks
from ..translate import TranslateError, find_class, find_func, parse_file
from ..workers.c02_flow import CLASS_IDS, UNKNOWN_CLASS, class_table, render

SWITCHES = [("d8_else_drops_jump", "D8"), ("d9_with_flat", "D9"), ("d10_base_uncaught", "D10"),
            ("d200_unbind_keyerror", "D200"), ("d201_enter_in_try", "D201"), ("d202_asyncfor_sync", "D202")]


# ------------------------------------------------------------------------------------------------
# T1: the anchored functions exist and have the marker-passing shape the Model mirrors; what the source says
# about each deviation (read statically) is recorded in the evidence next to the measured switches
# ------------------------------------------------------------------------------------------------
def _isinstance_tests(node, var="val"):
    res = []
    for n in ast.walk(node):
        if (isinstance(n, ast.Call) and isinstance(n.func, ast.Name) and n.func.id == "isinstance" and len(n.args) == 2
                and isinstance(n.args[0], ast.Name) and n.args[0].id == var and isinstance(n.args[1], ast.Name)):
            res.append(n.args[1].id)
    return res


def read_flow_source():
    tree = parse_file("eval.py")
    info = {}
    bases = {}
    for name in ("EvalStopFlow", "EvalReturn", "EvalBreak", "EvalContinue"):
        cls = find_class(tree, name)
        bases[name] = [b.id for b in cls.bases if isinstance(b, ast.Name)]
    for name in ("EvalReturn", "EvalBreak", "EvalContinue"):
        if bases[name] != ["EvalStopFlow"]:
            raise TranslateError(f"{name} is not a direct subclass of EvalStopFlow: {bases[name]}")
    ev = find_class(tree, "AstEval")
    fns = {n: find_func(ev, n) for n in ("ast_module", "ast_if", "ast_for", "ast_while", "ast_try", "ast_raise", "ast_with",
                                         "ast_break", "ast_continue", "ast_return", "ast_assert", "ast_pass")}
    call = find_func(find_class(tree, "EvalFunc"), "call")
    if "EvalReturn" not in _isinstance_tests(call):
        raise TranslateError("EvalFunc.call no longer tests isinstance(val, EvalReturn)")
    # what the text says about each deviation: informational (a repair may legitimately change these shapes,
    # so an unexpected shape is reported as "unknown", not as a broken tie)
    static = {}

    def attempt(fid, fn):
        try:
            static[fid] = fn()
        except (TranslateError, AttributeError, IndexError, KeyError, TypeError) as exc:
            static[fid] = f"unknown ({exc})"

    def loop_else_tests():
        res = []
        for loop in ("ast_for", "ast_while"):
            outer = [n for n in fns[loop].body if isinstance(n, (ast.For, ast.While, ast.AsyncFor))]
            if len(outer) != 1 or not outer[0].orelse:
                raise TranslateError(f"{loop}: expected one Python loop with an else clause")
            res.append(sorted(set(_isinstance_tests(ast.Module(body=outer[0].orelse, type_ignores=[])))))
        info["loop_else_tests"] = res
        return all(r == ["EvalReturn"] for r in res)

    def the_try(fn):
        tries = [n for n in ast.walk(fns[fn]) if isinstance(n, ast.Try)]
        if not tries or len(tries[0].handlers) != 1:
            raise TranslateError(f"{fn}: no try statement with one handler")
        return tries[0]

    def catches(fn):
        t = the_try(fn).handlers[0].type
        return t.id if isinstance(t, ast.Name) else None

    attempt("D8", loop_else_tests)
    attempt("D9", lambda: any(isinstance(b, ast.For) and isinstance(b.iter, ast.Attribute) and b.iter.attr == "items"
                              for b in the_try("ast_with").body))
    attempt("D10", lambda: catches("ast_try") == "Exception" or catches("ast_with") == "Exception")
    attempt("D200", lambda: any(isinstance(n, ast.Delete) for n in ast.walk(the_try("ast_try").handlers[0])))
    attempt("D201", lambda: any(isinstance(n, ast.Name) and n.id == "enter_attr" for b in the_try("ast_with").body for n in ast.walk(b)))
    return info, static


# ------------------------------------------------------------------------------------------------
# skeleton construction
# ------------------------------------------------------------------------------------------------
class Alloc:
    """fresh tracer numbers, site ids, scripts and manager behaviours of one skeleton"""

    def __init__(self):
        self.n = 0
        self.k = 0
        self.scripts = []
        self.mgrs = []
        self.msgs = []
        self.hcs = []
        self.inner_async = False      # set by path_case: must the function scope created by the next frame be async

    def hc(self, class_names):
        """a rebindable global class name HCk; its (non-empty) script lists the classes it is bound to, in turn (cyclically)"""
        self.k += 1
        self.scripts.append([self.k, [(CLASS_IDS[n] + 1 if n is not None else 0) for n in class_names]])
        self.hcs.append(self.k)
        return self.k

    def msg(self, raises=None):
        self.k += 1
        self.msgs.append([self.k, raises])
        return self.k

    def T(self):
        self.n += 1
        return ["t", self.n]

    def site(self, script=None):
        self.k += 1
        if script is not None:
            self.scripts.append([self.k, list(script)])
        return self.k

    def mgr(self, enter, exit_):
        self.k += 1
        self.mgrs.append([self.k, enter, exit_])
        return self.k

    def case(self, body, **extra):
        c = {"body": body, "scripts": self.scripts, "mgrs": self.mgrs, "msgs": self.msgs, "hcs": self.hcs, "amain": False}
        c.update(extra)
        return c


def _hole(a, H):
    return [a.T()] + H + [a.T()]


def _named_handler(a, name, H):
    return [a.T(), ["probe", a.site(), name]] + H + [a.T()]


# frames: (label, function(alloc, hole statements, handler name) -> statements)
def _frames():
    fr = []

    def add(label):
        def deco(f):
            fr.append((label, f))
            return f
        return deco

    @add("if/body")
    def _(a, H, nm):
        return [["if", a.site([1]), _hole(a, H), [a.T()]]]

    @add("if/else")
    def _(a, H, nm):
        return [["if", a.site([0]), [a.T()], _hole(a, H)]]

    @add("for/body")
    def _(a, H, nm):
        return [["for", a.site([1, 1]), _hole(a, H), []]]

    @add("forelse/body")
    def _(a, H, nm):
        return [["for", a.site([1, 1]), _hole(a, H), [a.T()]]]

    @add("forelse/else")
    def _(a, H, nm):
        return [["for", a.site([1]), [a.T()], _hole(a, H)]]

    @add("while/body")
    def _(a, H, nm):
        return [["while", a.site([1, 1]), _hole(a, H), []]]

    @add("whileelse/body")
    def _(a, H, nm):
        return [["while", a.site([1, 1]), _hole(a, H), [a.T()]]]

    @add("whileelse/else")
    def _(a, H, nm):
        return [["while", a.site([1]), [a.T()], _hole(a, H)]]

    @add("tryexc/body,first-matches")
    def _(a, H, nm):
        return [["try", _hole(a, H), [[["EA"], nm, _named_handler(a, nm, [])], [["EC"], None, [a.T()]]], [], []], ["probe", a.site(), nm]]

    @add("tryexc/body,second-matches")
    def _(a, H, nm):
        return [["try", _hole(a, H), [[["EC"], None, [a.T()]], [["EC", "EA"], None, [a.T()]]], [], []]]

    @add("tryexc/body,none-matches")
    def _(a, H, nm):
        return [["try", _hole(a, H), [[["EC"], None, [a.T()]], [["KeyError"], None, [a.T()]]], [], []]]

    @add("tryexc/handler1")
    def _(a, H, nm):
        return [["try", [a.T(), ["raise", "EB", None]], [[["EA"], nm, _named_handler(a, nm, H)], [["EC"], None, [a.T()]]], [], []],
                ["probe", a.site(), nm]]

    @add("tryexc/handler2")
    def _(a, H, nm):
        return [["try", [a.T(), ["raise", "EB", None]], [[["EC"], None, [a.T()]], [None, None, _hole(a, H)]], [], []]]

    @add("tryfin/body")
    def _(a, H, nm):
        return [["try", _hole(a, H), [], [], [a.T()]]]

    @add("tryfin/final")
    def _(a, H, nm):
        return [["try", [a.T()], [], [], _hole(a, H)]]

    @add("tryfin/final,exc")
    def _(a, H, nm):
        return [["try", [a.T(), ["raise", "EB", None]], [], [], _hole(a, H)]]

    @add("teef/body")
    def _(a, H, nm):
        return [["try", _hole(a, H), [[["EA"], nm, _named_handler(a, nm, [])]], [a.T()], [a.T()]]]

    @add("teef/handler")
    def _(a, H, nm):
        return [["try", [a.T(), ["raise", "EB", None]], [[["EA"], nm, _named_handler(a, nm, H)]], [a.T()], [a.T(), ["probe", a.site(), nm]]]]

    @add("teef/else")
    def _(a, H, nm):
        return [["try", [a.T()], [[["EA"], None, [a.T()]]], _hole(a, H), [a.T()]]]

    @add("teef/final")
    def _(a, H, nm):
        return [["try", [a.T()], [[["EA"], None, [a.T()]]], [a.T()], _hole(a, H)]]

    @add("with1/keep")
    def _(a, H, nm):
        return [["with", [a.mgr(None, 0)], _hole(a, H)]]

    @add("with1/suppress")
    def _(a, H, nm):
        return [["with", [a.mgr(None, 1)], _hole(a, H)]]

    @add("with2/keep,keep")
    def _(a, H, nm):
        return [["with", [a.mgr(None, 0), a.mgr(None, 0)], _hole(a, H)]]

    @add("with2/suppress,keep")
    def _(a, H, nm):
        return [["with", [a.mgr(None, 1), a.mgr(None, 0)], _hole(a, H)]]

    @add("with2/keep,suppress")
    def _(a, H, nm):
        return [["with", [a.mgr(None, 0), a.mgr(None, 1)], _hole(a, H)]]

    @add("func")
    def _(a, H, nm):
        return [["func", a.site(), _hole(a, H), a.inner_async]]

    # --- a jump pending while a finally clause / a script-defined __exit__ runs more script code
    @add("tryfin/final,ret-pending")
    def _(a, H, nm):
        return [["try", [a.T(), ["return", 5]], [], [], _hole(a, H)]]

    @add("teef/final,ret-in-handler")
    def _(a, H, nm):
        return [["try", [a.T(), ["raise", "EB", None]], [[["EA"], None, [a.T(), ["return", 5]]]], [a.T()], _hole(a, H)]]

    @add("withs/body")
    def _(a, H, nm):
        return [["withs", a.site(), [a.T(), ["return", 0]], _hole(a, H)]]

    @add("withs/exit,ret-pending")
    def _(a, H, nm):
        return [["withs", a.site(), _hole(a, H), [a.T(), ["return", 5]], a.inner_async]]

    @add("withs/exit,exc")
    def _(a, H, nm):
        return [["withs", a.site(), _hole(a, H), [a.T(), ["raise", "EB", None]], a.inner_async]]

    # --- the async forms (the enclosing function becomes an async def, an enclosing inner function is awaited)
    @add("async:with1/keep")
    def _(a, H, nm):
        return [["with", [a.mgr(None, 0)], _hole(a, H), True]]

    @add("async:with2/keep,suppress")
    def _(a, H, nm):
        return [["with", [a.mgr(None, 0), a.mgr(None, 1)], _hole(a, H), True]]

    @add("async:withs/body")
    def _(a, H, nm):
        return [["withs", a.site(), [a.T(), ["return", 0]], _hole(a, H), True]]

    @add("async:forelse/body")
    def _(a, H, nm):
        return [["for", a.site([1, 1]), _hole(a, H), [a.T()], "dual"]]

    @add("async:forelse/else")
    def _(a, H, nm):
        return [["for", a.site([1]), [a.T()], _hole(a, H), "dual"]]

    @add("async:for-asynconly/body")
    def _(a, H, nm):
        return [["for", a.site([1, 1]), _hole(a, H), [], "aonly"]]

    # --- the same try statement executed twice while the class named by its except clause is rebound in between
    @add("loop-tryvar/first-then-second")
    def _(a, H, nm):
        j = a.hc(["EA", "EC"])
        return [["for", a.site([1, 1]), [["try", _hole(a, H), [[{"var": j, "cs": []}, None, [a.T()]], [["EA"], None, [a.T()]]], [], []],
                                         a.T(), ["sw", j]], []]]

    @add("loop-tryvar/second-then-first")
    def _(a, H, nm):
        j = a.hc(["EC", "EA"])
        return [["while", a.site([1, 1]), [["try", _hole(a, H), [[{"var": j, "cs": ["KeyError"]}, None, [a.T()]], [["EA"], None, [a.T()]]], [], []],
                                           a.T(), ["sw", j]], []]]

    return fr


FRAMES = _frames()
BASE_JUMPS = ["break", "continue", "return", "raise", "fall"]
EXTRA_JUMPS = ["reraise", "raisefrom", "raisebase", "assert", "assertmsg-pass", "assertmsg-fail", "assertmsg-fail-raises"]
QUICK_EXTRA_JUMPS = ["reraise", "raisebase", "assertmsg-pass"]


def _jump(a, j):
    if j == "break":
        return [["break"]]
    if j == "continue":
        return [["continue"]]
    if j == "return":
        return [["return", 7]]
    if j == "raise":
        return [["raise", "EB", None]]
    if j == "fall":
        return []
    if j == "reraise":
        return [["reraise"]]
    if j == "raisefrom":
        return [["raise", "EA", "EC"]]
    if j == "raisebase":
        return [["raise", "BX", None]]
    if j == "assert":
        return [["assert", a.site([0]), None]]
    if j == "assertmsg-pass":       # the message expression must not be evaluated (it would raise EC)
        return [["assert", a.site([1]), a.msg("EC")]]
    if j == "assertmsg-fail":
        return [["assert", a.site([0]), a.msg(None)]]
    if j == "assertmsg-fail-raises":
        return [["assert", a.site([0]), a.msg("EC")]]
    raise ValueError(j)


def supp(s, inl):
    op = s[0]
    if op in ("break", "continue"):
        return inl
    if op == "if":
        return all(supp(x, inl) for x in s[2] + s[3])
    if op in ("while", "for"):
        return all(supp(x, True) for x in s[2]) and all(supp(x, inl) for x in s[3])
    if op == "try":
        return all(supp(x, inl) for x in s[1] + s[3] + s[4]) and all(supp(x, inl) for h in s[2] for x in h[2])
    if op == "with":
        return all(supp(x, inl) for x in s[2])
    if op == "func":
        return all(supp(x, False) for x in s[2])
    if op == "withs":
        return all(supp(x, False) for x in s[2]) and all(supp(x, inl) for x in s[3])
    return True


def supported(body):
    return all(supp(s, False) for s in body)


def _makes_scope(label):
    return label == "func" or label.startswith("withs/exit")


def path_case(path, jump):
    """path: indices into FRAMES, outermost first"""
    a = Alloc()
    H = _jump(a, jump)
    # handler names alternate along the path so that directly nested handlers use different names; a function
    # boundary starts a new scope (names are 10*scope + 1|2)
    scope = 0
    names = []
    for d, fi in enumerate(path):
        names.append(10 * scope + 1 + d % 2)
        if _makes_scope(FRAMES[fi][0]):
            scope += 1
    need_async = False          # does the function scope we are in (walking outwards) have to be an async def
    for d in range(len(path) - 1, -1, -1):
        label = FRAMES[path[d]][0]
        if label.startswith("async:"):
            need_async = True
        a.inner_async = need_async if _makes_scope(label) else False
        H = FRAMES[path[d]][1](a, H, names[d])
        # an async inner function is awaited / an async __aexit__ needs `async with`: the outer scope is async too
    body = [a.T()] + H + [a.T()]
    c = a.case(body, kind="path", label="|".join(FRAMES[i][0] for i in path) + "|" + jump)
    c["amain"] = need_async
    return c


def enum_paths(depth, jumps, frames=None):
    idx = range(len(FRAMES)) if frames is None else frames
    for path in itertools.product(idx, repeat=depth):
        for j in jumps:
            c = path_case(path, j)
            if supported(c["body"]):
                yield c


# ---- random skeletons -------------------------------------------------------------------------
RAISE_CLASSES = ["EA", "EB", "EB", "EC", "EC", "BX", "KeyboardInterrupt", "KeyError"]
MATCH_CLASSES = ["EA", "EA", "EB", "EC", "EC", "Exception", "BaseException", "BX", "KeyError", "RuntimeError", "AssertionError"]


class RandGen:
    def __init__(self, rng, maxdepth):
        self.rng = rng
        self.a = Alloc()
        self.maxdepth = maxdepth
        self.left = rng.choice([2, 3, 4, 6, 8, 12])      # compound statements still allowed
        self.scope_ctr = 0
        self.hc_sites = [self.a.hc([rng.choice(["EA", "EB", "EC", "Exception", "BX"]) for _ in range(rng.choice([1, 2, 2, 3]))])
                         for _ in range(rng.choice([0, 1, 1, 2]))]

    def script(self, loopdepth):
        n = self.rng.choice([0, 1, 1, 2, 2, 3]) if loopdepth < 2 else self.rng.choice([0, 1, 1, 2])
        return [0 if self.rng.random() < 0.15 else 1 for _ in range(n)]

    def cond_script(self):
        return [self.rng.choice([0, 1, 1]) for _ in range(self.rng.choice([1, 1, 2, 3]))]

    def block(self, depth, inl, loopdepth, scope, lo=1, hi=3, asc=None):
        if asc is not None:
            saved, self.asc = getattr(self, "asc", False), asc
            try:
                return self.block(depth, inl, loopdepth, scope, lo, hi)
            finally:
                self.asc = saved
        n = self.rng.randint(lo, hi)
        out = []
        for _ in range(n):
            out.append(self.a.T())
            new = self.stmt(depth, inl, loopdepth, scope)
            out.extend(new)
            if new and new[-1][0] in ("break", "continue", "return", "raise", "reraise") and self.rng.random() < 0.85:
                return out          # mostly no dead code after a jump
        if self.rng.random() < 0.7:
            out.append(self.a.T())
        return out

    def simple(self, inl, scope):
        rng = self.rng
        r = rng.random()
        if r < 0.14 and inl:
            return [["break"]]
        if r < 0.28 and inl:
            return [["continue"]]
        if r < 0.40:
            return [["return", rng.choice([None, 0, 3, 7])]]
        if r < 0.58:
            cause = rng.choice(["EC", "EA"]) if rng.random() < 0.2 else None
            return [["raise", rng.choice(RAISE_CLASSES), cause]]
        if r < 0.66:
            return [["reraise"]]
        if r < 0.76:
            msg = None
            if rng.random() < 0.6:
                msg = self.a.msg(rng.choice([None, None, "EC", "EA", "BX"]))
            return [["assert", self.a.site(self.cond_script()), msg]]
        if r < 0.88:
            return [["probe", self.a.site(), 10 * scope + rng.choice([1, 2])]]
        if r < 0.92:
            return [["pass"]]
        if self.hc_sites:
            return [["sw", rng.choice(self.hc_sites)]]
        return []

    def stmt(self, depth, inl, loopdepth, scope):
        rng = self.rng
        if depth >= self.maxdepth or self.left <= 0 or (depth > 0 and rng.random() < 0.25):
            return self.simple(inl, scope)
        self.left -= 1
        d = depth + 1
        kind = rng.choice(["if", "if", "for", "while", "try", "try", "try", "with", "with", "func", "withs"])
        if (kind in ("for", "while")) and loopdepth >= 3:
            kind = "try"
        a = self.a
        asy = self.asc and rng.random() < 0.45        # async form (only inside an async function)
        if kind == "if":
            k = a.site(self.cond_script())
            return [["if", k, self.block(d, inl, loopdepth, scope), self.block(d, inl, loopdepth, scope) if rng.random() < 0.5 else []]]
        if kind in ("for", "while"):
            k = a.site(self.script(loopdepth))
            body = self.block(d, True, loopdepth + 1, scope)
            orelse = self.block(d, inl, loopdepth, scope, 1, 2) if rng.random() < 0.5 else []
            if kind == "for" and asy:
                return [[kind, k, body, orelse, rng.choice(["dual", "dual", "aonly"])]]
            return [[kind, k, body, orelse]]
        if kind == "try":
            body = self.block(d, inl, loopdepth, scope)
            nh = rng.choice([0, 1, 1, 2, 3])
            fin = self.block(d, inl, loopdepth, scope, 1, 2) if (nh == 0 or rng.random() < 0.45) else []
            hs = []
            for i in range(nh):
                if i == nh - 1 and rng.random() < 0.15:
                    m = None
                elif self.hc_sites and rng.random() < 0.3:
                    m = {"var": rng.choice(self.hc_sites), "cs": [rng.choice(MATCH_CLASSES)] if rng.random() < 0.3 else []}
                elif rng.random() < 0.25:
                    m = rng.sample(MATCH_CLASSES, 2)
                else:
                    m = [rng.choice(MATCH_CLASSES)]
                name = 10 * scope + rng.choice([1, 1, 2]) if (m is not None and rng.random() < 0.5) else None
                hs.append([m, name, self.block(d, inl, loopdepth, scope, 1, 2)])
            orelse = self.block(d, inl, loopdepth, scope, 1, 2) if (nh > 0 and rng.random() < 0.35) else []
            return [["try", body, hs, orelse, fin]]
        if kind == "with":
            items = []
            for _ in range(rng.choice([1, 1, 2, 2, 3])):
                enter = rng.choice(["EA", "EC", "BX"]) if rng.random() < 0.12 else None
                r = rng.random()
                exit_ = 0 if r < 0.5 else 1 if r < 0.85 else ["raise", rng.choice(["EC", "EA", "BX"])]
                items.append(a.mgr(enter, exit_))
            return [["with", items, self.block(d, inl, loopdepth, scope), asy]]
        self.scope_ctr += 1
        if kind == "withs":
            xbody = self.block(d, False, 0, self.scope_ctr, 1, 2, asc=asy)
            return [["withs", a.site(), xbody, self.block(d, inl, loopdepth, scope), asy]]
        return [["func", a.site(), self.block(d, False, 0, self.scope_ctr, asc=asy), asy]]


def random_case(rng):
    maxdepth = rng.choice([2, 3, 4, 5, 6, 6])
    g = RandGen(rng, maxdepth)
    amain = rng.random() < 0.4
    body = g.block(0, False, 0, 0, 1, 3, asc=amain)
    c = g.a.case(body, kind="random", label=f"random/d{maxdepth}")
    c["amain"] = amain
    return c


def depth_of(stmts):
    best = 0
    for s in stmts:
        op = s[0]
        subs = []
        if op in ("if", "while", "for"):
            subs = [s[2], s[3]]
        elif op == "try":
            subs = [s[1], s[3], s[4]] + [h[2] for h in s[2]]
        elif op in ("with", "func"):
            subs = [s[2]]
        elif op == "withs":
            subs = [s[2], s[3]]
        if subs:
            best = max(best, 1 + max(depth_of(b) for b in subs))
    return best


def constructs_of(stmts, acc):
    for s in stmts:
        op = s[0]
        if op in ("if", "while", "for"):
            acc.add(("async-" if op == "for" and len(s) > 4 and s[4] != "sync" else "") + op + ("-else" if s[3] and op != "if" else ""))
            constructs_of(s[2], acc)
            constructs_of(s[3], acc)
        elif op == "try":
            acc.add("try" + ("-except" if s[2] else "") + ("-else" if s[3] else "") + ("-finally" if s[4] else ""))
            for b in [s[1], s[3], s[4]] + [h[2] for h in s[2]]:
                constructs_of(b, acc)
        elif op == "with":
            acc.add(("async-" if len(s) > 3 and s[3] else "") + f"with{len(s[1])}")
            constructs_of(s[2], acc)
        elif op == "func":
            acc.add("func")
            constructs_of(s[2], acc)
        elif op == "withs":
            acc.add("with-script-manager")
            constructs_of(s[2], acc)
            constructs_of(s[3], acc)
        elif op != "t":
            acc.add(op)
    return acc


# ------------------------------------------------------------------------------------------------
# Gallina
# ------------------------------------------------------------------------------------------------
def _n(v):
    assert isinstance(v, int) and v >= 0, v
    return str(v)


def _lst(items):
    """explicit cons/nil: coqc parses nested `[a; b]` notations extremely slowly (≈50 s for a 300 kB shard)"""
    items = list(items)
    out = "nil"
    for it in reversed(items):
        out = f"(cons {it} {out})"
    return out


def _cls(name):
    return _n(CLASS_IDS.get(name, UNKNOWN_CLASS))


def _q_exc(cls, cause=None):
    return f"(mkExc {_cls(cls)} {q.option(_cls(cause) if cause is not None else None)})"


def _q_block(b):
    return _lst(_q_stmt(s) for s in b)


def _q_stmt(s):
    op = s[0]
    if op == "t":
        return f"(STrace {_n(s[1])})"
    if op == "pass":
        return "SPass"
    if op == "probe":
        return f"(SProbe {_n(s[1])} {_n(s[2])})"
    if op in ("if", "while", "for"):
        ctor = {"if": "SIf", "while": "SWhile", "for": "SFor"}[op]
        if op == "for":
            ctor += " " + {"sync": "FSync", "dual": "FAsyncDual", "aonly": "FAsyncOnly"}[s[4] if len(s) > 4 else "sync"]
        return f"({ctor} {_n(s[1])} {_q_block(s[2])} {_q_block(s[3])})"
    if op == "break":
        return "SBreak"
    if op == "continue":
        return "SContinue"
    if op == "return":
        return f"(SReturn {q.option(_n(s[1]) if s[1] is not None else None)})"
    if op == "raise":
        return f"(SRaise {_cls(s[1])} {q.option(_cls(s[2]) if s[2] is not None else None)})"
    if op == "reraise":
        return "SReraise"
    if op == "try":
        hs = []
        for m, name, hb in s[2]:
            if isinstance(m, dict):
                mm = f"(MVar {_lst(_cls(c) for c in m['cs'])} {_n(m['var'])})"
            else:
                mm = "MAny" if m is None else f"(MCls {_lst(_cls(c) for c in m)})"
            hs.append(f"({mm}, {q.option(_n(name) if name is not None else None)}, {_q_block(hb)})")
        return f"(STry {_q_block(s[1])} {_lst(hs)} {_q_block(s[3])} {_q_block(s[4])})"
    if op == "with":
        return f"(SWith {q.boolean(len(s) > 3 and bool(s[3]))} {_lst(_n(k) for k in s[1])} {_q_block(s[2])})"
    if op == "assert":
        msg = s[2] if len(s) > 2 else None
        return f"(SAssert {_n(s[1])} {q.option(_n(msg) if msg is not None else None)})"
    if op == "func":
        return f"(SFunc {q.boolean(len(s) > 3 and bool(s[3]))} {_n(s[1])} {_q_block(s[2])})"
    if op == "sw":
        return f"(SSwitch {_n(s[1])})"
    if op == "withs":
        return f"(SWithS {q.boolean(len(s) > 4 and bool(s[4]))} {_n(s[1])} {_q_block(s[2])} {_q_block(s[3])})"
    raise ValueError(s)


def _q_oexc(cls, cause):
    return q.option(_q_exc(cls, cause) if cls is not None else None)


def _q_event(e):
    op = e[0]
    if op == "t":
        return f"(EvT {_n(e[1])})"
    if op == "c":
        return f"(EvC {_n(e[1])} {q.boolean(e[2])})"
    if op == "iter":
        return f"(EvIter {_n(e[1])})"
    if op == "n":
        return f"(EvN {_n(e[1])} {q.boolean(e[2])})"
    if op == "mk":
        return f"(EvMk {_n(e[1])})"
    if op == "enter":
        return f"(EvEnter {_n(e[1])})"
    if op == "exit":
        return f"(EvExit {_n(e[1])} {_q_oexc(e[2], e[3])})"
    if op == "p":
        if len(e) > 5:      # bound to something that is not an exception: outside the model
            return f"(EvP {_n(e[1])} {_n(e[2])} (Some (mkExc {_n(UNKNOWN_CLASS)} None)))"
        return f"(EvP {_n(e[1])} {_n(e[2])} {_q_oexc(e[3], e[4])})"
    if op == "msg":
        return f"(EvMsg {_n(e[1])})"
    if op == "sw":
        return f"(EvSw {_n(e[1])})"
    if op == "ret":
        v = e[2]
        return f"(EvRet {_n(e[1])} {q.option(_n(v) if isinstance(v, int) else (None if v is None else _n(98)))})"
    raise ValueError(e)


def _q_res(r):
    if r[0] == "ret":
        v = r[1]
        if v is None:
            return "(CRet None)"
        if isinstance(v, int) and v >= 0:
            return f"(CRet (Some {_n(v)}))"
        return f"(CExc (mkExc {_n(98)} None))"
    if r[0] == "exc":
        return f"(CExc {_q_exc(r[1], r[2])})"
    return "CFuel"      # invalid source / set-up failure: never equal to what the Model computes


def _q_obs(o):
    return "(Build_obs %s %s)" % (_lst(_q_event(e) for e in o["log"]), _q_res(o["res"]))


def _q_mgr(m):
    k, enter, exit_ = m
    en = q.option(_q_exc(enter) if enter is not None else None)
    ex = f"(XRaise {_q_exc(exit_[1])})" if isinstance(exit_, list) else f"(XRet {q.boolean(bool(exit_))})"
    return f"({_n(k)}, ({en}, {ex}))"


class FlowStream(Stream):
    name = "flow"
    rule = ("control-flow skeletons wrapped in a function: (a) every path of 1..d frames out of 39 "
            "(if body/else; for, for-else, while, while-else body/else; try-except body with first/second/no handler matching, "
            "inside first/second handler; try-finally body/finally (normal and during an exception); try-except-else-finally "
            "body/handler/else/finally; with 1 manager keep/suppress; with 2 managers keep,keep/suppress,keep/keep,suppress; "
            "function boundary; a return pending (from the try body / from a handler) while the finally clause runs; a manager class written "
            "in the script: with-body, and its __exit__ body - a function body - running while a return / an exception is pending; the same "
            "try statement executed twice in a loop while sw(k) rebinds the global class name HCk of its first except clause, first-then-"
            "second and second-then-first handler; the async forms: async with 1 and 2 managers, async with over a script manager, async "
            "for(-else) body/else over an object with both iteration protocols, async for over a proper asynchronous iterator - with the "
            "enclosing functions turned into async defs and awaited) ending in each of {break, continue, return, raise, fall-through} (plus bare re-raise, raise-from, "
            "raise of a BaseException, failing assert, and asserts with a message expression ms(j) that logs and may raise - passing "
            "(message must not be evaluated), failing, failing with a raising message - for d=1 and, in thorough, d=2; bare re-raise, "
            "BaseException and the passing assert-with-message for d=2 in quick), "
            "exhaustive for d<=2 in quick and d<=3 in thorough, only those "
            "CPython's compiler accepts; (b) random skeletons to nesting depth 6 over all constructs with random scripts for "
            "conditions/iterators, 1-3 managers with raising __enter__/suppressing or raising __exit__, handler names reused "
            "within a function. Every block position carries t(n). The same source runs under the real AstEval and under CPython; "
            "both logs and results go to Coq. non-trivial = log longer than 3 events and at least one compound statement; "
            "distinct by skeleton+scripts")
    requires = "From PV Require Import Interp.Flow Interp.FlowCheck."
    case_type = "fcase"
    check_model = "fcase_model_ok pv_cfg pv_ct"
    check_spec = "fcase_spec_ok"
    attrib = "fcase_attrib pv_cfg pv_ct"
    explain = "fcase_explain pv_cfg pv_ct"
    shard_size = 250
    coqc_timeout = 1500      # a shard needs ~5 s of CPU; the margin is for a heavily shared machine

    def budget(self, tier):
        return 12300 if tier == "quick" else 175000

    def prelude(self, ctx, findings, witness_terms):
        ct = q.lst(f"({q.N(cid)}, {q.lst(q.N(x) for x in anc)})" for cid, anc in class_table())
        return cfg_prelude(SWITCHES, findings, witness_terms, "fcase_spec_ok") + f"\nDefinition pv_ct : cls_table := {ct}.\n"

    def generate(self, ctx, budget, focus=None):
        rng = ctx.rng
        deep = ctx.tier == "thorough" or bool(focus)
        enum = list(enum_paths(1, BASE_JUMPS + EXTRA_JUMPS)) + list(enum_paths(2, BASE_JUMPS + (EXTRA_JUMPS if deep else QUICK_EXTRA_JUMPS)))
        n_d3 = 0
        if deep and budget >= 20000:
            # depth 3: exhaustive over the plain frames; paths through the async forms are sampled
            enum += list(enum_paths(3, BASE_JUMPS, [i for i, f in enumerate(FRAMES) if not f[0].startswith("async:")]))
            n_d3 = 15000
        if budget >= len(enum) + 200:
            extra = budget - len(enum)
            if not deep or budget < 20000:
                n_d3 = min(600, extra // 3)           # quick: a sample of the depth-3 paths
            n_d3 = min(n_d3, extra // 2)
            n_random = extra - n_d3
        else:                                         # development budgets: a sample of everything
            n_random = budget // 4
            n_d3 = budget // 10
            enum = rng.sample(enum, max(0, budget - n_random - n_d3))
        cases = enum
        while n_d3 > 0:
            path = tuple(rng.randrange(len(FRAMES)) for _ in range(3))
            c = path_case(path, rng.choice(BASE_JUMPS))
            if supported(c["body"]):
                cases.append(c)
                n_d3 -= 1
        for _ in range(n_random):
            cases.append(random_case(rng))
        return cases

    def run_impl(self, ctx, cases):
        slim = [{"body": c["body"], "scripts": c["scripts"], "mgrs": c["mgrs"], "msgs": c.get("msgs", []), "hcs": c.get("hcs", []), "amain": bool(c.get("amain"))} for c in cases]
        nproc = 16 if len(slim) > 20000 else 8 if len(slim) > 400 else 2
        chunks = split_chunks(slim, nproc)
        res = run_workers_parallel(ctx, "vh.workers.c02_flow", [{"cases": c} for c in chunks])
        return [o for r in res for o in r]

    def to_coq(self, case, obs):
        # one scope delimiter for the whole term (a `%N` per number doubles coqc's parsing time); CPython's
        # observation is shipped only where it differs from pyscript's
        py = "None" if obs["py"] == obs["ps"] else f"(Some {_q_obs(obs['py'])})"
        msgs = _lst(f"({_n(j)}, {q.option(_q_exc(r) if r is not None else None)})" for j, r in case.get("msgs", []))
        return ("(Build_fcase %s %s %s %s %s %s)%%N" % (
            _q_block(case["body"]), _lst(f"({_n(k)}, {_lst(_n(v) for v in sc)})" for k, sc in case["scripts"]),
            _lst(_q_mgr(m) for m in case["mgrs"]), msgs, _q_obs(obs["ps"]), py))

    def key(self, case):
        return json.dumps([case["body"], case["scripts"], case["mgrs"], case.get("msgs", []), bool(case.get("amain"))], sort_keys=True)

    def nontrivial(self, case, obs):
        return len(obs["py"]["log"]) > 3 and depth_of(case["body"]) >= 1

    def kind(self, case, obs):
        d = depth_of(case["body"])
        res = obs["py"]["res"]
        end = res[0] if res[0] != "exc" else "exc"
        same = "same" if obs["ps"] == obs["py"] else "DIFF"
        return f"{case.get('kind', '?')}/depth{d}/{end}/{same}"

    def describe(self, case, obs):
        return {"label": case.get("label"), "source": render(case), "scripts": case["scripts"], "mgrs": case["mgrs"],
                "msgs": case.get("msgs", []),
                "constructs": sorted(constructs_of(case["body"], set())),
                "pyscript": obs["ps"], "cpython": obs["py"]}


class C02(Prop):
    id = "C02"
    title = "Control flow and exception handling follow Python's paths exactly"
    coq_targets = ["Properties/C02.vo"]
    property_file = "Properties/C02.v"
    streams = [FlowStream()]
    trusted_base = [
        "modelled, not verified: eval.py ast_if/ast_for/ast_while/ast_try/ast_raise/ast_with/ast_assert/EvalFunc.call as the "
        "marker-passing evaluator ps_exec of Interp/Flow.v; the reference py_exec is the Language Reference's semantics written "
        "as a Gallina function and is itself compared with CPython on every generated skeleton",
        "expressions are opaque: conditions, iterators, context managers, exception matching (issubclass) are a host oracle with "
        "arbitrary state (Section variables of the theorems); the harness instantiates it with scripted recording objects",
        "Python's own exception machinery (sys.exc_info for bare raise, try/except/finally of the host interpreter that pyscript "
        "runs on) is modelled by the `cur` argument of both evaluators",
    ]
    assumptions = ["skeletons are accepted by CPython's compiler (break/continue inside a loop of the same function)",
                   "generators (yield), match statements and exception groups (except*) are outside the model; recording objects of async forms never suspend",
                   "implicit exception chaining (__context__) and tracebacks are not compared"]
    partial_note = ("expressions, assignment targets of `with ... as` / `for` targets and closures are C01/C03; a handler name probed "
                    "through a closure is not generated")

    def translate(self, ctx):
        info, static = read_flow_source()
        ctx.notes.append("T1 static reading of eval.py (switch = what the source text says today): " + json.dumps(static, sort_keys=True)
                         + "; details: " + json.dumps(info, sort_keys=True))
        return {}


PROP = C02()

MANIFEST_ENTRY = {
    "technique": ("Rocq proof (fuel induction, one lemma per construct) that the marker-passing evaluator equals the reference semantics "
                  "for every skeleton and every host oracle + in-Coq correspondence of both evaluators with the real AstEval and CPython"),
    "level_text": ("Theorem C02_flow_equiv: for the conformant configuration, every skeleton over {t(n), if, while/for(+else), break, "
                   "continue, return, raise (class, from, bare), try/except/else/finally with named handlers, with (any number of "
                   "managers), assert, pass, nested function call} that Python's compiler accepts, every host oracle (conditions, "
                   "iterators, __enter__/__exit__ behaviour, subclass relation) and every fuel, the model of pyscript's evaluator "
                   "produces the same event trace and the same returned value / propagated exception as the reference semantics. "
                   "C02_refuted_D8/D9/D10/D200/D201 exhibit the skeletons on which today's code deviates. Both models are compared "
                   "inside Coq with the real AstEval and with CPython on all skeleton paths to depth 2 (quick) / 3 (thorough) and on "
                   "random skeletons to depth 6."),
    "level_note": ("Trusted: Coq kernel+vm_compute; that Interp/Flow.v's ps_exec mirrors eval.py (checked behaviourally on every run); "
                   "renderer/translator and drivers in /verif/harness. Not modelled: expressions, async variants, generators, __context__."),
    "design_ref": "DESIGN.md §4 C02",
}
