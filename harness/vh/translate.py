"""T1 — fail-closed translator helpers: Python `ast` of /repo sources -> Gallina literals.

Every extractor raises TranslateError on any unexpected shape; the caller treats that as a broken
tie (DESIGN.md §3.4 rule 3).  Only literals / tables / thresholds are translated.
"""
import ast
import os


class TranslateError(Exception):
    pass


def repo_root():
    return os.environ.get("VERIF_REPO_ROOT", "/repo")


def src_path(rel):
    return os.path.join(repo_root(), "custom_components", "pyscript", rel)


def parse_file(rel):
    path = src_path(rel)
    try:
        with open(path, encoding="utf-8") as f:
            return ast.parse(f.read(), filename=path)
    except (OSError, SyntaxError) as exc:
        raise TranslateError(f"cannot parse {path}: {exc}") from exc


def find_class(tree, name):
    for node in tree.body:
        if isinstance(node, ast.ClassDef) and node.name == name:
            return node
    raise TranslateError(f"class {name} not found")


def find_func(scope, name):
    body = scope.body if hasattr(scope, "body") else scope
    for node in body:
        if isinstance(node, (ast.FunctionDef, ast.AsyncFunctionDef)) and node.name == name:
            return node
    raise TranslateError(f"function {name} not found")


def find_assign(scope, name):
    """Value node of the module/class level `name = ...` (or annotated) assignment."""
    body = scope.body if hasattr(scope, "body") else scope
    for node in body:
        if isinstance(node, ast.Assign) and len(node.targets) == 1:
            t = node.targets[0]
            if isinstance(t, ast.Name) and t.id == name:
                return node.value
        if isinstance(node, ast.AnnAssign) and isinstance(node.target, ast.Name) and node.target.id == name:
            return node.value
    raise TranslateError(f"assignment to {name} not found")


def const(node, types=(int,)):
    if isinstance(node, ast.Constant) and isinstance(node.value, types) and not isinstance(node.value, bool):
        return node.value
    if isinstance(node, ast.Constant) and bool in types and isinstance(node.value, bool):
        return node.value
    raise TranslateError(f"expected constant of {types}, got {ast.dump(node)}")


def str_collection(node):
    """A set/list/tuple display of string constants -> list of str (source order)."""
    if isinstance(node, (ast.Set, ast.List, ast.Tuple)):
        return [const(e, (str,)) for e in node.elts]
    raise TranslateError(f"expected collection of strings, got {ast.dump(node)[:80]}")


CMP = {ast.LtE: "CmpLe", ast.Lt: "CmpLt", ast.GtE: "CmpGe", ast.Gt: "CmpGt", ast.Eq: "CmpEq", ast.NotEq: "CmpNe"}


def compare_name_const(node, name):
    """`name <op> CONST` -> (coq cmpop, const)."""
    if (
        isinstance(node, ast.Compare)
        and len(node.ops) == 1
        and isinstance(node.left, ast.Name)
        and node.left.id == name
        and type(node.ops[0]) in CMP
    ):
        return CMP[type(node.ops[0])], const(node.comparators[0])
    raise TranslateError(f"expected `{name} <cmp> const`, got {ast.dump(node)[:120]}")


def walk_find(node, pred):
    return [n for n in ast.walk(node) if pred(n)]


def one(lst, what):
    if len(lst) != 1:
        raise TranslateError(f"expected exactly one {what}, found {len(lst)}")
    return lst[0]


STRUCT_WIDTH = {">Q": 8, ">L": 4, ">I": 4, ">H": 2}


def struct_width(node):
    fmt = const(node, (str,))
    if fmt not in STRUCT_WIDTH:
        raise TranslateError(f"unknown struct format {fmt!r}")
    return STRUCT_WIDTH[fmt]


# ---------- emitters ----------
def coq_string(s):
    """Gallina string literal (needs `Open Scope string_scope`); non-ASCII not supported here."""
    if any(ord(c) > 126 or ord(c) < 32 for c in s):
        raise TranslateError(f"non printable character in {s!r}")
    return '"' + s.replace('"', '""') + '"'


def coq_list(items):
    return "[" + "; ".join(items) + "]"


def coq_N(n):
    if n < 0:
        raise TranslateError("negative N")
    return f"{n}%N"


def write_if_changed(path, text):
    try:
        with open(path, encoding="utf-8") as f:
            if f.read() == text:
                return False
    except OSError:
        pass
    tmp = path + ".tmp%d" % os.getpid()
    with open(tmp, "w", encoding="utf-8") as f:
        f.write(text)
    os.replace(tmp, path)
    return True
