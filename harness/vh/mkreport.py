"""Regenerate the status tables of DESIGN.md §8 (between the AUTOGEN markers) from what is on disk:
Properties/*.v (theorem names), props modules (streams, partial notes), known findings, seeded/*/meta.json."""
import glob
import importlib
import json
import os
import re
import sys

sys.path.insert(0, os.path.dirname(os.path.dirname(os.path.abspath(__file__))))
from vh import core  # noqa: E402

V = core.VERIF
BEGIN = "<!-- AUTOGEN:BEGIN (harness/vh/mkreport.py) -->"
END = "<!-- AUTOGEN:END -->"


def theorems(pid):
    path = os.path.join(V, "coq", "Properties", f"{pid}.v")
    try:
        src = re.sub(r"\(\*.*?\*\)", "", open(path, encoding="utf-8").read(), flags=re.S)
    except OSError:
        return []
    return re.findall(r"^\s*Theorem\s+([A-Za-z0-9_']+)", src, flags=re.M)


def findings():
    data = []
    for path in [os.path.join(V, "known_findings.json")] + sorted(glob.glob(os.path.join(V, "known_findings.d", "*.json"))):
        try:
            d = json.load(open(path, encoding="utf-8"))
            data.extend(d if isinstance(d, list) else [d])
        except (OSError, ValueError):
            pass
    seen = set()
    out = []
    for e in data:
        k = (e.get("property"), e.get("id"))
        if k not in seen:
            seen.add(k)
            out.append(e)
    return out


def main():
    claimed = sorted(core.claimed_ids())
    lines = [BEGIN, "", "### 8.1 Properties: models, theorems, streams", ""]
    lines.append("| id | theorems in `Properties/` (all `exact`, `Print Assumptions` = closed) | obligations in cone | streams | partial / not modelled |")
    lines.append("|---|---|---|---|---|")
    for pid in [f"C{i:02d}" for i in range(1, 21)]:
        try:
            mod = importlib.import_module(f"vh.props.{pid.lower()}")
            prop = mod.PROP
        except Exception as exc:  # pylint: disable=broad-except
            lines.append(f"| {pid} | (module not importable: {exc}) | | | |")
            continue
        ths = theorems(pid)
        ev = {}
        try:
            ev = json.load(open(os.path.join(V, "evidence", f"{pid}.json"), encoding="utf-8"))
        except (OSError, ValueError):
            pass
        obl = ev.get("coverage", {}).get("obligations", "?")
        streams = ", ".join(f"{s.name} ({s.budget('quick')}/{s.budget('thorough')})" for s in prop.streams)
        mark = "" if pid in claimed else " (not claimed)"
        part = (prop.partial_note or "").replace("|", "/").replace("\n", " ")
        lines.append(f"| {pid}{mark} | {', '.join('`'+t+'`' for t in ths)} | {obl} | {streams} | {part[:400]} |")
    lines += ["", "### 8.2 Findings (genuine deviations of the code from the properties)", "",
              "| property | id | site | what fails | status |", "|---|---|---|---|---|"]
    for e in sorted(findings(), key=lambda e: (e.get("property", ""), str(e.get("id")))):
        what = str(e.get("what", "")).replace("|", "/").replace("\n", " ")[:260]
        lines.append(f"| {e.get('property')} | {e.get('id')} | {str(e.get('site','')).replace('|','/')[:70]} | {what} | {str(e.get('status',''))[:120]} |")
    lines += ["", "### 8.3 Seeded changes (independent sub-agents, each confirmed in a scratch worktree) and which check catches them", "",
              "| seed | property | what the change does / what it needs | pinned suite with change | demo | caught by `bin/check` | note |", "|---|---|---|---|---|---|---|"]
    for d in sorted(glob.glob(os.path.join(V, "seeded", "*"))):
        try:
            m = json.load(open(os.path.join(d, "meta.json"), encoding="utf-8"))
        except (OSError, ValueError):
            continue
        c = m.get("confirmed_by_coordinator", {})
        chk = m.get("check", {})
        desc = m.get("summary") or m.get("breaks") or ""
        if not desc:
            rd = m.get("readme_head", "")
            desc = " ".join(rd.split())[:220]
        caught = "yes, with failing input" if chk.get("with_failing_input") else ("yes, no-failing-input-found" if chk.get("detected") else "NO")
        hist = m.get("history", "")
        lines.append(f"| {os.path.basename(d)} | {m.get('property')} | {str(desc).replace('|','/')[:240]} | {c.get('baseline_with_change','?')} | "
                     f"fails with / passes without: {c.get('ok')} | {caught} | {str(hist).replace('|','/')[:200]} |")
    lines += ["", END]
    path = os.path.join(V, "DESIGN.md")
    s = open(path, encoding="utf-8").read()
    block = "\n".join(lines)
    if BEGIN in s and END in s:
        s = s[: s.index(BEGIN)] + block + s[s.index(END) + len(END):]
    else:
        s = s.rstrip("\n") + "\n\n--------------------------------------------------------------------------------------------\n\n## 8. Status tables (regenerated)\n\n" + block + "\n"
    open(path, "w", encoding="utf-8").write(s)
    print("DESIGN.md §8 regenerated")


main()
