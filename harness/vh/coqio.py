"""Python values -> Gallina literals, and parsing of the short results coqc prints back."""
import ast as _ast
import re


def N(n):
    assert isinstance(n, int) and n >= 0, n
    return f"{n}%N"


def Z(n):
    assert isinstance(n, int)
    return f"({n})%Z"


def nat(n):
    assert isinstance(n, int) and 0 <= n <= 5000, f"nat literal too large: {n}"
    return f"{n}%nat"


def pos(n):
    assert isinstance(n, int) and n >= 1
    return f"{n}%positive"


def boolean(b):
    return "true" if b else "false"


def lst(items):
    items = list(items)
    return "[" + "; ".join(items) + "]"


def pair(*items):
    return "(" + ", ".join(items) + ")"


def option(x):
    return "None" if x is None else f"(Some {x})"


def string(s):
    """Coq string literal (string_scope). Only printable ASCII may be written directly."""
    out = []
    for ch in s:
        o = ord(ch)
        if ch == '"':
            out.append('""')
        elif 32 <= o <= 126:
            out.append(ch)
        else:
            raise ValueError(f"non printable char {ch!r}; use bytes_N instead")
    return '"' + "".join(out) + '"%string'


def bytes_N(b):
    """bytes -> list N literal"""
    return lst(str(x) + "%N" for x in b)


def rle(b):
    """bytes -> run-length list (N*N) literal, expanded in Coq by Util.rle_expand."""
    runs = []
    i = 0
    n = len(b)
    while i < n:
        j = i
        while j < n and b[j] == b[i]:
            j += 1
        runs.append((b[i], j - i))
        i = j
    return lst(f"({v}%N, {c}%N)" for v, c in runs)


_EVAL_RE = re.compile(r"^\s*=\s(.*?)^\s*:\s", re.S | re.M)


def parse_evals(output):
    """All `= term : type` blocks of a coqc run, as raw term strings (whitespace collapsed)."""
    res = []
    for m in _EVAL_RE.finditer(output):
        res.append(" ".join(m.group(1).split()))
    return res


def to_python(term):
    """Parse a printed Gallina term built from lists, tuples, numbers, booleans, options and
    strings into Python data.  Fails (ValueError) on anything else."""
    t = re.sub(r"%(nat|N|Z|positive|string)\b", "", term)
    t = t.replace(";", ",")
    t = re.sub(r"\btrue\b", "True", t)
    t = re.sub(r"\bfalse\b", "False", t)
    t = re.sub(r"\bSome\b", "", t)
    try:
        return _ast.literal_eval(t)
    except (ValueError, SyntaxError) as exc:
        raise ValueError(f"cannot parse Coq term {term[:200]!r}: {exc}") from exc
