"""bin/check Cxx [--tier quick|thorough] [--replay FILE]"""
import argparse
import importlib
import json
import os
import sys

sys.path.insert(0, os.path.dirname(os.path.dirname(os.path.abspath(__file__))))

from vh import core  # noqa: E402


def main():
    ap = argparse.ArgumentParser()
    ap.add_argument("prop")
    ap.add_argument("--tier", default=os.environ.get("VERIF_TIER") or "quick", choices=["quick", "thorough"])
    ap.add_argument("--replay", default=None)
    args = ap.parse_args()
    seed = int(os.environ.get("VERIF_SEED", "0") or 0)
    mod = importlib.import_module(f"vh.props.{args.prop.lower()}")
    replay = None
    if args.replay:
        with open(args.replay, encoding="utf-8") as f:
            replay = json.load(f)
    sys.exit(core.run_check(mod.PROP, args.tier, seed, replay))


if __name__ == "__main__":
    main()
