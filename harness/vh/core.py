"""Core of the checks: Coq build, correspondence shards, decision rule, evidence (DESIGN.md §3).

A property module (vh/props/cXX.py) exposes `PROP`, an instance of `Prop` with a list of `Stream`s.
`run_check(PROP, tier, seed)` implements the decision rule of DESIGN.md §3.4 and returns the exit code.
"""
import glob
import hashlib
import json
import os
import random
import re
import shutil
import subprocess
import sys
import time
import traceback

from . import coqio
from .translate import TranslateError, write_if_changed

VERIF = os.path.dirname(os.path.dirname(os.path.dirname(os.path.abspath(__file__))))
DEFAULT_REPO = "/repo"
PY = "/venv/bin/python"
NCPU = int(os.environ.get("VERIF_JOBS") or os.cpu_count() or 4)

STD_AXIOMS_OK = {
    # axioms declared by Coq's own standard library; allowed if named in the trusted base
    "functional_extensionality_dep",
    "FunctionalExtensionality.functional_extensionality_dep",
    "propositional_extensionality",
    "classic",
    "Classical_Prop.classic",
    "proof_irrelevance",
    "Eqdep.Eq_rect_eq.eq_rect_eq",
    "eq_rect_eq",
    "JMeq_eq",
    "JMeq.JMeq_eq",
    "constructive_definite_description",
    "constructive_indefinite_description",
}

HYGIENE_RE = re.compile(
    r"^\s*(Axiom|Axioms|Parameter|Parameters|Conjecture|Admitted|Admit Obligations)\b|\badmit\b|Unset Guard Checking|"
    r"bypass_check|Unset Positivity Checking|Unset Universe Checking|type-in-type|impredicative-set"
)
STATEMENT_RE = re.compile(r"^\s*(Theorem|Lemma|Example|Corollary|Fact|Proposition|Remark)\s+([A-Za-z0-9_']+)", re.M)


def repo_root():
    return os.environ.get("VERIF_REPO_ROOT", DEFAULT_REPO)


_T0 = time.time()


def vlog(msg):
    print(f"[vh {time.time() - _T0:7.1f}s] {msg}", file=sys.stderr, flush=True)


def claimed_ids():
    """Properties the coordinator has accepted into MANIFEST.json (claimed.json, maintained by hand)."""
    try:
        with open(os.path.join(VERIF, "claimed.json"), encoding="utf-8") as f:
            return set(json.load(f))
    except (OSError, ValueError):
        return set()


class Ctx:
    def __init__(self, prop_id, tier, seed):
        self.prop_id = prop_id
        self.tier = tier
        self.seed = seed
        self.repo = repo_root()
        self.rng = random.Random(f"{prop_id}-{seed}")
        self.scratch = f"/var/tmp/pv_{prop_id}_{os.getpid()}"
        os.makedirs(self.scratch, exist_ok=True)
        if os.path.realpath(self.repo) == os.path.realpath(DEFAULT_REPO):
            self.coq_dir = os.path.join(VERIF, "coq")
            self.coq_is_copy = False
        else:
            # a scratch repository (seeded-change self-validation): never disturb /verif/coq
            self.coq_dir = os.path.join(self.scratch, "coq")
            shutil.copytree(os.path.join(VERIF, "coq"), self.coq_dir, symlinks=True)
            self.coq_is_copy = True
        self.notes = []

    def cleanup(self):
        shutil.rmtree(self.scratch, ignore_errors=True)

    def env(self, extra=None):
        env = dict(os.environ)
        env["PYTHONPATH"] = self.repo + os.pathsep + os.path.join(VERIF, "harness")
        env.setdefault("PYTHONHASHSEED", "0")
        env["VERIF_REPO_ROOT"] = self.repo
        env["PYTHONDONTWRITEBYTECODE"] = "1"
        if extra:
            env.update(extra)
        return env


# --------------------------------------------------------------------------------------------
# property / stream interfaces
# --------------------------------------------------------------------------------------------
class Stream:
    """One correspondence stream: generated cases run on the implementation and evaluated in Coq."""

    name = "stream"
    requires = ""  # Coq Require lines for cases files (Model/Spec files only, never Proofs)
    case_type = ""  # Gallina type of one case (input * observation)
    check_model = None  # Gallina term : case_type -> bool  (true = Model reproduces the code); None = no model side
    check_spec = "fun _ => true"  # Gallina term : case_type -> bool (true = property holds on what the code did)
    attrib = None  # Gallina term : case_type -> list nat  (finding numbers that explain a Spec failure)
    explain = None  # Gallina term : case_type -> X, printed for failing cases into the replay
    shard_size = 400
    coqc_timeout = 300

    def prelude(self, ctx, findings, witness_terms):
        """Extra Gallina definitions placed before the case list (e.g. the measured deviation cfg).
        `witness_terms` maps finding id -> Gallina term of that finding's witness case as just observed
        on the implementation (see `cfg_prelude`)."""
        return ""

    def generate(self, ctx, budget, focus=None):
        raise NotImplementedError

    def budget(self, tier):
        return 200 if tier == "quick" else 2000

    def run_impl(self, ctx, cases):
        """-> list of observations (JSON-able), same length as cases."""
        raise NotImplementedError

    def to_coq(self, case, obs):
        raise NotImplementedError

    def nontrivial(self, case, obs):
        return True

    def key(self, case):
        return json.dumps(case, sort_keys=True, default=str)

    def describe(self, case, obs):
        return {"case": case, "observed": obs}

    def kind(self, case, obs):
        """label used for the input-distribution histogram in the evidence"""
        return "case"


class Prop:
    id = "C00"
    title = ""
    coq_targets = []  # e.g. ["Properties/C19.vo"]
    property_file = None  # e.g. "Properties/C19.v" (recompiled on every run to capture Print Assumptions)
    streams = []
    trusted_base = []
    assumptions = []
    partial_note = ""

    def translate(self, ctx):
        """-> {"Gen/Name.v": text}; raise TranslateError to fail closed."""
        return {}


# --------------------------------------------------------------------------------------------
# Coq project handling
# --------------------------------------------------------------------------------------------
def _run(cmd, cwd=None, timeout=None, env=None, input_=None):
    try:
        p = subprocess.run(
            cmd, cwd=cwd, timeout=timeout, env=env, input=input_, stdout=subprocess.PIPE, stderr=subprocess.STDOUT, text=True
        )
        return p.returncode, p.stdout
    except subprocess.TimeoutExpired as exc:
        out = exc.stdout or ""
        if isinstance(out, bytes):
            out = out.decode("utf-8", "replace")
        return 124, out + f"\nTIMEOUT after {timeout}s: {cmd}"


def coq_files(coq_dir):
    files = []
    for root, _dirs, names in os.walk(coq_dir):
        for n in names:
            if n.endswith(".v") and not n.startswith("."):
                files.append(os.path.relpath(os.path.join(root, n), coq_dir))
    return sorted(files)


def ensure_makefile(coq_dir):
    files = coq_files(coq_dir)
    text = "-Q . PV\n-arg -w -arg -notation-overridden,-deprecated-hint-without-locality,-deprecated-instance-without-locality\n" + "\n".join(files) + "\n"
    changed = write_if_changed(os.path.join(coq_dir, "_CoqProject"), text)
    mk = os.path.join(coq_dir, "Makefile.coq")
    if changed or not os.path.exists(mk):
        rc, out = _run(["coq_makefile", "-f", "_CoqProject", "-o", "Makefile.coq"], cwd=coq_dir, timeout=120)
        if rc != 0:
            raise RuntimeError("coq_makefile failed:\n" + out)


def coq_build(coq_dir, targets, timeout=2400, jobs=NCPU):
    """Full .vo build of the given targets (and their cone) under a lock. -> (ok, log)"""
    ensure_makefile(coq_dir)
    cmd = ["flock", os.path.join(coq_dir, ".build.lock"), "timeout", str(timeout), "make", "-f", "Makefile.coq", f"-j{jobs}"] + targets
    rc, out = _run(cmd, cwd=coq_dir, timeout=timeout + 60)
    return rc == 0, out


def coq_cone(coq_dir, prop_file, want_deps=False):
    """Transitive PV-internal dependencies (as .v paths) of a file, via coqdep."""
    files = coq_files(coq_dir)
    rc, out = _run(["coqdep", "-Q", ".", "PV"] + files, cwd=coq_dir, timeout=120)
    deps = {}
    for line in out.splitlines():
        if ":" not in line:
            continue
        lhs, rhs = line.split(":", 1)
        tgt = [t for t in lhs.split() if t.endswith(".vo")]
        if not tgt:
            continue
        v = tgt[0][:-1]
        deps[v] = [d[:-1] for d in rhs.split() if d.endswith(".vo")]
    seen = []
    todo = [prop_file]
    while todo:
        f = todo.pop()
        f = os.path.normpath(f)
        if f in seen:
            continue
        seen.append(f)
        todo.extend(deps.get(f, []))
    if want_deps:
        return sorted(seen), deps
    return sorted(seen)


def vo_fresh(coq_dir, cone, deps):
    """Files of the cone whose .vo exists, is newer than the .v, and whose dependencies are all fresh."""
    memo = {}

    def fresh(f):
        if f in memo:
            return memo[f]
        memo[f] = False
        v = os.path.join(coq_dir, f)
        vo = v[:-2] + ".vo"
        try:
            ok = os.path.getmtime(vo) >= os.path.getmtime(v)
        except OSError:
            ok = False
        if ok:
            for d in deps.get(f, []):
                d = os.path.normpath(d)
                if d == f:
                    continue
                try:
                    if not fresh(d) or os.path.getmtime(os.path.join(coq_dir, d)[:-2] + ".vo") > os.path.getmtime(vo):
                        ok = False
                        break
                except OSError:
                    ok = False
                    break
        memo[f] = ok
        return ok

    return {f for f in cone if fresh(f)}


def count_statements(coq_dir, files):
    names = []
    for f in files:
        try:
            with open(os.path.join(coq_dir, f), encoding="utf-8") as fh:
                txt = fh.read()
        except OSError:
            continue
        txt = re.sub(r"\(\*.*?\*\)", "", txt, flags=re.S)
        for m in STATEMENT_RE.finditer(txt):
            names.append(f"{f}:{m.group(2)}")
    return names


def hygiene(coq_dir, files):
    bad = []
    for f in files:
        try:
            with open(os.path.join(coq_dir, f), encoding="utf-8") as fh:
                txt = fh.read()
        except OSError:
            continue
        txt = re.sub(r"\(\*.*?\*\)", lambda m: "\n" * m.group(0).count("\n"), txt, flags=re.S)
        for i, line in enumerate(txt.splitlines(), 1):
            if HYGIENE_RE.search(line):
                bad.append(f"{f}:{i}: {line.strip()}")
    return bad


def print_assumptions(coq_dir, prop_file, timeout=600):
    """Recompile the property file alone and return (ok, {theorem: [axioms]}, raw_output)."""
    cmd = ["flock", os.path.join(coq_dir, ".build.lock"), "timeout", str(timeout), "coqc", "-Q", ".", "PV",
           "-w", "-notation-overridden,-deprecated-hint-without-locality,-deprecated-instance-without-locality", prop_file]
    rc, out = _run(cmd, cwd=coq_dir, timeout=timeout + 30)
    if rc != 0:
        return False, {}, out
    with open(os.path.join(coq_dir, prop_file), encoding="utf-8") as fh:
        src = re.sub(r"\(\*.*?\*\)", "", fh.read(), flags=re.S)
    asked = re.findall(r"Print Assumptions\s+([A-Za-z0-9_'.]+)\s*\.", src)
    blocks = re.split(r"(?m)^(?=Closed under the global context|Axioms:|Section Variables:)", out)
    blocks = [b for b in blocks if b.startswith(("Closed under", "Axioms:", "Section Variables:"))]
    res = {}
    for name, blk in zip(asked, blocks):
        if blk.startswith("Closed under"):
            res[name] = []
        else:
            axs = re.findall(r"(?m)^([A-Za-z_][A-Za-z0-9_'.]*)\s*:", blk)
            res[name] = [a for a in axs if a not in ("Axioms", "Section Variables")]
    if len(blocks) != len(asked):
        res["__mismatch__"] = [f"{len(asked)} Print Assumptions commands but {len(blocks)} answers"]
    return True, res, out


# --------------------------------------------------------------------------------------------
# correspondence shards
# --------------------------------------------------------------------------------------------
def _shard_text(stream, prelude, terms):
    lines = [
        "From PV Require Import Common.Util.",
        stream.requires,
        "Import ListNotations.",
        "Local Open Scope list_scope.",
        prelude,
        f"Definition pv_case_t : Type := {stream.case_type}.",
        "Definition pv_cases : list pv_case_t := [",
        ";\n".join("  " + t for t in terms),
        "].",
    ]
    cm = stream.check_model if stream.check_model else "fun _ : pv_case_t => true"
    lines += [
        f"Definition pv_check_model : pv_case_t -> bool := {cm}.",
        f"Definition pv_check_spec : pv_case_t -> bool := {stream.check_spec}.",
        "Definition pv_bad_model := filter_idx (fun c => negb (pv_check_model c)) pv_cases.",
        "Definition pv_bad_spec := filter_idx (fun c => negb (pv_check_spec c)) pv_cases.",
        "Eval vm_compute in pv_bad_model.",
        "Eval vm_compute in pv_bad_spec.",
    ]
    if stream.attrib:
        lines += [
            f"Definition pv_attrib : pv_case_t -> list nat := {stream.attrib}.",
            "Eval vm_compute in map (fun i => match nth_error pv_cases i with Some c => (i, pv_attrib c) | None => (i, []) end) pv_bad_spec.",
        ]
    return "\n".join(lines) + "\n"


def run_shards(ctx, stream, prelude, terms, tag):
    """-> (bad_model idx list, bad_spec idx list, attrib {idx: [n]}, errors[list of str])"""
    d = os.path.join(ctx.scratch, f"shards_{stream.name}_{tag}")
    os.makedirs(d, exist_ok=True)
    size = stream.shard_size
    shards = []
    for k in range(0, len(terms), size):
        name = f"cases_{k // size}"
        with open(os.path.join(d, name + ".v"), "w", encoding="utf-8") as f:
            f.write(_shard_text(stream, prelude, terms[k : k + size]))
        shards.append((k, name))
    procs = []
    results = {}
    pending = list(shards)
    running = []
    maxpar = max(1, min(NCPU, 16))
    errors = []

    def launch(item):
        k, name = item
        out = open(os.path.join(d, name + ".out"), "w")
        p = subprocess.Popen(
            ["timeout", str(stream.coqc_timeout), "coqc", "-noglob", "-Q", ctx.coq_dir, "PV", "-w", "-all", name + ".v"],
            cwd=d, stdout=out, stderr=subprocess.STDOUT,
        )
        return (k, name, p, out)

    while pending or running:
        while pending and len(running) < maxpar:
            running.append(launch(pending.pop(0)))
        time.sleep(0.05)
        still = []
        for k, name, p, out in running:
            if p.poll() is None:
                still.append((k, name, p, out))
            else:
                out.close()
                with open(os.path.join(d, name + ".out"), encoding="utf-8", errors="replace") as fh:
                    results[k] = (p.returncode, fh.read())
        running = still
    bad_model, bad_spec, attrib = [], [], {}
    for k, name in shards:
        rc, out = results[k]
        if rc != 0:
            errors.append(f"coqc failed on shard {name} (rc={rc}): {out[-1500:]}")
            continue
        try:
            evs = coqio.parse_evals(out)
            bm = coqio.to_python(evs[0])
            bs = coqio.to_python(evs[1])
            bad_model += [k + i for i in bm]
            bad_spec += [k + i for i in bs]
            if stream.attrib and len(evs) > 2:
                for i, ns in coqio.to_python(evs[2]):
                    attrib[k + i] = list(ns)
        except (ValueError, IndexError) as exc:
            errors.append(f"cannot parse coqc output of shard {name}: {exc}: {out[-800:]}")
    return bad_model, bad_spec, attrib, errors


def explain_cases(ctx, stream, prelude, terms, tag):
    """Second pass: print stream.explain for the given (failing) case terms. -> list of raw strings"""
    if not stream.explain or not terms:
        return []
    d = os.path.join(ctx.scratch, f"explain_{stream.name}_{tag}")
    os.makedirs(d, exist_ok=True)
    body = [
        "From PV Require Import Common.Util.", stream.requires, "Import ListNotations.", prelude,
        f"Definition pv_case_t : Type := {stream.case_type}.",
    ]
    for i, t in enumerate(terms):
        body.append(f"Definition pv_c{i} : pv_case_t := {t}.")
        body.append(f"Eval vm_compute in ({stream.explain}) pv_c{i}.")
    with open(os.path.join(d, "explain.v"), "w", encoding="utf-8") as f:
        f.write("\n".join(body) + "\n")
    rc, out = _run(["timeout", "300", "coqc", "-noglob", "-Q", ctx.coq_dir, "PV", "-w", "-all", "explain.v"], cwd=d, timeout=330)
    if rc != 0:
        return [f"explain failed: {out[-500:]}"]
    return coqio.parse_evals(out)


# --------------------------------------------------------------------------------------------
# known findings
# --------------------------------------------------------------------------------------------
def load_findings(prop_id):
    """known_findings.json (maintained by hand, never written at run time) + known_findings.d/*.json"""
    data = []
    paths = [os.path.join(VERIF, "known_findings.json")] + sorted(glob.glob(os.path.join(VERIF, "known_findings.d", "*.json")))
    for path in paths:
        try:
            with open(path, encoding="utf-8") as f:
                d = json.load(f)
            data.extend(d if isinstance(d, list) else [d])
        except (OSError, ValueError):
            continue
    seen = set()
    out = []
    for e in data:
        if e.get("property") == prop_id and e.get("id") not in seen:
            seen.add(e.get("id"))
            out.append(e)
    return out


def cfg_prelude(record_ctor_fields, findings, witness_terms, spec_fn, name="pv_cfg", case_type="pv_w_t"):
    """Gallina text defining the *measured* deviation configuration.

    record_ctor_fields: list of (field_name, finding_id or None).  A switch is ON iff its finding is listed with
    status "open" AND the Spec function `spec_fn` (Gallina, case -> bool) fails on the finding's witness as just
    observed on the implementation.  Findings with status "fixed: ..." (or not listed) force the switch OFF, so a
    returning deviation shows up as a Spec failure + Model mismatch and is reported as a VIOLATION."""
    status = {f["id"]: f.get("status", "") for f in findings}
    lines = []
    fields = []
    for field, fid in record_ctor_fields:
        if fid is not None and status.get(fid) == "open" and fid in witness_terms:
            lines.append(f"Definition pv_w_{fid} := {witness_terms[fid]}.")
            fields.append(f"{field} := negb (({spec_fn}) pv_w_{fid})")
        else:
            fields.append(f"{field} := false")
    lines.append(f"Definition {name} := {{| " + "; ".join(fields) + " |}.")
    return "\n".join(lines)


def load_corpus(prop_id, stream_name):
    res = []
    for path in sorted(glob.glob(os.path.join(VERIF, "corpus", prop_id, f"{stream_name}*.json"))):
        try:
            with open(path, encoding="utf-8") as f:
                data = json.load(f)
            res.extend(data if isinstance(data, list) else [data])
        except (OSError, ValueError):
            pass
    return res


# --------------------------------------------------------------------------------------------
# the decision rule
# --------------------------------------------------------------------------------------------
def _stream_pass(ctx, prop, stream, findings, budget, focus, tag, stats):
    """Run one stream once. -> dict(result fields)"""
    fnd = [f for f in findings if f.get("stream", stream.name) == stream.name]
    witnesses = [dict(f["witness"], __finding__=f["id"]) for f in fnd if "witness" in f]
    corpus = load_corpus(prop.id, stream.name)
    if os.environ.get("VERIF_BUDGET"):
        budget = int(os.environ["VERIF_BUDGET"])
    gen = stream.generate(ctx, budget, focus)
    cases = witnesses + corpus + gen
    t0 = time.time()
    obs = stream.run_impl(ctx, cases)
    t_impl = time.time() - t0
    if len(obs) != len(cases):
        raise RuntimeError(f"{stream.name}: run_impl returned {len(obs)} observations for {len(cases)} cases")
    terms = [stream.to_coq(c, o) for c, o in zip(cases, obs)]
    witness_terms = {cases[i]["__finding__"]: terms[i] for i in range(len(witnesses))}
    prelude = stream.prelude(ctx, fnd, witness_terms)
    t0 = time.time()
    bad_model, bad_spec, attrib, errors = run_shards(ctx, stream, prelude, terms, tag)
    t_coq = time.time() - t0
    vlog(f"stream {stream.name}/{tag}: {len(cases)} cases impl={t_impl:.1f}s coq={t_coq:.1f}s bad_model={len(bad_model)} "
        f"bad_spec={len(bad_spec)} errors={len(errors)}")
    keys = set()
    nontriv = set()
    hist = {}
    for c, o in zip(cases, obs):
        k = stream.key(c)
        keys.add(k)
        if stream.nontrivial(c, o):
            nontriv.add(k)
        kind = stream.kind(c, o)
        hist[kind] = hist.get(kind, 0) + 1
    stats.setdefault(stream.name, {"evaluations": 0, "distinct": set(), "nontrivial": set(), "hist": {}, "impl_s": 0.0, "coq_s": 0.0, "samples": []})
    st = stats[stream.name]
    st["evaluations"] += len(cases)
    st["distinct"] |= keys
    st["nontrivial"] |= nontriv
    for k, v in hist.items():
        st["hist"][k] = st["hist"].get(k, 0) + v
    st["impl_s"] += t_impl
    st["coq_s"] += t_coq
    if not st["samples"]:
        picks = [len(witnesses) + len(corpus) + i for i in (0, len(gen) // 2, len(gen) - 1) if gen]
        st["samples"] = [_trim(stream.describe(cases[i], obs[i])) for i in sorted(set(picks)) if 0 <= i < len(cases)]
    return {
        "cases": cases, "obs": obs, "terms": terms, "prelude": prelude, "bad_model": bad_model, "bad_spec": bad_spec,
        "attrib": attrib, "errors": errors, "n_witness": len(witnesses), "findings": fnd,
    }


def _trim(x, limit=1500):
    s = json.dumps(x, default=str)
    if len(s) <= limit:
        return x
    return {"truncated": s[:limit] + "..."}


def _write_replay(ctx, prop, stream, case, obs, extra):
    os.makedirs(os.path.join(VERIF, "replays"), exist_ok=True)
    h = hashlib.sha1(json.dumps([stream.name if stream else "", case], sort_keys=True, default=str).encode()).hexdigest()[:10]
    path = os.path.join(VERIF, "replays", f"{prop.id}-{ctx.seed}-{h}.json")
    data = {"property": prop.id, "seed": ctx.seed, "tier": ctx.tier, "stream": stream.name if stream else None,
            "case": case, "observed": obs}
    data.update(extra)
    with open(path, "w", encoding="utf-8") as f:
        json.dump(data, f, indent=1, default=str)
    return path


def run_check(prop, tier, seed, replay=None):
    t_start = time.time()
    ctx = Ctx(prop.id, tier, seed)
    try:
        return _run_check(prop, ctx, t_start, replay)
    except Exception:  # infrastructure error: no VIOLATION line, exit 2
        traceback.print_exc()
        print(f"INFRA-ERROR property={prop.id}: see traceback above", file=sys.stderr)
        return 2
    finally:
        ctx.cleanup()


def _run_check(prop, ctx, t_start, replay):
    findings = load_findings(prop.id)
    open_ids = {f["id"] for f in findings if f.get("status") == "open"}
    broken = []  # broken obligations / tie, as strings
    violations = []  # (replay path, suffix)
    known_lines = []

    # ---- T1: regenerate Gen/*.v -----------------------------------------------------------------
    translator_status = "ok"
    try:
        gen = prop.translate(ctx)
        os.makedirs(os.path.join(ctx.coq_dir, "Gen"), exist_ok=True)
        for rel, text in gen.items():
            write_if_changed(os.path.join(ctx.coq_dir, rel), text)
    except TranslateError as exc:
        translator_status = f"fail-closed: {exc}"
        broken.append(f"translator(T1) refused the current source: {exc}")

    # ---- proofs ---------------------------------------------------------------------------------
    t0 = time.time()
    ok, log = coq_build(ctx.coq_dir, prop.coq_targets)
    build_s = time.time() - t0
    vlog(f"coq build ok={ok} in {build_s:.1f}s")
    cone, deps = coq_cone(ctx.coq_dir, prop.property_file, want_deps=True)
    statements = count_statements(ctx.coq_dir, cone)
    discharged = len(statements) if ok else 0
    pa = {}
    pa_raw = ""
    if not ok:
        m = re.findall(r'File "\./([^"]+)", line (\d+)[^\n]*\n(Error:[^\n]*(?:\n[^\n]+){0,6})', log)
        where = "; ".join(f"{f}:{ln} {err.splitlines()[0]} {' '.join(err.splitlines()[1:3])}" for f, ln, err in m[:3]) or log[-600:]
        broken.append(f"proof obligation no longer checks: {where}")
        # models (files without proofs) may still build: try them so the search can run
        model_targets = [f[:-2] + ".vo" for f in cone if not f.startswith(("Proofs/", "Properties/"))]
        ok_models, log2 = coq_build(ctx.coq_dir, model_targets)
        if not ok_models:
            broken.append("model files do not compile: " + log2[-400:])
        # which statements survive: those in files whose .vo exists
        fresh = vo_fresh(ctx.coq_dir, cone, deps)
        discharged = len([s for s in statements if s.split(":")[0] in fresh])
    else:
        ok_pa, pa, pa_raw = print_assumptions(ctx.coq_dir, prop.property_file)
        if not ok_pa:
            broken.append("property file does not compile: " + pa_raw[-400:])
        for thm, axs in pa.items():
            notok = [a for a in axs if a.split(".")[-1] not in {x.split(".")[-1] for x in STD_AXIOMS_OK}]
            if notok or thm == "__mismatch__":
                broken.append(f"Print Assumptions {thm}: unexpected axioms {axs}")
    coqchk_report = None
    if ok and ctx.tier == "thorough" and not os.environ.get("VERIF_NO_COQCHK"):
        # independent re-check of the compiled cone, with the axioms it relies on (thorough tier only: ~1-5 min)
        modname = "PV." + prop.property_file[:-2].replace("/", ".")
        rc_chk, out_chk = _run(["timeout", "2400", "coqchk", "-silent", "-o", "-Q", ".", "PV", modname], cwd=ctx.coq_dir, timeout=2500)
        m_ax = re.search(r"\* Axioms:(.*?)\n\s*\n\* Constants/Inductives relying on type-in-type:(.*?)\n\s*\n\* Constants/Inductives relying on unsafe \(co\)fixpoints:(.*?)\n\s*\n\* Inductives whose positivity is assumed:(.*?)\n", out_chk, re.S)
        if rc_chk != 0 or not m_ax:
            broken.append("coqchk failed on the compiled cone: " + out_chk[-400:])
            coqchk_report = {"rc": rc_chk, "tail": out_chk[-600:]}
        else:
            axs = [a.strip() for a in m_ax.group(1).split("\n") if a.strip() and a.strip() != "<none>"]
            coqchk_report = {"rc": 0, "axioms": axs, "type_in_type": m_ax.group(2).strip(), "unsafe_fixpoints": m_ax.group(3).strip(),
                             "assumed_positivity": m_ax.group(4).strip()}
            bad_ax = [a for a in axs if a.split(".")[-1] not in {x.split(".")[-1] for x in STD_AXIOMS_OK}]
            if bad_ax or any(coqchk_report[k] != "<none>" for k in ("type_in_type", "unsafe_fixpoints", "assumed_positivity")):
                broken.append(f"coqchk: unexpected axioms or disabled checks: {coqchk_report}")
    hy = hygiene(ctx.coq_dir, cone)
    if hy:
        broken.append("hygiene: " + "; ".join(hy[:5]))

    # ---- correspondence + search ----------------------------------------------------------------
    stats = {}
    unexplained = []  # (stream, case, obs, why)
    witness_state = {}
    tie_errors = []

    def one_round(budget_of, focus, tag):
        for stream in prop.streams:
            if replay is not None and replay.get("stream") not in (None, stream.name):
                continue
            try:
                r = _stream_pass(ctx, prop, stream, findings, budget_of(stream), focus, tag, stats)
            except TranslateError as exc:
                # a stream that needs the translated constants cannot run: the tie is broken (rule 3), not the infrastructure
                msg = f"stream {stream.name} cannot run: translator(T1) refused the current source: {exc}"
                if msg not in broken:
                    broken.append(msg)
                continue
            except Exception as exc:  # pylint: disable=broad-except
                if any("translator(T1)" in b for b in broken):
                    tie_errors.append(f"{stream.name}: cannot run after the translator refused the source: {type(exc).__name__}: {exc}")
                    continue
                raise
            for e in r["errors"]:
                tie_errors.append(f"{stream.name}: {e}")
            bm = set(r["bad_model"])
            for i in r["bad_spec"]:
                case, obs = r["cases"][i], r["obs"][i]
                fid = case.get("__finding__") if isinstance(case, dict) else None
                if fid is not None:
                    witness_state[fid] = "fails"
                attr = r["attrib"].get(i, [])
                attr_ids = {f"D{n}" for n in attr}
                explained = False
                if fid is not None and fid in open_ids and i not in bm:
                    explained = True
                elif attr_ids and attr_ids <= open_ids and i not in bm:
                    explained = True
                if not explained:
                    unexplained.append((stream, r, i, "spec"))
            for i in r["bad_model"]:
                if i not in r["bad_spec"]:
                    unexplained.append((stream, r, i, "model"))
            for i in range(r["n_witness"]):
                fid = r["cases"][i].get("__finding__")
                witness_state.setdefault(fid, "passes")

    if replay is not None:
        class _One(Stream):
            pass
        for stream in prop.streams:
            if replay.get("stream") == stream.name:
                orig = stream.generate
                stream.generate = lambda ctx_, b, f=None, _c=replay["case"]: [_c]
        one_round(lambda s: 1, None, "replay")
    else:
        one_round(lambda s: s.budget(ctx.tier), None, "main")

    spec_fail = [u for u in unexplained if u[3] == "spec"]
    model_fail = [u for u in unexplained if u[3] == "model"]
    if model_fail:
        s, r, i, _ = model_fail[0]
        broken.append(f"correspondence (T2) broken: Model differs from implementation on {len(model_fail)} case(s), e.g. stream {s.name} case {json.dumps(r['cases'][i], default=str)[:300]}")
    if tie_errors:
        broken.append("correspondence could not be evaluated: " + tie_errors[0][:600])

    # rule 3: tie/proof broken and nothing found yet -> widen the search once
    if broken:
        vlog("broken: " + " | ".join(b[:300] for b in broken))
    if broken and not spec_fail and replay is None and ctx.tier == "quick" and not os.environ.get("VERIF_NO_WIDEN"):
        ctx.notes.append("tie or proof broken: search rerun at thorough budget")
        unexplained.clear()
        one_round(lambda s: s.budget("thorough"), "broken", "search")
        spec_fail = [u for u in unexplained if u[3] == "spec"]
        model_fail = [u for u in unexplained if u[3] == "model"]

    # ---- report ---------------------------------------------------------------------------------
    for f in findings:
        if f.get("status") == "open" and witness_state.get(f["id"]) == "fails":
            known_lines.append(f"KNOWN-FINDING: property={prop.id} {f['id']} {f.get('site','')}: {f.get('what','')}")
    for line in known_lines:
        print(line)

    exit_code = 0
    reported = set()
    if spec_fail:
        # report the smallest failing case per stream
        by_stream = {}
        for s, r, i, _ in spec_fail:
            by_stream.setdefault(s.name, []).append((len(json.dumps(r["cases"][i], default=str)), s, r, i))
        for name, lst_ in by_stream.items():
            lst_.sort(key=lambda t: t[0])
            _, s, r, i = lst_[0]
            expl = explain_cases(ctx, s, r["prelude"], [r["terms"][i]], "viol")
            path = _write_replay(ctx, prop, s, r["cases"][i], r["obs"][i], {
                "what": "implementation behaviour violates the Spec on this case", "coq_explain": expl,
                "description": s.describe(r["cases"][i], r["obs"][i]), "other_failing_cases": len(lst_) - 1,
                "broken_obligation": broken or None})
            print(f"VIOLATION property={prop.id} replay={path}")
            violations.append(path)
        exit_code = 1
    elif broken:
        case = obs = None
        s = None
        extra = {"what": "no failing input found; the property is no longer shown to hold", "broken_obligation": broken}
        if model_fail:
            s, r, i, _ = model_fail[0]
            case, obs = r["cases"][i], r["obs"][i]
            extra["coq_explain"] = explain_cases(ctx, s, r["prelude"], [r["terms"][i]], "tie")
            extra["model_mismatch_cases"] = [r2["cases"][i2] for (_s2, r2, i2, _k) in model_fail[:5]]
        path = _write_replay(ctx, prop, s, case, obs, extra)
        print(f"VIOLATION property={prop.id} replay={path} no-failing-input-found")
        violations.append(path)
        exit_code = 1

    # ---- evidence -------------------------------------------------------------------------------
    evaluations = sum(st["evaluations"] for st in stats.values())
    nontrivial = sum(len(st["nontrivial"]) for st in stats.values())
    samples = []
    for name, st in stats.items():
        for smp in st["samples"][:2]:
            samples.append({"stream": name, **(smp if isinstance(smp, dict) else {"value": smp})})
    samples.append({"obligations_sample": statements[:8]})
    tb = list(prop.trusted_base) + [
        "Coq 8.16.1 kernel + vm_compute (no native_compute, no extraction)",
        "axioms per property theorem (Print Assumptions): " + json.dumps(pa, sort_keys=True),
        f"translator T1 (harness/vh/translate.py + props module): {translator_status}",
        "correspondence T2: harness drivers, serialiser coqio.py, HomeAssistant test fixture as environment",
    ]
    cov = {
        "obligations": len(statements),
        "discharged": discharged,
        "checker_cmd": f"cd {ctx.coq_dir} && make -f Makefile.coq -j{NCPU} {' '.join(prop.coq_targets)} && coqc -Q . PV {prop.property_file}",
        "trusted_base": tb,
        "evaluations": evaluations,
        "distinct_nontrivial": nontrivial,
        "rule": "; ".join(f"{s.name}: {getattr(s, 'rule', s.__doc__ or '')}".strip() for s in prop.streams),
        "samples": samples,
        "streams": {
            name: {"evaluations": st["evaluations"], "distinct": len(st["distinct"]), "distinct_nontrivial": len(st["nontrivial"]),
                   "input_distribution": st["hist"], "impl_s": round(st["impl_s"], 2), "coq_s": round(st["coq_s"], 2)}
            for name, st in stats.items()
        },
        "cone_files": cone,
        "build_s": round(build_s, 2),
        "proofs_rebuilt_or_up_to_date": ok,
        "print_assumptions": pa,
        "coqchk": coqchk_report,
        "translator": translator_status,
        "known_findings_reported": known_lines,
        "finding_witness_state": witness_state,
        "broken": broken,
        "notes": ctx.notes,
        "partial": prop.partial_note,
        "repo_root": ctx.repo,
    }
    ev = {
        "property_id": prop.id,
        "tier": ctx.tier,
        "seed": ctx.seed,
        "level": "proof",
        "coverage": cov,
        "assumptions": list(prop.assumptions),
        "wall_s": round(time.time() - t_start, 2),
        "violations": len(violations),
    }
    if replay is None and not ctx.coq_is_copy and not os.environ.get("VERIF_BUDGET"):
        os.makedirs(os.path.join(VERIF, "evidence"), exist_ok=True)
        with open(os.path.join(VERIF, "evidence", f"{prop.id}.json"), "w", encoding="utf-8") as f:
            json.dump(ev, f, indent=1, default=str)
    elif ctx.coq_is_copy:
        out = os.environ.get("VERIF_EVIDENCE_OUT")
        if out:
            with open(out, "w", encoding="utf-8") as f:
                json.dump(ev, f, indent=1, default=str)
    print(f"[{prop.id}] tier={ctx.tier} seed={ctx.seed} obligations={len(statements)} discharged={discharged} "
          f"cases={evaluations} nontrivial={nontrivial} broken={len(broken)} violations={len(violations)} "
          f"wall={ev['wall_s']}s")
    return exit_code


# --------------------------------------------------------------------------------------------
# worker helper: run a python driver under the repo's interpreter
# --------------------------------------------------------------------------------------------
def run_worker(ctx, module, payload, timeout=900, hashseed="0", extra_env=None):
    """Run `python -m module` (under /venv, PYTHONPATH=repo:harness) with JSON on stdin -> JSON from stdout.

    The worker prints exactly one line starting with 'RESULT ' followed by JSON; anything else is log."""
    env = ctx.env({"PYTHONHASHSEED": str(hashseed), **(extra_env or {})})
    p = subprocess.run([PY, "-m", module], input=json.dumps(payload), stdout=subprocess.PIPE, stderr=subprocess.PIPE,
                       text=True, env=env, timeout=timeout, cwd=ctx.scratch)
    for line in reversed(p.stdout.splitlines()):
        if line.startswith("RESULT "):
            return json.loads(line[7:])
    raise RuntimeError(f"worker {module} gave no result (rc={p.returncode}):\nSTDOUT:{p.stdout[-1500:]}\nSTDERR:{p.stderr[-3000:]}")


def split_chunks(lst_, n):
    n = max(1, min(n, NCPU))
    k = (len(lst_) + n - 1) // n if lst_ else 1
    return [lst_[i : i + k] for i in range(0, len(lst_), k)]


def run_workers_parallel(ctx, module, payloads, timeout=900, hashseed="0", extra_env=None):
    """Run several worker processes concurrently; -> list of results in payload order."""
    env = ctx.env({"PYTHONHASHSEED": str(hashseed), **(extra_env or {})})
    procs = []
    for pl in payloads:
        p = subprocess.Popen([PY, "-m", module], stdin=subprocess.PIPE, stdout=subprocess.PIPE, stderr=subprocess.PIPE,
                             text=True, env=env, cwd=ctx.scratch)
        procs.append((p, pl))
    # feed stdin & collect (communicate sequentially is fine: workers run concurrently once started)
    import threading

    outs = [None] * len(procs)

    def comm(i, p, pl):
        try:
            outs[i] = p.communicate(json.dumps(pl), timeout=timeout)
        except subprocess.TimeoutExpired:
            p.kill()
            outs[i] = p.communicate()

    threads = [threading.Thread(target=comm, args=(i, p, pl)) for i, (p, pl) in enumerate(procs)]
    for t in threads:
        t.start()
    for t in threads:
        t.join()
    results = []
    for (p, _pl), (so, se) in zip(procs, outs):
        got = None
        for line in reversed(so.splitlines()):
            if line.startswith("RESULT "):
                got = json.loads(line[7:])
                break
        if got is None:
            raise RuntimeError(f"worker {module} gave no result (rc={p.returncode}):\nSTDOUT:{so[-1500:]}\nSTDERR:{se[-3000:]}")
        results.append(got)
    return results
