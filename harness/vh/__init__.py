"""vh — verification harness for pyscript (see /verif/DESIGN.md §3)."""
