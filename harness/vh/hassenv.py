"""hassenv — run the real pyscript inside a real HomeAssistant object, outside pytest, on a virtual clock.

Usage (inside a worker process run with /venv/bin/python, PYTHONPATH=<repo>:<verif>/harness):

    from vh.hassenv import run_virtual, PyscriptEnv

    async def scenario():
        async with PyscriptEnv(files={"hello.py": SRC}, legacy=False) as env:
            await env.settle()                       # run until nothing can happen without time passing
            env.hass.states.async_set("pyscript.x", "1")
            await env.settle()
            await env.advance(5.0)                   # let 5 virtual seconds pass (timers fire on the way)
            print(env.now())                         # virtual seconds since start (float)
        return ...
    result = run_virtual(scenario())

Facts (DESIGN.md §2.2, Appendix B): virtual time starts at 1000.0 (never 0); `trigger.dt_now`,
`trigger.time.monotonic`, `decorators.timing` clocks are all derived from the loop's virtual time;
quiescence is detected by the selector hook, not by sleeping.
"""
import asyncio
import contextlib
import datetime as dt
import logging
import os
import selectors
import shutil
import tempfile
import time as _real_time
import types
from unittest.mock import patch

START = 1000.0
BASE_DT = dt.datetime(2024, 3, 4, 12, 0, 0)  # a Monday noon; wall clock at virtual START


class _VSelector:
    """Selector wrapper: a positive timeout with nothing ready advances the virtual clock instead of sleeping."""

    def __init__(self, loop, inner):
        self._loop = loop
        self._inner = inner

    def __getattr__(self, name):
        return getattr(self._inner, name)

    def select(self, timeout=None):
        loop = self._loop
        # real work pending in threads: poll for real, do not advance virtual time
        if loop._v_executor_jobs > 0:  # pylint: disable=protected-access
            ev = self._inner.select(0.002)
            return ev
        ev = self._inner.select(0)
        if ev:
            return ev
        if timeout is None:
            # nothing scheduled at all: blocked forever unless a settle waiter exists
            if loop._v_settle_waiters:
                loop._v_fire_settle()
                return []
            # give threads/IO a chance (should not normally happen)
            return self._inner.select(0.01)
        if timeout > 0:
            if loop._v_settle_waiters:
                loop._v_fire_settle()
                return []
            limit = loop._v_limit
            if limit is not None and loop._v_time + timeout > limit:
                # do not run past the driver's target time
                loop._v_time = max(loop._v_time, limit)
                return []
            loop._v_time += timeout
        return []


class VLoop(asyncio.SelectorEventLoop):
    """Event loop whose clock is a counter (virtual seconds)."""

    def __init__(self):
        super().__init__(selectors.DefaultSelector())
        self._v_time = START
        self._v_settle_waiters = []
        self._v_executor_jobs = 0
        self._v_limit = None
        self._selector = _VSelector(self, self._selector)

    def time(self):
        return self._v_time

    def _v_fire_settle(self):
        waiters, self._v_settle_waiters = self._v_settle_waiters, []
        for fut in waiters:
            if not fut.done():
                fut.set_result(None)

    def run_in_executor(self, executor, func, *args):
        self._v_executor_jobs += 1
        fut = super().run_in_executor(executor, func, *args)

        def done(_f):
            self._v_executor_jobs -= 1

        fut.add_done_callback(done)
        return fut


def run_virtual(coro):
    """asyncio.run on a fresh virtual-clock loop."""
    loop = VLoop()
    asyncio.set_event_loop(loop)
    try:
        return loop.run_until_complete(coro)
    finally:
        try:
            pending = [t for t in asyncio.all_tasks(loop) if not t.done()]
            for t in pending:
                t.cancel()
            if pending:
                loop.run_until_complete(asyncio.gather(*pending, return_exceptions=True))
            loop.run_until_complete(loop.shutdown_asyncgens())
        except Exception:  # pylint: disable=broad-except
            pass
        asyncio.set_event_loop(None)
        loop.close()


async def settle(max_rounds=50):
    """Return when nothing can run until virtual time advances (quiescence). Does not advance the clock."""
    loop = asyncio.get_running_loop()
    for _ in range(2):
        fut = loop.create_future()
        loop._v_settle_waiters.append(fut)  # pylint: disable=protected-access
        # a far timer guarantees the selector is called with a positive timeout
        h = loop.call_later(3600.0, lambda: None)
        try:
            await fut
        finally:
            h.cancel()


async def advance(seconds):
    """Let `seconds` of virtual time pass, running everything that becomes due, then settle."""
    loop = asyncio.get_running_loop()
    target = loop.time() + seconds
    await sleep_until(target)
    await settle()


async def sleep_until(target):
    loop = asyncio.get_running_loop()
    old = loop._v_limit  # pylint: disable=protected-access
    loop._v_limit = target
    try:
        while loop.time() < target - 1e-9:
            await asyncio.sleep(max(0.0, target - loop.time()))
    finally:
        loop._v_limit = old


def vnow():
    """virtual seconds since start"""
    return asyncio.get_running_loop().time() - START


def reset_pyscript_class_state():
    """Class-level tables persist across HomeAssistant objects in one process: reset them."""
    from custom_components.pyscript.event import Event
    from custom_components.pyscript.function import Function
    from custom_components.pyscript.global_ctx import GlobalContextMgr
    from custom_components.pyscript.state import State

    Function.hass = None
    Function.unique_task2name = {}
    Function.unique_name2task = {}
    Function.our_tasks = set()
    Function.task2context = {}
    Function.task2cb = {}
    Function.service_cnt = {}
    Function.service2global_ctx = {}
    for name in ("task_reaper", "task_reaper_q", "task_waiter", "task_waiter_q"):
        setattr(Function, name, None)
    State.notify = {}
    State.notify_var_last = {}
    State.persisted_vars = {}
    State.service2args = {}
    Event.notify = {}
    Event.notify_remove = {}
    GlobalContextMgr.contexts = {}
    GlobalContextMgr.name_seq = 0
    try:
        from custom_components.pyscript.mqtt import Mqtt

        Mqtt.notify = {}
        Mqtt.notify_remove = {}
    except Exception:  # pylint: disable=broad-except
        pass
    try:
        from custom_components.pyscript.webhook import Webhook

        Webhook.notify = {}
        Webhook.notify_remove = {}
    except Exception:  # pylint: disable=broad-except
        pass


class _TimeShim:
    """Replacement for the `time` module inside pyscript modules: monotonic() is the loop's virtual time."""

    def __getattr__(self, name):
        return getattr(_real_time, name)

    @staticmethod
    def monotonic():
        try:
            return asyncio.get_running_loop().time()
        except RuntimeError:
            return _real_time.monotonic()

    @staticmethod
    def time():
        try:
            return asyncio.get_running_loop().time()
        except RuntimeError:
            return _real_time.time()


class LogCapture(logging.Handler):
    def __init__(self):
        super().__init__(logging.DEBUG)
        self.records = []

    def emit(self, record):
        try:
            msg = record.getMessage()
        except Exception:  # pylint: disable=broad-except
            msg = str(record.msg)
        self.records.append((record.name, record.levelname, msg))


class PyscriptEnv:
    """A real HomeAssistant with the real pyscript integration set up from real files in a temp config dir."""

    def __init__(self, files=None, legacy=False, allow_all_imports=True, hass_is_global=False, apps_config=None,
                 base_dt=BASE_DT, extra_conf=None, log_level=logging.WARNING, time_zone=None):
        self.files = dict(files or {})
        self.legacy = legacy
        self.conf = {"allow_all_imports": allow_all_imports, "hass_is_global": hass_is_global, "legacy_decorators": legacy}
        if apps_config is not None:
            self.conf["apps"] = apps_config
        if extra_conf:
            self.conf.update(extra_conf)
        self.base_dt = base_dt
        self.tmp = None
        self.hass = None
        self._stack = None
        self.log = LogCapture()
        self.log_level = log_level
        self.time_zone = time_zone
        self._last_dt = None
        self.events = []  # (virtual_time, event_type, data) for events fired by scripts with type starting "pv_"

    # -- files ---------------------------------------------------------------------------------
    def path(self, rel):
        return os.path.join(self.tmp, "pyscript", rel)

    def write(self, rel, text, mtime=None):
        p = self.path(rel)
        os.makedirs(os.path.dirname(p), exist_ok=True)
        with open(p, "w", encoding="utf-8") as f:
            f.write(text)
        if mtime is not None:
            os.utime(p, (mtime, mtime))

    def remove(self, rel):
        with contextlib.suppress(OSError):
            os.remove(self.path(rel))

    # -- clock ---------------------------------------------------------------------------------
    def now(self):
        return vnow()

    def dt_now(self):
        """Wall clock derived from virtual time; strictly increasing per call (a real clock never returns the same
        microsecond twice to sequential callers - pyscript's `now == startup_time` test relies on that)."""
        val = self.base_dt + dt.timedelta(seconds=asyncio.get_running_loop().time() - START)
        last = self._last_dt
        if last is not None and val <= last:
            val = last + dt.timedelta(microseconds=1)
        self._last_dt = val
        return val

    async def settle(self):
        await settle()

    async def advance(self, seconds):
        await advance(seconds)

    # -- lifecycle -----------------------------------------------------------------------------
    async def __aenter__(self):
        from pytest_homeassistant_custom_component.common import async_test_home_assistant
        import homeassistant.loader as loader
        from homeassistant.setup import async_setup_component
        from homeassistant.const import EVENT_HOMEASSISTANT_STARTED

        import custom_components.pyscript as pys
        from custom_components.pyscript import trigger
        from custom_components.pyscript.decorators import timing

        reset_pyscript_class_state()
        self.tmp = tempfile.mkdtemp(prefix="pv_cfg_", dir="/var/tmp")
        os.makedirs(os.path.join(self.tmp, "pyscript"), exist_ok=True)
        for rel, text in self.files.items():
            self.write(rel, text)
        self._stack = contextlib.AsyncExitStack()
        self.hass = await self._stack.enter_async_context(async_test_home_assistant(config_dir=self.tmp))
        if self.time_zone:
            await self.hass.config.async_set_time_zone(self.time_zone)
        self.hass.data.pop(loader.DATA_CUSTOM_COMPONENTS, None)
        shim = _TimeShim()
        conf = {"pyscript": dict(self.conf)}
        self._stack.enter_context(patch("custom_components.pyscript.watchdog_start", return_value=None))
        self._stack.enter_context(patch("homeassistant.config.load_yaml_config_file", side_effect=lambda *a, **k: {"pyscript": dict(self.conf)}))
        self._stack.enter_context(patch.object(trigger, "time", shim))
        if hasattr(timing, "time"):
            self._stack.enter_context(patch.object(timing, "time", shim))
        self._stack.enter_context(patch.object(trigger, "dt_now", self.dt_now))
        if hasattr(timing, "dt_now"):
            self._stack.enter_context(patch.object(timing, "dt_now", self.dt_now))
        lg = logging.getLogger("custom_components.pyscript")
        self._old_level = lg.level
        lg.setLevel(self.log_level)
        lg.addHandler(self.log)
        self._lg = lg

        from homeassistant.core import callback as _ha_callback

        loop = asyncio.get_running_loop()

        @_ha_callback
        def _rec(event):
            if event.event_type.startswith("pv_"):
                self.events.append((round(loop.time() - START, 6), event.event_type, dict(event.data)))

        from homeassistant.const import MATCH_ALL

        self.hass.bus.async_listen(MATCH_ALL, _rec)
        ok = await async_setup_component(self.hass, "pyscript", conf)
        if not ok:
            raise RuntimeError("pyscript setup failed: " + repr(self.log.records[-5:]))
        self.hass.bus.async_fire(EVENT_HOMEASSISTANT_STARTED)
        await settle()
        return self

    async def __aexit__(self, *exc):
        try:
            with contextlib.suppress(Exception):
                await self.hass.async_stop(force=True)
        finally:
            self._lg.removeHandler(self.log)
            self._lg.setLevel(self._old_level)
            with contextlib.suppress(Exception):
                await self._stack.aclose()
            shutil.rmtree(self.tmp, ignore_errors=True)
        return False

    # -- helpers -------------------------------------------------------------------------------
    async def reload(self, global_ctx=None):
        data = {} if global_ctx is None else {"global_ctx": global_ctx}
        await self.hass.services.async_call("pyscript", "reload", data, blocking=True)
        await settle()

    def ledger(self):
        """Canonical snapshot of pyscript's book-keeping and HA registrations (for C09/C12/C15)."""
        from custom_components.pyscript.event import Event
        from custom_components.pyscript.function import Function
        from custom_components.pyscript.state import State

        listeners = {k: v for k, v in self.hass.bus.async_listeners().items()}
        return {
            "state_notify": {k: len(v) for k, v in sorted(State.notify.items())},
            "event_notify": {k: len(v) for k, v in sorted(Event.notify.items())},
            "bus_listeners": dict(sorted(listeners.items())),
            "services": sorted(f"{d}.{s}" for d, svcs in self.hass.services.async_services().items() for s in svcs if d != "homeassistant"),
            "service_cnt": dict(sorted(Function.service_cnt.items())),
            "unique_names": sorted(Function.unique_name2task.keys()),
            "our_tasks": len([t for t in Function.our_tasks if not t.done()]),
            "task2cb": len(Function.task2cb),
            "task2context": len(Function.task2context),
        }


def interp_env_setup(hass, allow_all_imports=True, legacy=False):
    """Initialise pyscript's class-level machinery for interpreter-only use (no integration setup)."""
    from pytest_homeassistant_custom_component.common import MockConfigEntry

    from custom_components.pyscript.const import CONFIG_ENTRY, DOMAIN
    from custom_components.pyscript.decorator import DecoratorRegistry
    from custom_components.pyscript.function import Function
    from custom_components.pyscript.state import State
    from custom_components.pyscript.trigger import TrigTime

    hass.data[DOMAIN] = {CONFIG_ENTRY: MockConfigEntry(domain=DOMAIN, data={"allow_all_imports": allow_all_imports, "legacy_decorators": legacy})}
    Function.init(hass)
    State.init(hass)
    State.register_functions()
    TrigTime.init(hass)
    DecoratorRegistry.init(hass)


def new_interp(name="test", global_sym_table=None):
    """-> (AstEval, GlobalContext) on a fresh context with the standard builtin functions installed."""
    from custom_components.pyscript.eval import AstEval
    from custom_components.pyscript.function import Function
    from custom_components.pyscript.global_ctx import GlobalContext, GlobalContextMgr

    gst = {} if global_sym_table is None else global_sym_table
    gc = GlobalContext(name, global_sym_table=gst, manager=GlobalContextMgr)
    a = AstEval(name, global_ctx=gc)
    Function.install_ast_funcs(a)
    return a, gc
