"""C18 mini language: abstract call-chain programs -> Python source (run by pyscript and by CPython) and the Gallina
term of Interp/Frames.v's [prog]/[entry].  Shared by the generator (props/c18.py) and the worker (workers/c18_attrib.py).

A case is JSON:
  {"sub": "legacy"|"dm", "entry": "load"|"trig"|"svc"|"tc",
   "units": [unit, ...],                 # activations in call order; unit i calls unit i+1 through its {"t":"next"} node
   "fault": {"unit": i, "slot": j, "stmt": stmt} | None}
unit = {"file": "main"|"mod"|"lmod", "kind": "entry"|"module"|"func"|"method"|"wrapper"|"decof"|"rec",
        "name": str, "body": [stmt, ...], "rec": depth (kind rec; its body contains one {"t":"recif"} statement)}
stmt / expr: see render_stmt / render_expr.
Rendering annotates every node dict with its line ("ln", and "alt" for attribute / decorator nodes).
"""
import copy

FILES = {
    "main": {"rel": "hello.py", "id": 1, "ctx": "file.hello", "base": "hello.py"},
    "mod": {"rel": "modules/pvmod.py", "id": 2, "ctx": "modules.pvmod", "base": "pvmod.py"},
    "lmod": {"rel": "modules/pvlmod.py", "id": 3, "ctx": "modules.pvlmod", "base": "pvlmod.py"},
}
MODNAME = {"mod": "pvmod", "lmod": "pvlmod"}
ENTRY_NAME = "pv_entry"

PRELUDE = [
    "import contextlib",
    "class PvErr(Exception):",
    "    pass",
    "class PvErr2(PvErr):",
    "    pass",
    "class PvChain(Exception):",
    "    pass",
    "class PvNever(Exception):",
    "    pass",
]

FAULT_EXPR = {
    "zerodiv": ("1 // 0", "ZeroDivisionError"),
    "index": ("[1][5]", "IndexError"),
    "key": ('{}["k"]', "KeyError"),
    "attr": ("None.pv_nope", "AttributeError"),
    "name": ("pv_undefined_name", "NameError"),
    "type": ('1 + "s"', "TypeError"),
    "value": ('int("x")', "ValueError"),
    "unicode": ('b"\\xff".decode("utf-8")', "UnicodeDecodeError"),
    "overflow": ("2.0 ** 100000", "OverflowError"),
    "stopiter": ("next(iter([]))", "StopIteration"),
}

# statements whose OWN operation raises (no faulting sub-expression): kind -> (source lines, index of the faulting line)
OP_FAULTS = {
    "augdiv": (["pv_x = 1; pv_x /= 0"], 0),
    "augstr": (['pv_x = "s"; pv_x += 5'], 0),
    "augsub": (['pv_d = {"k": 1}; pv_d["k"] //= 0'], 0),
    "augattr": (['pv_o = PvErr("x"); pv_o.args += 5'], 0),
    "augml": (["pv_x = 1", "pv_x //= (", "        0)"], 1),
    "augmlstr": (['pv_x = "s"', "pv_x += [", "        1, 2]"], 1),
    "substore": (["pv_l = []; pv_l[3] = 1"], 0),
    "substoreml": (["pv_l = []", "pv_l[", "        3] = 1"], 1),
    "attrstore": (["pv_o = None; pv_o.pv_attr = 1"], 0),
    "delsub": (['pv_d = {}; del pv_d["k"]'], 0),
    "foriter": (["for pv_i in 5:", "    pv_v = 1"], 0),
    "raisenon": (["raise 5"], 0),
    "ifcmp": (['if 1 < "s":', "    pv_v = 1"], 0),
    "whilecmp": (['while "s" > 1:', "    break"], 0),
    "retneg": (['return -"s"'], 0),
    "annop": (['pv_v: int = 1 + "s"'], 0),
    "walrusop": (['(pv_w := [1][7])'], 0),
    "assertop": (['assert 1 < "s", "m"'], 0),
}

RAISE_KINDS = [
    "Exception", "ValueError", "TypeError", "KeyError", "IndexError", "ZeroDivisionError", "AttributeError", "NameError",
    "RuntimeError", "NotImplementedError", "OSError", "FileNotFoundError", "PermissionError", "TimeoutError", "ConnectionError",
    "LookupError", "ArithmeticError", "OverflowError", "FloatingPointError", "AssertionError", "ImportError",
    "ModuleNotFoundError", "EOFError", "BufferError", "MemoryError", "RecursionError", "ReferenceError", "SystemError",
    "UnicodeError", "StopAsyncIteration", "UserWarning", "DeprecationWarning", "SyntaxError", "UnboundLocalError",
    "BlockingIOError", "IsADirectoryError", "PvErr", "PvErr2", "StopIteration",
]


class W:
    """line-tracking writer"""

    def __init__(self):
        self.lines = []
        self.cur = ""

    @property
    def ln(self):
        return len(self.lines) + 1

    def w(self, s):
        assert "\n" not in s
        self.cur += s

    def nl(self):
        self.lines.append(self.cur)
        self.cur = ""

    def line(self, s):
        assert self.cur == ""
        self.lines.append(s)

    def text(self):
        assert self.cur == ""
        return "\n".join(self.lines) + "\n"


class Ctx:
    """rendering context of one unit"""

    def __init__(self, units, i):
        self.units = units
        self.i = i
        self.unit = units[i]
        self.nxt = units[i + 1] if i + 1 < len(units) else None


def call_target(cx):
    """text of the callable expression for calling the next unit; -> (prefix_line_part, attr_part or None)"""
    u, n = cx.unit, cx.nxt
    if u["kind"] == "wrapper":
        return "pv_f", None
    name = n.get("callname", n["name"])
    qual = "" if n["file"] == u["file"] else MODNAME[n["file"]]
    if n["kind"] == "method":
        obj = (qual + "." if qual else "") + n["cls"] + "()"
        return obj, name
    if qual:
        return qual, name
    return name, None


def render_expr(w, e, cx, ind):
    t = e["t"]
    e["ln"] = w.ln
    if t == "a":
        w.w(e["s"])
    elif t == "f":
        w.w(FAULT_EXPR[e["k"]][0])
    elif t == "o":
        form, subs = e["form"], e["subs"]
        pre, mid, post, ml = OP_FORMS[form]
        w.w(pre)
        if ml:
            w.nl()
            w.w(" " * (ind + 8))
        for k, s in enumerate(subs):
            if k:
                w.w(mid)
            render_expr(w, s, cx, ind)
        w.w(post)
    elif t == "next":
        head, attr = call_target(cx)
        style = e.get("style", "plain")
        if style == "attrml" and attr is None:
            style = "plain"
        args = e.get("args", [])
        n = cx.nxt
        lead = []
        if cx.unit["kind"] == "wrapper":
            tail_args = ["*a", "**k"]
        else:
            tail_args = []
        if n["kind"] == "rec":
            lead = [str(n["rec"])]
        if style == "attrml":
            w.w("(" + head)
            w.nl()
            w.w(" " * (ind + 8))
            e["alt"] = w.ln
            w.w("." + attr + "(")
        else:
            w.w(head + ("." + attr if attr else "") + "(")
        items = [("txt", x) for x in lead] + [("e", a) for a in args] + [("txt", x) for x in tail_args]
        for idx, (kind, val) in enumerate(items):
            if style == "multiline":
                w.nl()
                w.w(" " * (ind + 8))
            elif idx:
                w.w(", ")
            if kind == "txt":
                w.w(val)
            else:
                render_expr(w, val, cx, ind)
            if style == "multiline":
                w.w(",")
        w.w(")")
        if style == "attrml":
            w.w(")")
        # CPython moves the call's line to the attribute only for method calls on objects that are not imported names
        e["style_eff"] = "attrml_plain" if (style == "attrml" and n["kind"] != "method") else style
    else:
        raise ValueError(f"unknown expr {t}")


# form -> (prefix, separator, suffix, break line after prefix)
OP_FORMS = {
    "list": ("[0, ", ", ", "]", False),
    "tuple": ("(0, ", ", ", ")", False),
    "dict": ('{"k": ', ", ", "}", False),
    "sub": ("[", ", ", "][0]", False),
    "cmp": ("(", ", ", " == 1)", False),
    "or": ("(0 or ", ", ", ")", False),
    "ifexp": ("(", ", ", " if 1 else 2)", False),
    "not": ("(not ", ", ", ")", False),
    "str": ("str(", ", ", ")", False),
    "len": ("len([", ", ", "])", False),
    "kw": ("dict(k=", ", ", ")", False),
    "listcomp": ("[", ", ", " for pv_j in range(1)]", False),
    "listcompif": ("[0 for pv_j in range(1) if ", ", ", "]", False),
    "dictcomp": ("{pv_j: ", ", ", " for pv_j in range(1)}", False),
    "setcomp": ("{str(", ", ", ") for pv_j in range(1)}", False),
    "nestcomp": ("[[", ", ", " for pv_j in range(1)] for pv_i in range(1)]", False),
    "listml": ("[0,", ", ", "]", True),
    "tupleml": ("(0,", ", ", ")", True),
    "strml": ("str(", ", ", ")", True),
    "cmpml": ("(0 ==", ", ", ")", True),
    "listcompml": ("[", ", ", " for pv_j in range(1)]", True),
}


def render_body(w, body, cx, ind):
    for s in body:
        render_stmt(w, s, cx, ind)


def render_stmt(w, s, cx, ind):
    t = s["t"]
    pad = " " * ind
    s["ln"] = w.ln
    if t == "s":
        form = s["form"]
        w.w(pad + {"expr": "", "assign": "pv_v = ", "ret": "return ", "assert": "assert [", "subassign": 'pv_d = {}; pv_d["k"] = ',
                   "tupassign": "pv_a, pv_b = ", "aug": "pv_acc = []; pv_acc += [", "ann": "pv_v: object = ",
                   "walrus": "(pv_w := ", "attrassign": 'pv_o = PvErr("x"); pv_o.pv_val = ', "starassign": "pv_a, *pv_b = [",
                   "assertmsg": "assert [1], ", "delsub": "pv_d = {0: 0}; del pv_d[[", "ifexpstmt": "pv_v = 1 if [",
                   }[form])
        render_expr(w, s["e"], cx, ind)
        w.w({"assert": "]", "tupassign": ", 0", "aug": "]", "walrus": ")", "starassign": ", 0]", "delsub": ", 0][1]]",
             "ifexpstmt": "] else 2"}.get(form, ""))
        w.nl()
    elif t == "raise":
        txt = f'raise {s["exc"]}("{s.get("msg", "m")}")'
        if s.get("cause"):
            txt += f' from {s["cause"]}("c")'
        w.w(pad + txt)
        w.nl()
    elif t == "assertfail":
        w.w(pad + 'assert not [1], "pv assert"')
        w.nl()
    elif t == "op":
        lines, idx = OP_FAULTS[s["k"]]
        for i, ln in enumerate(lines):
            if i == idx:
                s["ln"] = w.ln
            w.line(pad + ln)
    elif t == "pass":
        w.w(pad + f"pv_v = {s.get('v', 7)}")
        w.nl()
    elif t == "blk":
        form = s["form"]
        if form == "if":
            w.w(pad + "if [")
            render_expr(w, s["e"], cx, ind)
            w.w("]:")
            w.nl()
            render_body(w, s["body"], cx, ind + 4)
        elif form == "ifnot":
            w.w(pad + "if not [")
            render_expr(w, s["e"], cx, ind)
            w.w("]:")
            w.nl()
            render_body(w, s["body"], cx, ind + 4)
        elif form == "ifelse":
            w.w(pad + "if not [")
            render_expr(w, s["e"], cx, ind)
            w.w("]:")
            w.nl()
            w.line(pad + "    pass")
            w.line(pad + "else:")
            render_body(w, s["body"], cx, ind + 4)
        elif form == "for":
            w.w(pad + "for pv_i in [")
            render_expr(w, s["e"], cx, ind)
            w.w("]:")
            w.nl()
            render_body(w, s["body"], cx, ind + 4)
        elif form == "while":
            w.w(pad + "while [")
            render_expr(w, s["e"], cx, ind)
            w.w("]:")
            w.nl()
            render_body(w, s["body"], cx, ind + 4)
            w.line(pad + "    break")
        elif form == "with":
            w.w(pad + "with contextlib.nullcontext(")
            render_expr(w, s["e"], cx, ind)
            w.w("):")
            w.nl()
            render_body(w, s["body"], cx, ind + 4)
        else:
            raise ValueError(form)
    elif t == "try":
        w.line(pad + "try:")
        render_body(w, s["body"], cx, ind + 4)
        h = s["h"]
        if h == "none":
            w.line(pad + "except PvNever:")
            w.line(pad + "    pass")
        elif h == "finally":
            w.line(pad + "finally:")
            w.line(pad + "    pv_v = 0")
        elif h == "swallow":
            w.line(pad + "except Exception:")
            w.line(pad + "    pass")
        elif h == "from":
            w.line(pad + "except Exception as pv_e:")
            s["hln"] = w.ln
            w.line(pad + '    raise PvChain("c") from pv_e')
        elif h == "ctx":
            w.line(pad + "except Exception:")
            s["hln"] = w.ln
            w.line(pad + '    raise PvChain("c")')
        else:
            raise ValueError(h)
    elif t == "deco":
        s["alt"] = w.ln
        head, attr = call_target(cx)
        w.line(pad + "@" + head + ("." + attr if attr else ""))
        s["ln"] = w.ln
        w.line(pad + f"def pv_inner_{cx.i}(*a, **k):")
        w.line(pad + "    return 0")
    elif t == "import":
        w.line(pad + "import " + MODNAME[cx.nxt["file"]])
    elif t == "recif":
        u = cx.unit
        w.line(pad + "if pv_n > 0:")
        s["rln"] = w.ln
        w.line(pad + f"    return {u['name']}(pv_n - 1)")
    elif t == "ret1":
        w.line(pad + "return 1")
    else:
        raise ValueError(f"unknown stmt {t}")


NATIVE_KINDS = ("compiled", "executor", "lambda")
LAMBDA_PS_NAME = "__lambda_defn_temp__"


def render_native(w, u, cx):
    """a natively compiled script function: @pyscript_compile / @pyscript_executor def, or a file-level lambda"""
    if u["kind"] == "lambda":
        u["defln"] = w.ln
        w.w(f"{u['name']} = lambda *a, **k: ")
        body = [b for b in u["body"] if b["t"] == "s"]
        if body:
            body[0]["ln"] = w.ln
            render_expr(w, body[0]["e"], cx, 0)
        else:
            w.w("1")
        w.nl()
        return
    w.line("@pyscript_compile" if u["kind"] == "compiled" else "@pyscript_executor")
    u["defln"] = w.ln
    w.line(f"def {u['name']}(*a, **k):")
    render_body(w, u["body"], cx, 4)


def fault_line(stmt):
    """line CPython reports for the (single) faulting node inside an abstract statement that was rendered"""
    def find(x):
        if isinstance(x, dict):
            if x.get("t") == "f":
                return x.get("ln")
            for v in x.values():
                r = find(v)
                if r is not None:
                    return r
        elif isinstance(x, list):
            for v in x:
                r = find(v)
                if r is not None:
                    return r
        return None
    def find_raise(x):
        if isinstance(x, dict):
            if x.get("t") in ("raise", "assertfail", "op"):
                return x.get("ln")
            for v in x.values():
                r = find_raise(v)
                if r is not None:
                    return r
        elif isinstance(x, list):
            for v in x:
                r = find_raise(v)
                if r is not None:
                    return r
        return None
    r = find(stmt)
    return r if r is not None else find_raise(stmt)


def slots_of(body, prefix=()):
    """all insertion positions in a statement list (nested lists included), as paths"""
    out = []
    for k in range(len(body) + 1):
        out.append(prefix + (k,))
    for k, s in enumerate(body):
        if s["t"] in ("blk", "try") and not (s["t"] == "blk" and s["form"] == "ifnot"):
            out += slots_of(s["body"], prefix + (k, "b"))
    return out


def insert_at(body, path, stmt):
    if len(path) == 1:
        body.insert(path[0], stmt)
        return
    insert_at(body[path[0]]["body"], path[2:], stmt)


def materialize(case):
    """-> deep copy of the units with the fault statement inserted and bookkeeping statements added"""
    units = copy.deepcopy(case["units"])
    f = case.get("fault")
    if f:
        u = units[f["unit"]]
        slots = slots_of(u["body"])
        st = copy.deepcopy(f["stmt"])
        st["is_fault"] = True
        insert_at(u["body"], slots[f["slot"] % len(slots)], st)
    for u in units:
        if u["kind"] not in ("module", "lambda"):
            u["body"].append({"t": "ret1"})
    return units


def render(case):
    """-> (files: {rel: text}, units annotated with lines)"""
    units = materialize(case)
    entry = case["entry"]
    ws = {}
    used = {u["file"] for u in units}

    def wr(f):
        if f not in ws:
            w = W()
            for ln in PRELUDE:
                w.line(ln)
            ws[f] = w
        return ws[f]

    # imports of the function library by files that call into it
    for i, u in enumerate(units[:-1]):
        n = units[i + 1]
        if n["file"] != u["file"] and n["kind"] != "module":
            w = wr(u["file"])
            imp = "import " + MODNAME[n["file"]]
            if imp not in w.lines:
                w.line(imp)
    for f in used:
        wr(f)
    # defs, deepest first; module bodies last in their file
    for i in range(len(units) - 1, -1, -1):
        u = units[i]
        cx = Ctx(units, i)
        w = wr(u["file"])
        k = u["kind"]
        if k in ("module", "wrapper"):
            continue
        if k in NATIVE_KINDS:
            render_native(w, u, cx)
            continue
        if i > 0 and units[i - 1]["kind"] == "wrapper":
            wu = units[i - 1]
            wcx = Ctx(units, i - 1)
            w.line(f"def pvdeco_{i - 1}(pv_f):")
            wu["defln"] = w.ln
            w.line(f"    def {wu['name']}(*a, **k):")
            render_body(w, wu["body"], wcx, 8)
            w.line(f"    return {wu['name']}")
            w.line(f"@pvdeco_{i - 1}")
        if k == "entry":
            if entry == "trig":
                w.line('@event_trigger("pv_go")')
            elif entry == "svc":
                w.line("@service")
            elif entry == "tc":
                w.line('@event_trigger("pv_go")')
                w.line("def pv_starter(**kw):")
                w.line(f"    task.create({u['name']})")
            u["defln"] = w.ln
            w.line(f"def {u['name']}(*a, **kw):")
            render_body(w, u["body"], cx, 4)
        elif k == "method":
            w.line(f"class {u['cls']}:")
            u["defln"] = w.ln
            w.line(f"    def {u['name']}(self, *a, **k):")
            render_body(w, u["body"], cx, 8)
        elif k == "rec":
            u["defln"] = w.ln
            w.line(f"def {u['name']}(pv_n=0, *a, **k):")
            render_body(w, u["body"], cx, 4)
        elif k == "decof":
            u["defln"] = w.ln
            w.line(f"def {u['name']}(pv_f, *a, **k):")
            render_body(w, u["body"], cx, 4)
            # a decorator returns the function it was given
            w.lines[-1] = w.lines[-1].replace("return 1", "return pv_f")
        else:
            u["defln"] = w.ln
            w.line(f"def {u['name']}(*a, **k):")
            render_body(w, u["body"], cx, 4)
    for i, u in enumerate(units):
        if u["kind"] == "module":
            render_body(wr(u["file"]), u["body"], Ctx(units, i), 0)
    files = {FILES[f]["rel"]: w.text() for f, w in ws.items()}
    return files, units


# ------------------------------------------------------------------------------------------------
# Gallina
# ------------------------------------------------------------------------------------------------
class Names:
    """string table: function names / interpreter names -> N ids (1..3 are reserved by Frames.v)"""

    def __init__(self):
        self.tbl = {}

    def id(self, s):
        if s not in self.tbl:
            self.tbl[s] = 10 + len(self.tbl)
        return self.tbl[s]


def q_node(ln, kind="NkPlain", alt=0):
    return f"(mkNode {kind} {ln}%N {alt}%N)"


def q_list(items):
    return "[" + "; ".join(items) + "]"


def q_expr(e, env):
    t = e["t"]
    if t == "a":
        return f"(EAtom {q_node(e['ln'])})"
    if t == "f":
        return f"(EFault {q_node(e['ln'])})"
    if t == "o":
        return f"(EOp {q_node(e['ln'])} {q_list(q_expr(s, env) for s in e['subs'])} false)"
    if t == "next":
        node = q_node(e["ln"], "NkAttr", e["alt"]) if e.get("style_eff") == "attrml" else q_node(e["ln"])
        args = q_list(q_expr(a, env) for a in e.get('args', []))
        nat = env.get("native")
        if nat == "returns":
            return f"(EOp {node} {args} false)"
        if nat is not None:
            # arguments first (they cannot fault here), then the native function raises with its own frame
            return f"(EOp {node} [EOp {node} {args} false; ENative {node} [{nat}]] false)"
        return f"(ECall {node} {args} {env['callee']})"
    raise ValueError(t)


def q_stmt(s, env):
    t = s["t"]
    if t == "s":
        ctor = "SReturn" if s["form"] == "ret" else "SExpr"
        return f"({ctor} {q_node(s['ln'])} [{q_expr(s['e'], env)}])"
    if t == "raise":
        return f"(SRaise {q_node(s['ln'])} {'true' if s.get('cause') else 'false'})"
    if t in ("assertfail", "op"):
        return f"(SRaise {q_node(s['ln'])} false)"
    if t == "pass":
        return f"(SExpr {q_node(s['ln'])} [])"
    if t == "ret1":
        return f"(SReturn {q_node(s['ln'])} [])"
    if t == "blk":
        enter = "false" if s["form"] == "ifnot" else "true"
        bk = "BkWith" if s["form"] == "with" else "BkPlain"
        return (f"(SBlock {q_node(s['ln'])} {bk} [{q_expr(s['e'], env)}] {enter} {q_list(q_stmt(b, env) for b in s['body'])})")
    if t == "try":
        h = {"none": "HNone", "finally": "HNone", "swallow": "HSwallow"}.get(s["h"])
        if h is None:
            h = f"(HRaise {q_node(s['hln'])})"
        return f"(STry {q_node(s['ln'])} {q_list(q_stmt(b, env) for b in s['body'])} {h})"
    if t == "deco":
        return f"(SExpr {q_node(s['ln'])} [ECall {q_node(s['ln'], 'NkDeco', s['alt'])} [] {env['callee']}])"
    if t == "import":
        return f"(SExpr {q_node(s['ln'])} [ECall {q_node(s['ln'])} [] {env['callee']}])"
    if t == "recif":
        if env["rec_enter"]:
            return (f"(SBlock {q_node(s['ln'])} BkPlain [] true [SReturn {q_node(s['rln'])} "
                    f"[ECall {q_node(s['rln'])} [] (CFunc {env['rec_next']})]])")
        return f"(SBlock {q_node(s['ln'])} BkPlain [] false [])"
    raise ValueError(t)


def to_gallina(case, units, names):
    """-> (prog term, entry term).  Function table: one entry per activation."""
    # activation indices
    fidx = {}
    nf = 0
    mods = []
    midx = {}
    native = None  # Gallina nentry of the native leaf unit if the fault is inside it, "returns" otherwise
    for i, u in enumerate(units):
        if u["kind"] in NATIVE_KINDS:
            native = "returns"
            flt = [b for b in u["body"] if b.get("is_fault")]
            if flt:
                ln = fault_line(flt[0])
                pyname = "<lambda>" if u["kind"] == "lambda" else u["name"]
                psname = LAMBDA_PS_NAME if u["kind"] == "lambda" else u["name"]
                native = f"({FILES[u['file']]['id']}%N, {names.id(pyname)}%N, {names.id(psname)}%N, {ln}%N)"
            continue
        if u["kind"] == "module":
            midx[i] = len(mods)
            mods.append(i)
        else:
            fidx[i] = nf
            nf += (u["rec"] + 1) if u["kind"] == "rec" else 1

    def callee_of(i):
        if i + 1 >= len(units):
            return "(CFunc 9999)"
        n = units[i + 1]
        if n["kind"] in NATIVE_KINDS:
            return "(CFunc 9999)"
        if n["kind"] == "module":
            return f"(CMod {midx[i + 1]})"
        return f"(CFunc {fidx[i + 1]})"

    funcs = []
    for i, u in enumerate(units):
        if u["kind"] == "module" or u["kind"] in NATIVE_KINDS:
            continue
        fid = FILES[u["file"]]["id"]
        nm = names.id(u["name"])
        ren = "None"
        if u["kind"] == "wrapper":
            ren = f"(Some {names.id(units[i + 1]['name'])}%N)"
        reps = (u["rec"] + 1) if u["kind"] == "rec" else 1
        for t in range(reps):
            env = {"callee": callee_of(i), "rec_enter": t < reps - 1, "rec_next": fidx[i] + t + 1,
                   "native": native if (i + 1 < len(units) and units[i + 1]["kind"] in NATIVE_KINDS) else None}
            body = q_list(q_stmt(s, env) for s in u["body"])
            funcs.append(f"(mkFunc {fid}%N {nm}%N {ren} {body})")
    modterms = []
    for i in mods:
        u = units[i]
        env = {"callee": callee_of(i), "native": native if (i + 1 < len(units) and units[i + 1]["kind"] in NATIVE_KINDS) else None}
        modterms.append(f"(mkMod {FILES[u['file']]['id']}%N {q_list(q_stmt(s, env) for s in u['body'])})")
    prog = f"(mkProg {q_list(funcs)} {q_list(modterms)})"
    if case["entry"] == "load":
        entry = "(EnModule 0)"
    else:
        cxname = names.id(FILES["main"]["ctx"] + "." + units[0]["name"])
        entry = f"(EnFunc 0 {cxname}%N {'true' if case['entry'] == 'svc' else 'false'})"
    return prog, entry


def q_fname(file_key, name, names):
    """observed function name -> Gallina fname"""
    if name == "<module>":
        return f"(FnModule {FILES[file_key]['id']}%N)"
    for k, f in FILES.items():
        if name == f["ctx"]:
            return f"(FnModule {f['id']}%N)"
    return f"(FnNamed {names.id(name)}%N)"


def q_exc(chain, names):
    """[[ [filekey, name, line], ...], ...] -> Gallina exc_py"""
    return q_list(q_list(f"({FILES[fk]['id']}%N, {q_fname(fk, nm, names)}, {ln}%N)" for fk, nm, ln in tb) for tb in chain)


def file_key_of(path):
    base = path.replace("\\", "/").rsplit("/", 1)[-1]
    for k, f in FILES.items():
        if f["base"] == base:
            return k
    return None
