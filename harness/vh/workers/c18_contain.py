"""Worker (C18 containment and load): drive every user-code entry point of the real pyscript (inside a real
HomeAssistant, virtual clock) with user code that returns or raises a chosen exception, occurrence by occurrence, and
record what is visible from outside: was the user code run, error records per logger, asyncio's exception handler,
exceptions reaching the caller, whether triggers keep serving.
stdin JSON {"op": "contain"|"load", "cases": [...]} -> 'RESULT <json list>'."""
import asyncio
import gc
import json
import logging
import sys

from vh.hassenv import PyscriptEnv, run_virtual

MAIN = '''
class PvErr(Exception):
    pass
class PvBase(BaseException):
    pass

def pv_raise(kind):
    if kind == "ret":
        return 0
    if kind.startswith("from:"):
        parts = kind.split(":")
        raise pv_class(parts[1])("m") from pv_class(parts[2])("c")
    raise pv_class(kind)("m")

def pv_class(name):
    if name == "PvErr":
        return PvErr
    if name == "PvBase":
        return PvBase
    import builtins
    return getattr(builtins, name)

def pv_boom(tag):
    kind = state.get("pyscript.pvk")
    event.fire("pv_boom", tag=tag)
    return pv_raise(kind)

@event_trigger("pv_tf")
def pv_tf(**kw):
    pv_boom("tf")

@event_trigger("pv_filt", "pv_boom('filt') == 0")
def pv_tfilt(**kw):
    event.fire("pv_ran", who="filt")

@state_trigger("pv_boom('st') == 0 and pyscript.pvx != 'zz'", watch=["pyscript.pvx"])
def pv_tstate(**kw):
    event.fire("pv_ran", who="st")

@event_trigger("pv_act")
@state_active("pv_boom('act') == 0")
def pv_tact(**kw):
    event.fire("pv_ran", who="act")

@event_trigger("pv_tc")
def pv_ttc(**kw):
    task.create(pv_boom, "tc")

def pv_cb0(kind):
    event.fire("pv_cbrun", i=0)
    pv_raise(kind)

def pv_cb1(kind):
    event.fire("pv_cbrun", i=1)
    pv_raise(kind)

def pv_cb2(kind):
    event.fire("pv_cbrun", i=2)
    pv_raise(kind)

@event_trigger("pv_cb")
def pv_tcb(kinds=None, **kw):
    event.fire("pv_boom", tag="cb")
    cbs = [pv_cb0, pv_cb1, pv_cb2]
    for i, kind in enumerate(kinds):
        task.add_done_callback(task.current_task(), cbs[i], kind)

@service
def pv_svc():
    pv_boom("svc")

@event_trigger("pv_other")
def pv_other(**kw):
    event.fire("pv_ran", who="other")

def pv_slow(tag):
    kind = state.get("pyscript.pvk")
    event.fire("pv_boom", tag=tag)
    task.wait_until(event_trigger="pv_resume")
    return pv_raise(kind)

@event_trigger("pv_tf_late")
def pv_tf_late(**kw):
    pv_slow("tf")

@event_trigger("pv_tc_late")
def pv_ttc_late(**kw):
    task.create(pv_slow, "tc")

@service
def pv_svc_late():
    pv_slow("svc")
'''
OTHER = '''
@event_trigger("pv_other")
def pv_other2(**kw):
    event.fire("pv_ran", who="other2")
'''
MAIN_LOGGER = "custom_components.pyscript.file.hello"
TAG = {"ETrigFunc": "tf", "EExprEvent": "filt", "EExprState": "st", "EActive": "act", "ETaskCreate": "tc", "EService": "svc"}


def count_records(records, prefix):
    script = other = 0
    for name, level, _msg in records:
        if level not in ("ERROR", "CRITICAL"):
            continue
        if name == prefix or name.startswith(prefix + "."):
            script += 1
        else:
            other += 1
    return script, other


BASE_KINDS = ("GeneratorExit", "PvBase")


def expected_text(kind):
    if kind == "StopIteration":
        return "RuntimeError: coroutine raised StopIteration"
    if kind.startswith("from:"):
        return kind.split(":")[1] + ": "
    return kind + ": "


def check_content(records, oc):
    """every record on the script's logger names the exception type and message and has a traceback with a script frame"""
    kinds = oc[1] if oc[0] == "OCallbacks" else [oc[1]]
    kinds = [k for k in kinds if k != "ret" and k not in BASE_KINDS]
    ok = True
    for name, level, msg in records:
        if level != "ERROR" or not (name == MAIN_LOGGER or name.startswith(MAIN_LOGGER + ".")):
            continue
        if "Traceback" in msg and "failed" in msg.splitlines()[0]:
            continue  # the _cycle task's own report of a BaseException (exc_info)
        if not kinds:
            continue
        if not any((expected_text(k) in msg) and ("m" in msg) for k in kinds):
            ok = False
        if 'hello.py", line' not in msg:
            ok = False
    return ok


async def do_reload(env, state, mode, stage):
    """edit: rewrite hello.py (one more service) and reload; unload: stage 1 removes the file and reloads, stage 2 restores it"""
    state["edit"] += 1
    text = MAIN + f"\n# edit {state['edit']}\n@service\ndef pv_extra_{state['edit']}():\n    pass\n"
    if mode == "unload" and stage == 1:
        env.remove("hello.py")
    else:
        env.write("hello.py", text, mtime=2000000000 + 100 * state["edit"])
    await env.hass.services.async_call("pyscript", "reload", {}, blocking=True)
    await env.settle()


async def contain_case(case):
    handler_calls = []
    loop = asyncio.get_running_loop()
    loop.set_exception_handler(lambda l, c: handler_calls.append(repr(c.get("exception"))))
    out = []
    async with PyscriptEnv(files={"hello.py": MAIN, "other.py": OTHER}, legacy=case["sub"] == "legacy", log_level=logging.ERROR) as env:
        hass = env.hass
        hass.states.async_set("pyscript.pvk", "ret")
        hass.states.async_set("pyscript.pvx", "0")
        await env.settle()
        setup_records = len(env.log.records)
        xval = 0
        content_ok = True
        rstate = {"edit": 0}
        for oc in case["hist"]:
            n0, e0 = len(env.log.records), len(env.events)
            handler_calls.clear()
            caller_exc = None
            entry = oc[0]
            if entry == "OReload":
                try:
                    await do_reload(env, rstate, oc[1], 1)
                    if oc[1] == "unload":
                        await do_reload(env, rstate, oc[1], 2)
                except BaseException as exc:  # pylint: disable=broad-except
                    caller_exc = repr(exc)
                script, other = count_records(env.log.records[n0:], MAIN_LOGGER)
                out.append({"served": True, "script": script, "other": other, "sink": "SkHA" if caller_exc else "SkNone", "ran": [],
                            "detail": [(n, m[-200:]) for n, _l, m in env.log.records[n0:]][:4], "handler": [], "caller": caller_exc})
                continue
            if entry == "OLate":
                _e, late_entry, kind, mode = oc
                call_task = None
                try:
                    hass.states.async_set("pyscript.pvk", kind)
                    await env.settle()
                    if late_entry == "ETrigFunc":
                        hass.bus.async_fire("pv_tf_late", {})
                    elif late_entry == "ETaskCreate":
                        hass.bus.async_fire("pv_tc_late", {})
                    else:
                        call_task = asyncio.ensure_future(hass.services.async_call("pyscript", "pv_svc_late", {}, blocking=True))
                    await env.settle()
                    await do_reload(env, rstate, mode, 1)
                    hass.bus.async_fire("pv_resume", {})
                    await env.settle()
                    if mode == "unload":
                        await do_reload(env, rstate, mode, 2)
                    if call_task is not None:
                        await call_task
                    await env.settle()
                except BaseException as exc:  # pylint: disable=broad-except
                    caller_exc = repr(exc)
                if kind != "ret":
                    gc.collect()
                    await env.settle()
                evs = env.events[e0:]
                served = any(t == "pv_boom" and d.get("tag") == TAG[late_entry] for _v, t, d in evs)
                script, other = count_records(env.log.records[n0:], MAIN_LOGGER)
                content_ok = content_ok and check_content(env.log.records[n0:], [late_entry, kind])
                sink = "SkHA" if caller_exc else ("SkAsyncio" if handler_calls else "SkNone")
                out.append({"served": served, "script": script, "other": other, "sink": sink, "ran": [],
                            "detail": [(n, m[-200:]) for n, _l, m in env.log.records[n0:]][:4], "handler": list(handler_calls), "caller": caller_exc})
                continue
            try:
                if entry == "OCallbacks":
                    kinds = oc[1]
                    hass.bus.async_fire("pv_cb", {"kinds": kinds})
                else:
                    hass.states.async_set("pyscript.pvk", oc[1])
                    await env.settle()
                    if entry == "ETrigFunc":
                        hass.bus.async_fire("pv_tf", {})
                    elif entry == "EExprEvent":
                        hass.bus.async_fire("pv_filt", {})
                    elif entry == "EExprState":
                        xval += 1
                        hass.states.async_set("pyscript.pvx", str(xval))
                    elif entry == "EActive":
                        hass.bus.async_fire("pv_act", {})
                    elif entry == "ETaskCreate":
                        hass.bus.async_fire("pv_tc", {})
                    elif entry == "EService":
                        await hass.services.async_call("pyscript", "pv_svc", {}, blocking=True)
                await env.settle()
            except BaseException as exc:  # pylint: disable=broad-except
                caller_exc = repr(exc)
            raising = entry == "OCallbacks" and any(k != "ret" for k in oc[1]) or entry != "OCallbacks" and oc[1] != "ret"
            if raising:
                gc.collect()
                await env.settle()
            evs = env.events[e0:]
            tag = "cb" if entry == "OCallbacks" else TAG[entry]
            served = any(t == "pv_boom" and d.get("tag") == tag for _v, t, d in evs)
            script, other = count_records(env.log.records[n0:], MAIN_LOGGER)
            content_ok = content_ok and check_content(env.log.records[n0:], oc)
            sink = "SkHA" if caller_exc else ("SkAsyncio" if handler_calls else "SkNone")
            ran = []
            if entry == "OCallbacks":
                got = {d.get("i") for _v, t, d in evs if t == "pv_cbrun"}
                ran = [i in got for i in range(len(oc[1]))]
            out.append({"served": served, "script": script, "other": other, "sink": sink, "ran": ran,
                        "detail": [(n, m[-200:]) for n, _l, m in env.log.records[n0:]][:4], "handler": list(handler_calls), "caller": caller_exc})
        e0 = len(env.events)
        hass.bus.async_fire("pv_other", {})
        await env.settle()
        who = sorted(d.get("who") for _v, t, d in env.events[e0:] if t == "pv_ran")
        return {"obs": out, "others_ok": who == ["other", "other2"] and content_ok, "content_ok": content_ok,
                "setup_records": setup_records}


# ---------------------------------------------------------------------------------------------------------------
def load_file_text(name, kind, shared=None):
    """a @service and a trigger BEFORE the statement that may fail, and another pair after it; shared = (service name, role):
    a function claiming a service name that another file (the owner, loaded first) claims too"""
    def pair(tag):
        return f'''
@service
def {tag}_svc_{name}():
    event.fire("pv_ran", who="{name}", piece="{tag}_svc")

@event_trigger("pv_ping")
def {tag}_trig_{name}(**kw):
    event.fire("pv_ran", who="{name}", piece="{tag}_trig")
'''
    sh = ""
    if shared:
        sh = f'''
@service("pyscript.{shared[0]}")
def shared_{name}():
    event.fire("pv_ran", who="{name}", piece="shared")
'''
    if kind == "ret":
        mid = "x = 1\n"
    elif kind == "syntax":
        mid = "def broken(:\n    pass\n"
    else:
        mid = f'''
class PvErr(Exception):
    pass
class PvBase(BaseException):
    pass
def pv_fail():
    raise {kind}("m")
x = 1
pv_fail()
'''
    return pair("early") + sh + mid + pair("late")


PIECES = ["early_svc", "early_trig", "late_svc", "late_trig"]
CASE_NO = [0]
CONFLICT_TEXT = "already defined in"


def file_logs(records, name):
    """error records on the file's logger, not counting the report of a refused duplicate service name"""
    prefix = "custom_components.pyscript.file." + name
    n = 0
    for lname, level, msg in records:
        if level in ("ERROR", "CRITICAL") and (lname == prefix or lname.startswith(prefix + ".")) and CONFLICT_TEXT not in msg:
            n += 1
    return n


async def observe_all(env, names, n0, shared):
    """-> {name: (loaded, residue, logs, detail)}, shared_ok"""
    from custom_components.pyscript.function import Function

    hass = env.hass
    e0 = len(env.events)
    hass.bus.async_fire("pv_ping", {})
    await env.settle()
    registered = {}
    for name in names:
        for tag in ("early", "late"):
            svc = f"{tag}_svc_{name}"
            has = hass.services.has_service("pyscript", svc)
            registered[(name, f"{tag}_svc")] = has or Function.service_cnt.get(f"pyscript.{svc}", 0) > 0
            if has:
                try:
                    await hass.services.async_call("pyscript", svc, {}, blocking=True)
                except BaseException:  # pylint: disable=broad-except
                    pass
    shared_has = None
    if shared:
        shared_has = hass.services.has_service("pyscript", shared["svc"])
        if shared_has:
            try:
                await hass.services.async_call("pyscript", shared["svc"], {}, blocking=True)
            except BaseException:  # pylint: disable=broad-except
                pass
    await env.settle()
    ran = {(d.get("who"), d.get("piece")) for _v, t, d in env.events[e0:] if t == "pv_ran"}
    res = {}
    for name in names:
        live_all = all((name, pc) in ran for pc in PIECES) and all(registered[(name, pc)] for pc in ("early_svc", "late_svc"))
        live_any = any((name, pc) in ran for pc in PIECES) or any(registered[(name, pc)] for pc in ("early_svc", "late_svc"))
        res[name] = (live_all, live_any, file_logs(env.log.records[n0:], name),
                     {pc: [(name, pc) in ran, registered.get((name, pc))] for pc in PIECES})
    shared_ok = True
    shared_detail = None
    if shared:
        who = sorted(w for w, pc in ran if pc == "shared")
        owner_live = res[shared["owner"]][0]
        # while the owner file is loaded the name is its service and runs its function, and never the other file's
        shared_ok = (who == [shared["owner"]] and shared_has) if owner_live else (who == [] or who == [shared["dup"]])
        shared_detail = {"has": shared_has, "ran": who, "owner_live": owner_live}
    return res, shared_ok, shared_detail


async def load_case(case):
    handler_calls = []
    loop = asyncio.get_running_loop()
    loop.set_exception_handler(lambda l, c: handler_calls.append(repr(c.get("exception"))))
    # names are made unique per case: pyscript objects of an earlier case that are garbage-collected late (EvalFuncVar.__del__
    # -> trigger_stop -> service_remove) would otherwise remove the same-named service of the case now running
    CASE_NO[0] += 1
    sfx = f"n{CASE_NO[0]}"
    phases = case["phases"]
    shared = None
    if case.get("shared"):
        shared = {"svc": "shared_" + sfx, "owner": case["shared"]["owner"] + sfx, "dup": case["shared"]["dup"] + sfx}

    def text(name, kind, dup_on):
        role = None
        if shared and (name == shared["owner"] or (name == shared["dup"] and dup_on)):
            role = (shared["svc"], "x")
        return load_file_text(name, kind, role)

    first = [(n + sfx, k) for n, k in phases[0]["files"]]
    names = [n for n, _k in first]
    files = {f"{n}.py": text(n, k, phases[0].get("dup", True)) for n, k in first}
    env = PyscriptEnv(files=files, legacy=case["sub"] == "legacy", log_level=logging.ERROR)
    out = []
    esc = {"escaped": True, "loaded": [], "residue": [], "logs": [], "others_ok": True}
    try:
        try:
            await env.__aenter__()
        except BaseException as exc:  # pylint: disable=broad-except
            out.append(dict(esc, escaped_exc=repr(exc)[:200]))
            return {"phases": out}
        await env.settle()
        res, shared_ok, sd = await observe_all(env, names, 0, shared)
        out.append({"escaped": False, "loaded": [res[n][0] for n in names], "residue": [res[n][1] for n in names],
                    "logs": [res[n][2] for n in names], "others_ok": shared_ok, "detail": [res[n][3] for n in names], "shared": sd})
        prev = res
        for k, ph in enumerate(phases[1:], 1):
            n0 = len(env.log.records)
            escaped = None
            if ph["t"] == "all":
                todo = [(n + sfx, kd) for n, kd in ph["files"]]
                data = {}
            else:
                todo = [(ph["name"] + sfx, ph["kind"])]
                data = {"global_ctx": "file." + ph["name"] + sfx}
            for n, kd in todo:
                env.write(f"{n}.py", text(n, kd, ph.get("dup", True)), mtime=2000000000 + 100 * k)
            try:
                await env.hass.services.async_call("pyscript", "reload", data, blocking=True)
            except BaseException as exc:  # pylint: disable=broad-except
                escaped = repr(exc)[:200]
            await env.settle()
            # objects of the replaced contexts are finalised now (EvalFuncVar.__del__ -> trigger_stop), as they would be some time
            # later in a running system: whatever they release must be their own
            gc.collect()
            await env.settle()
            if escaped is not None:
                out.append(dict(esc, escaped_exc=escaped))
                break
            res, shared_ok, sd = await observe_all(env, names, n0, shared)
            sel = [n for n, _kd in todo]
            others_ok = shared_ok
            for n in names:
                if n not in sel and (res[n][0] != prev[n][0] or res[n][1] != prev[n][1] or res[n][2] != 0):
                    others_ok = False
            out.append({"escaped": False, "loaded": [res[n][0] for n in sel], "residue": [res[n][1] for n in sel],
                        "logs": [res[n][2] for n in sel], "others_ok": others_ok, "shared": sd,
                        "detail": {n: res[n][3] for n in names}})
            prev = res
        return {"phases": out, "handler": list(handler_calls),
                "others": [(n, m[-160:]) for n, l, m in env.log.records if l == "ERROR" and not n.startswith("custom_components.pyscript.file.")][:6]}
    finally:
        if env.hass is not None:
            try:
                await env.__aexit__(None, None, None)
            except BaseException:  # pylint: disable=broad-except
                pass


async def warm_up():
    async with PyscriptEnv(files={"warm.py": "x = 1\n"}, legacy=False, log_level=logging.ERROR) as env:
        await env.settle()


def main():
    req = json.loads(sys.stdin.read())
    out = []
    # everything imported / created so far (Home Assistant's modules) is moved out of the collector's way, so that the
    # per-occurrence gc.collect() needed to see 'Task exception was never retrieved' only walks the case's own objects
    run_virtual(warm_up())
    gc.collect()
    gc.freeze()
    for case in req["cases"]:
        try:
            if req["op"] == "contain":
                out.append(run_virtual(contain_case(case)))
            else:
                out.append(run_virtual(load_case(case)))
        except BaseException as exc:  # pylint: disable=broad-except
            out.append({"error": repr(exc)[:400]})
        gc.collect()  # finalise this case's pyscript objects now, not in the middle of the next case
    print("RESULT " + json.dumps(out))


main()
