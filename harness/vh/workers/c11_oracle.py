"""External oracle for C11: plain CPython importing the generated sources as ordinary modules/packages.
No pyscript code is imported here.  stdin JSON {"cases": [{"files", "fires", "ctxmap", "load_order"}]} -> 'RESULT <json>'.

Layout: <tmp>/a.py (pyscript/a.py), <tmp>/m1.py (pyscript/modules/m1.py), <tmp>/pkg/__init__.py
(pyscript/modules/pkg/__init__.py), <tmp>/app1/__init__.py (pyscript/apps/app1/__init__.py), <tmp>/s1.py (pyscript/scripts/s1.py).
The names pyscript provides as builtins (task, event_trigger) are put into `builtins` as minimal stand-ins:
task.create(f) runs f() at once and swallows its exception (the harness waits for the task right away),
@event_trigger(ev) records the function; the driver then calls the recorded functions in the order of the firings."""
import builtins
import importlib
import json
import os
import shutil
import sys
import tempfile
import types

REG = []  # [module name, function name, event or state variable, function, filter expression or None, globals of the decorating file]


class _Task:
    @staticmethod
    def create(func, *args, **kwargs):
        try:
            func(*args, **kwargs)
        except Exception:  # pylint: disable=broad-except
            pass
        return object()

    @staticmethod
    def wait(tasks, **_kw):
        return (set(tasks), set())

    @staticmethod
    def sleep(_secs):
        return None


def _event_trigger(ev, expr=None, *_a, **_k):
    glob = sys._getframe(1).f_globals  # pylint: disable=protected-access  # the file in which the decorator is written

    def deco(func):
        REG.append([glob["__name__"], func.__name__, ev, func, expr, glob])
        return func

    return deco


def _state_trigger(expr, *_a, **_k):
    glob = sys._getframe(1).f_globals  # pylint: disable=protected-access
    var = expr.split("pyscript.", 1)[1].split(")", 1)[0]

    def deco(func):
        REG.append([glob["__name__"], func.__name__, var, func, expr, glob])
        return func

    return deco


def _state_active(expr, *_a, **_k):
    glob = sys._getframe(1).f_globals  # pylint: disable=protected-access

    def deco(func):
        func._pv_active = (expr, glob)  # pylint: disable=protected-access
        return func

    return deco


def _guard_ok(expr, glob, local):
    if expr is None:
        return True
    try:
        return bool(eval(expr, glob, local))  # pylint: disable=eval-used
    except Exception:  # pylint: disable=broad-except
        return False


CTXMAP = {}


class _Pyscript:
    @staticmethod
    def get_global_ctx():
        # the global context of the code that is running = the module whose globals the calling frame uses
        return CTXMAP.get(sys._getframe(1).f_globals.get("__name__"), "?")  # pylint: disable=protected-access


builtins.task = _Task
builtins.event_trigger = _event_trigger
builtins.state_trigger = _state_trigger
builtins.state_active = _state_active
builtins.pyscript = _Pyscript


def dest(rel):
    for pre in ("modules/", "apps/", "scripts/"):
        if rel.startswith(pre):
            return rel[len(pre):]
    return rel


def plain(v, ctxmap, key=None):
    if isinstance(v, bool):
        return ["o", "bool"]
    if isinstance(v, int):
        return ["i", v]
    if v is None:
        return ["n"]
    if isinstance(v, str):
        return ["s", v]
    if isinstance(v, list) and all(isinstance(x, str) for x in v):
        return ["l", list(v)]
    if isinstance(v, types.ModuleType):
        c = ctxmap.get(v.__name__)
        return ["m", c] if c is not None and sys.modules.get(v.__name__) is v else ["o", "module:" + v.__name__]
    if isinstance(v, types.FunctionType):
        c = ctxmap.get(v.__module__)
        # a function made by a decorator carries the name it was bound to (pyscript: func.set_name(name); CPython users
        # write functools.wraps): compare by the bound name
        name = key if (key and "<locals>" in v.__qualname__) else v.__name__
        return ["f", c, name] if c is not None else ["o", "function"]
    return ["o", type(v).__name__]


def keep_name(k):
    return not (k.startswith("__") and k != "__all__")


def run_case(case):
    tmp = tempfile.mkdtemp(prefix="pv_c11o_", dir="/var/tmp")
    del REG[:]
    CTXMAP.clear()
    CTXMAP.update(case["ctxmap"])
    try:
        for rel, src in case["files"].items():
            p = os.path.join(tmp, dest(rel))
            os.makedirs(os.path.dirname(p), exist_ok=True)
            with open(p, "w", encoding="utf-8") as f:
                f.write(src)
        sys.path.insert(0, tmp)
        importlib.invalidate_caches()
        ok_mods = set()
        for name in case["load_order"]:
            try:
                importlib.import_module(name)
                ok_mods.add(name)
            except BaseException:  # pylint: disable=broad-except
                # a script file whose top level raised: its context does not exist (CPython drops it from sys.modules)
                sys.modules.pop(name, None)
        for _ctx, fn, ev, opts in case["fires"]:
            local = {}
            if opts.get("kind") == "event":
                local = {"val": opts["v"]}
            if opts.get("kind") == "state":
                setattr(_Pyscript, ev, str(opts["v"]))
            for mod, name, ev2, func, expr, glob in list(REG):
                if ev2 == ev and sys.modules.get(mod) is not None and getattr(sys.modules[mod], "__file__", "").startswith(tmp):
                    if not _guard_ok(expr, glob, local):
                        continue
                    act = getattr(func, "_pv_active", None)
                    if act is not None and not _guard_ok(act[0], act[1], {}):
                        continue
                    try:
                        func(trigger_type="event", event_type=ev, context=None)
                    except Exception:  # pylint: disable=broad-except
                        pass
        tables = {}
        for name, mod in list(sys.modules.items()):
            f = getattr(mod, "__file__", None)
            if f and f.startswith(tmp + os.sep) and name in case["ctxmap"]:
                tables[case["ctxmap"][name]] = {k: plain(v, case["ctxmap"], k) for k, v in vars(mod).items() if keep_name(k)}
        return tables
    finally:
        if tmp in sys.path:
            sys.path.remove(tmp)
        for name, mod in list(sys.modules.items()):
            f = getattr(mod, "__file__", None)
            if f and f.startswith(tmp + os.sep):
                del sys.modules[name]
        shutil.rmtree(tmp, ignore_errors=True)


def main():
    req = json.loads(sys.stdin.read())
    out = [run_case(c) for c in req["cases"]]
    print("RESULT " + json.dumps(out))


main()
