"""Worker for C04: generated @state_trigger functions of the REAL pyscript over histories of entity writes (virtual clock).
stdin JSON {"cases": [...]} -> 'RESULT <json list of observations>'.

Case (ids only; entity i = "pyscript.e<i>", attribute j = "x<j>", state value v = the digit string "<v>", attribute value n = int n):
  {"legacy": bool,
   "init":  [[e, v, [[a, n], ...]], ...]            entities existing before the script is loaded
   "trigs": [{"id": t, "fn": f, "groups": [{"kind": "str"|"list"|"set", "items": [ARG, ...]}, ...],
              "watch": null | {"kind": "list"|"set", "names": [NAME, ...]}, "kwargs": null | [[key, n], ...]}, ...]
            in source order; decorators of one function are adjacent
   "hist":  [[OP, ...], ...]                        bursts: the writes of a burst are issued back to back, then settle
   "sleeps": [[f, [ms, ...]], ...]   (optional)     suspension points of function f: task.sleep(ms/1000) followed by a
                                                    second report of the kwargs the run sees after resuming; runs overlap
   "gaps":  [ms, ...]                (optional)     virtual time let pass after each burst (default 0: later bursts arrive
                                                    while earlier runs are still suspended)
  }
  ARG   = ["star", e] | ["expr", BEXP]
  BEXP  = ["eqc", OEXP, CONST] | ["nec", OEXP, CONST] | ["eqt", OEXP, OEXP] | ["net", OEXP, OEXP] | ["gtc", OEXP, n]
        | ["truthy", OEXP] | ["not", BEXP] | ["and", BEXP, BEXP] | ["or", BEXP, BEXP]
  OEXP  = TERM | ["str", OEXP] | ["int", OEXP] | ["orempty", OEXP] | ["orzero", OEXP] | ["strip", OEXP] | ["split0", OEXP]
        | ["slice", OEXP]            (strip / split0 never directly on a TERM: that would be a longer dotted name)
  TERM  = ["val", e] | ["attr", e, a] | ["old", e] | ["oldattr", e, a]
  CONST = ["none"] | ["str", v] | ["int", n] | ["empty"] | ["nonestr"]
  NAME  = ["ent", e] | ["attr", e, a] | ["old", e] | ["oldattr", e, a] | ["star", e]
  OP    = ["set", e, v, [[a, n], ...]] | ["del", e]
Write number k (1-based over the flattened history) carries Context(id="pv<k>"), so a run names the event it belongs to.
A request {"op": "names", "cases": [{"b": BEXP}, ...]} instead parses each rendered expression with the real AstEval and
returns {"names": sorted(get_names()), "src": text} per case (no trigger is started).
Each run fires pv_run when it starts and pv_res after each suspension point; the reports of one run are paired by the
HA Context the run's task fires its events with (one fresh Context per run, independent of the interpreter state).
Observation: {"runs": [{"fn": f, "kw": [[key, KW], ...], "res": [[[key, KW], ...], ...]}, ...] in start order, "err": [first log errors], "src": script}
  KW = ["none"] | ["sv", v, [[a, n], ...]] | ["state"] | ["ent", e] | ["ctx", k] | ["int", n] | ["other", text]
"""
import json
import re
import sys

from vh.hassenv import PyscriptEnv, run_virtual

KEYS = {0: "trigger_type", 1: "var_name", 2: "value", 3: "old_value", 4: "context", 5: "pv_t", 6: "k6", 7: "k7"}
KEY_IDS = {v: k for k, v in KEYS.items()}
VIRTUAL = {"entity_id", "last_changed", "last_updated", "last_reported"}


def ent(e):
    return f"pyscript.e{e}"


def r_term(t):
    k = t[0]
    if k == "val":
        return ent(t[1])
    if k == "attr":
        return f"{ent(t[1])}.x{t[2]}"
    if k == "old":
        return f"{ent(t[1])}.old"
    if k == "oldattr":
        return f"{ent(t[1])}.old.x{t[2]}"
    raise ValueError(t)


def r_const(c):
    if c[0] == "none":
        return "None"
    if c[0] == "str":
        return f"'{c[1]}'"
    if c[0] == "int":
        return str(c[1])
    if c[0] == "empty":
        return "''"
    if c[0] == "nonestr":
        return "'None'"
    raise ValueError(c)


def r_oexp(o):
    k = o[0]
    if k in ("val", "attr", "old", "oldattr"):
        return r_term(o)
    x = r_oexp(o[1])
    if k == "str":
        return f"str({x})"
    if k == "int":
        return f"int({x})"
    if k == "orempty":
        return f"({x} or '')"
    if k == "orzero":
        return f"({x} or 0)"
    if k in ("strip", "split0") and o[1][0] in ("val", "attr", "old", "oldattr"):
        raise ValueError("method directly on a dotted name: " + repr(o))
    if k == "strip":
        return f"{x}.strip()"
    if k == "split0":
        return f"{x}.split(',')[0]"
    if k == "slice":
        return f"{x}[0:]"
    raise ValueError(o)


def r_bexp(b):
    k = b[0]
    if k == "eqc":
        return f"({r_oexp(b[1])} == {r_const(b[2])})"
    if k == "nec":
        return f"({r_oexp(b[1])} != {r_const(b[2])})"
    if k == "eqt":
        return f"({r_oexp(b[1])} == {r_oexp(b[2])})"
    if k == "net":
        return f"({r_oexp(b[1])} != {r_oexp(b[2])})"
    if k == "gtc":
        return f"({r_oexp(b[1])} > {b[2]})"
    if k == "truthy":
        return r_oexp(b[1])          # a bare dotted name when the operand is a term
    if k == "not":
        return f"(not {r_bexp(b[1])})"
    if k == "and":
        return f"({r_bexp(b[1])} and {r_bexp(b[2])})"
    if k == "or":
        return f"({r_bexp(b[1])} or {r_bexp(b[2])})"
    raise ValueError(b)


def r_arg(a):
    if a[0] == "star":
        return f"{ent(a[1])}.*"
    return r_bexp(a[1])


def r_name(n):
    k = n[0]
    if k == "ent":
        return ent(n[1])
    if k == "star":
        return f"{ent(n[1])}.*"
    return r_term(n)


def r_coll(kind, strs):
    body = ", ".join(repr(s) for s in strs)
    if kind == "set":
        return "{" + body + "}" if strs else "set()"
    return "[" + body + "]"


def make_script(case):
    lines = []
    by_fn = {}
    order = []
    for t in case["trigs"]:
        if t["fn"] not in by_fn:
            by_fn[t["fn"]] = []
            order.append(t["fn"])
        by_fn[t["fn"]].append(t)
    for fn in order:
        for t in by_fn[fn]:
            parts = []
            for g in t["groups"]:
                strs = [r_arg(a) for a in g["items"]]
                parts.append(repr(strs[0]) if g["kind"] == "str" else r_coll(g["kind"], strs))
            if t.get("watch") is not None:
                parts.append("watch=" + r_coll(t["watch"]["kind"], [r_name(n) for n in t["watch"]["names"]]))
            if t.get("kwargs") is not None:
                parts.append("kwargs={" + ", ".join(f"{KEYS[k]!r}: {n}" for k, n in t["kwargs"]) + "}")
            lines.append("@state_trigger(" + ", ".join(parts) + ")")
        lines.append(f"def pv_f{fn}(**kw):")
        lines.append(f"    event.fire('pv_run', fn={fn}, kw=kw)")
        for ms in dict(map(tuple, case.get("sleeps") or [])).get(fn, []):
            lines.append(f"    task.sleep({ms / 1000.0!r})")
            lines.append(f"    event.fire('pv_res', fn={fn}, kw=kw)")
        lines.append("")
    return "\n".join(lines) + "\n"


def canon_sv(v):
    m = re.fullmatch(r"(\d+)", str(v))
    if not m:
        return ["other", "state " + repr(str(v))[:60]]
    at = []
    for k, x in sorted(v.__dict__.items()):
        if k in VIRTUAL:
            continue
        ma = re.fullmatch(r"x(\d+)", k)
        if not ma or not isinstance(x, int) or isinstance(x, bool) or x < 0:
            return ["other", "attr " + repr((k, x))[:60]]
        at.append([int(ma.group(1)), x])
    return ["sv", int(m.group(1)), sorted(at)]


def canon_kw(v):
    from homeassistant.core import Context

    from custom_components.pyscript.state import StateVal

    if v is None:
        return ["none"]
    if isinstance(v, StateVal):
        return canon_sv(v)
    if isinstance(v, Context):
        m = re.fullmatch(r"pv(\d+)", v.id or "")
        return ["ctx", int(m.group(1))] if m else ["other", "context " + repr(v.id)[:40]]
    if isinstance(v, bool):
        return ["other", repr(v)]
    if isinstance(v, int) and v >= 0:
        return ["int", v]
    if isinstance(v, str):
        if v == "state":
            return ["state"]
        m = re.fullmatch(r"pyscript\.e(\d+)", v)
        if m:
            return ["ent", int(m.group(1))]
    return ["other", repr(v)[:60]]


async def run_case(case):
    from homeassistant.core import Context

    src = make_script(case)
    async with PyscriptEnv(files={}, legacy=bool(case["legacy"])) as env:
        hass = env.hass
        for e, v, at in case["init"]:
            hass.states.async_set(ent(e), f"{v}", {f"x{a}": n for a, n in at})
        await env.settle()
        env.write("c04.py", src)
        await env.reload()
        env.events.clear()
        from homeassistant.core import callback as _cb

        recs = []

        @_cb
        def _rec(event):
            kw = event.data.get("kw") or {}
            recs.append((event.event_type, event.context.id, event.data.get("fn"),
                         sorted([KEY_IDS.get(key, 99), canon_kw(val)] for key, val in kw.items())))

        hass.bus.async_listen("pv_run", _rec)
        hass.bus.async_listen("pv_res", _rec)
        gaps = case.get("gaps") or []
        k = 0
        for bi, burst in enumerate(case["hist"]):
            for op in burst:
                k += 1
                ctx = Context(id=f"pv{k}")
                if op[0] == "set":
                    hass.states.async_set(ent(op[1]), f"{op[2]}", {f"x{a}": n for a, n in op[3]}, context=ctx)
                else:
                    hass.states.async_remove(ent(op[1]), context=ctx)
            await env.settle()
            if bi < len(gaps) and gaps[bi] > 0:
                await env.advance(gaps[bi] / 1000.0)
        if case.get("sleeps"):
            await env.advance(1.0 + sum(sum(ms) for _f, ms in case["sleeps"]) / 1000.0)
        runs = []
        by_ctx = {}
        stray = 0
        for typ, cid, fn, kw in recs:
            if typ == "pv_run":
                r = {"fn": fn, "kw": kw, "res": []}
                runs.append(r)
                if cid in by_ctx:
                    stray += 1
                by_ctx[cid] = r
            elif cid in by_ctx and by_ctx[cid]["fn"] == fn:
                by_ctx[cid]["res"].append(kw)
            else:
                stray += 1
        errs = [m.strip().splitlines()[-1][:160] if m.strip() else "" for (_n, lvl, m) in env.log.records if lvl in ("ERROR", "CRITICAL")]
        return {"runs": runs, "err": errs[:4], "nerr": len(errs), "src": src, "stray": stray}


async def names_cases(cases):
    import shutil
    import tempfile

    from pytest_homeassistant_custom_component.common import async_test_home_assistant

    from vh.hassenv import interp_env_setup, new_interp

    tmp = tempfile.mkdtemp(prefix="pv_c04n_", dir="/var/tmp")
    out = []
    try:
        async with async_test_home_assistant(config_dir=tmp) as hass:
            interp_env_setup(hass)
            a, _gc = new_interp("c04names")
            for case in cases:
                src = r_bexp(case["b"])
                try:
                    a.parse(src, mode="eval")
                    out.append({"names": sorted(await a.get_names()), "src": src})
                except Exception as exc:  # pylint: disable=broad-except
                    out.append({"names": None, "src": src, "err": type(exc).__name__ + ": " + str(exc)[:200]})
            await hass.async_stop(force=True)
    finally:
        shutil.rmtree(tmp, ignore_errors=True)
    return out


def main():
    req = json.loads(sys.stdin.read())
    if req.get("op") == "names":
        import asyncio

        print("RESULT " + json.dumps(asyncio.run(names_cases(req["cases"]))))
        return
    out = []
    for case in req["cases"]:
        try:
            out.append(run_virtual(run_case(case)))
        except Exception as exc:  # pylint: disable=broad-except
            out.append({"runs": [], "err": ["HARNESS " + type(exc).__name__ + ": " + str(exc)[:300]], "nerr": 1, "src": "",
                        "harness_error": True})
    print("RESULT " + json.dumps(out))


main()
