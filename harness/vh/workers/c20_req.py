"""Worker for C20: run the REAL process_all_requirements / install_requirements on generated requirement trees.

stdin JSON {"op": "merge"|"install", "cases": [...]} -> 'RESULT <json>'.
Patched (as tests/test_requirements.py does): Home Assistant's installer `async_process_requirements`,
`importlib.metadata.version` as imported into requirements.py (`installed_version`).  The config entry is a
MockConfigEntry registered in a real HomeAssistant object; `async_update_entry` is the real one (wrapped to
count calls).  Files are written under /var/tmp and removed after each run."""
import asyncio
import glob as _glob
import json
import os
import shutil
import sys
import tempfile
from importlib.metadata import PackageNotFoundError
from unittest.mock import patch

from packaging.version import InvalidVersion, Version

from custom_components.pyscript import requirements as R
from custom_components.pyscript.const import (
    ATTR_INSTALLED_VERSION,
    ATTR_SOURCES,
    ATTR_VERSION,
    CONF_ALLOW_ALL_IMPORTS,
    CONF_INSTALLED_PACKAGES,
    DOMAIN,
    REQUIREMENTS_FILE,
    REQUIREMENTS_PATHS,
)


# ---------------------------------------------------------------------------------------------
def write_tree(files):
    """files: [{"id", "dir", "lines", "eol"?, "final_eol"?}] -> (folder, {path: id})"""
    folder = tempfile.mkdtemp(prefix="pv_c20_", dir="/var/tmp")
    ids = {}
    for f in files:
        d = os.path.join(folder, f["dir"]) if f["dir"] else folder
        os.makedirs(d, exist_ok=True)
        path = os.path.join(d, REQUIREMENTS_FILE)
        eol = f.get("eol", "\n")
        text = eol.join(f["lines"])
        if f.get("final_eol", True) and f["lines"]:
            text += eol
        with open(path, "w", encoding="utf-8", newline="") as fh:
            fh.write(text)
        ids[path] = f["id"]
    return folder, ids


def make_lookup(env):
    def lookup(name):
        if name in env:
            return env[name]
        raise PackageNotFoundError(name)

    return lookup


def run_process(folder, ids, env):
    """-> {"order": [file ids in reading order], "table": [[key, version, [src ids], installed]]} from the real function"""
    found = []
    real_glob = _glob.glob

    def rec_glob(pattern, *a, **k):
        res = real_glob(pattern, *a, **k)
        found.extend(res)
        return res

    with patch.object(R, "installed_version", side_effect=make_lookup(env)), patch.object(R.glob, "glob", side_effect=rec_glob):
        table = R.process_all_requirements(folder, REQUIREMENTS_PATHS, REQUIREMENTS_FILE)
    return found, table


def as_str(x):
    """observed values are strings; anything else (a changed implementation) is made visible as a marked string"""
    return x if isinstance(x, str) else "<" + repr(x) + ">"


def canon_table(table, ids):
    return [[as_str(k), as_str(v[ATTR_VERSION]), [ids.get(s, -1) for s in v[ATTR_SOURCES]],
             None if v[ATTR_INSTALLED_VERSION] is None else as_str(v[ATTR_INSTALLED_VERSION])] for k, v in table.items()]


def canon_order(found, ids):
    order = []
    for p in found:
        i = ids.get(p, -1)
        if i not in order:
            order.append(i)
    return order


# ---------------------------------------------------------------------------------------------
def candidates_of_files(files, acc):
    for f in files:
        for line in f["lines"]:
            s = line.split("#")[0].strip()
            for part in s.split("=="):
                acc.add(part)
                acc.add(part.strip())


def rank_table(strings):
    """every candidate string that packaging accepts -> rank among the distinct versions (equal versions share one)"""
    valid = []
    for s in sorted(strings):
        try:
            valid.append((Version(s), s))
        except InvalidVersion:
            pass
    distinct = []
    for v, _s in sorted(valid, key=lambda t: t[0]):
        if not distinct or distinct[-1] != v:
            distinct.append(v)
    out = []
    for v, s in valid:
        lo = 0
        while distinct[lo] != v:
            lo += 1
        out.append([s, lo])
    return out


# ---------------------------------------------------------------------------------------------
def do_merge(case):
    env = dict(case.get("env", []))
    arrs = []
    cands = set(env.values())
    for files in case["arrs"]:
        candidates_of_files(files, cands)
        folder, ids = write_tree(files)
        try:
            try:
                found, table = run_process(folder, ids, env)
                rows = canon_table(table, ids)
                arrs.append({"order": canon_order(found, ids), "table": rows})
                for r in rows:
                    cands.add(r[1])
            except Exception as exc:  # pylint: disable=broad-except
                arrs.append({"order": [], "table": [], "error": f"{type(exc).__name__}: {exc}"})
        finally:
            shutil.rmtree(folder, ignore_errors=True)
    return {"arrs": arrs, "ranks": rank_table(cands)}


# ---------------------------------------------------------------------------------------------
async def do_install(hass, case):
    from pytest_homeassistant_custom_component.common import MockConfigEntry

    env = dict(case.get("env0", []))
    data = {CONF_ALLOW_ALL_IMPORTS: False}
    if case.get("rec0") is not None:
        data[CONF_INSTALLED_PACKAGES] = dict(case["rec0"])
    entry = MockConfigEntry(domain=DOMAIN, data=data)
    entry.add_to_hass(hass)
    cands = set(env.values()) | {v for _k, v in (case.get("rec0") or [])}
    steps = []
    # what is PERSISTED: the record as last handed to hass.config_entries.async_update_entry (snapshot taken at the call;
    # initially the record the entry was created with).  This is what survives a restart, not the live entry.data object.
    persisted = [None if case.get("rec0") is None else dict(case["rec0"])]
    try:
        for st in case["steps"]:
            for k, v in st.get("ext", []):
                if v is None:
                    env.pop(k, None)
                else:
                    env[k] = v
                    cands.add(v)
            index = dict(st.get("index", []))
            cands |= set(index.values())
            candidates_of_files(st["files"], cands)
            # the user's configuration: allow_all_imports for this run.  Changing it goes through a reload of the entry from
            # what was persisted (restart semantics); an unchanged flag leaves the live entry object alone.
            if bool(entry.data.get(CONF_ALLOW_ALL_IMPORTS)) != bool(st["allow"]):
                new = {CONF_ALLOW_ALL_IMPORTS: bool(st["allow"])}
                if persisted[0] is not None:
                    new[CONF_INSTALLED_PACKAGES] = dict(persisted[0])
                hass.config_entries.async_update_entry(entry, data=new)
            folder, ids = write_tree(st["files"])
            env_before = list(env.items())
            calls = []
            captured = {}
            updates = [0]

            async def fake_installer(_hass, _domain, reqs, *a, **k):
                reqs = list(reqs)
                calls.append(reqs)
                for r in reqs:
                    parts = r.split("==")
                    name = parts[0].strip()
                    if len(parts) > 1:
                        env[name] = parts[1].strip()
                    elif name in index:
                        env[name] = index[name]

            real_process = R.process_all_requirements
            real_glob = _glob.glob
            found = []

            def rec_glob(pattern, *a, **k):
                res = real_glob(pattern, *a, **k)
                found.extend(res)
                return res

            def wrapped_process(*a, **k):
                with patch.object(R.glob, "glob", side_effect=rec_glob):
                    captured["table"] = real_process(*a, **k)
                return captured["table"]

            real_update = hass.config_entries.async_update_entry

            def counting_update(*a, **k):
                updates[0] += 1
                data_arg = k.get("data")
                if data_arg is not None and data_arg.get(CONF_INSTALLED_PACKAGES) is not None:
                    persisted[0] = dict(data_arg[CONF_INSTALLED_PACKAGES])      # snapshot: later in-place edits do not count
                return real_update(*a, **k)

            kind, err = 2, None
            try:
                with patch.object(R, "async_process_requirements", side_effect=fake_installer), \
                        patch.object(R, "installed_version", side_effect=make_lookup(env)), \
                        patch.object(R, "process_all_requirements", side_effect=wrapped_process), \
                        patch.object(hass.config_entries, "async_update_entry", side_effect=counting_update):
                    try:
                        await R.install_requirements(hass, entry, folder)
                    except Exception as exc:  # pylint: disable=broad-except
                        kind, err = 1, type(exc).__name__
                await hass.async_block_till_done()
            finally:
                shutil.rmtree(folder, ignore_errors=True)
            rows = canon_table(captured.get("table", {}), ids)
            rec_after = entry.data.get(CONF_INSTALLED_PACKAGES)
            rec_after = [[as_str(k), as_str(v)] for k, v in rec_after.items()] if rec_after is not None else []
            pers = [[as_str(k), as_str(v)] for k, v in (persisted[0] or {}).items()]
            for r in rows:
                cands.add(r[1])
            for _k, v in rec_after + pers:
                if isinstance(v, str):
                    cands.add(v)
            cands |= set(env.values())
            steps.append({
                "order": canon_order(found, ids), "table": rows, "env_before": [list(x) for x in env_before], "kind": kind, "error": err,
                "args": [as_str(x) for x in calls[0]] if len(calls) == 1 else (None if not calls else [as_str(x) for x in sum(calls, [])]),
                "n_calls": len(calls),
                "rec_after": rec_after, "persisted": pers, "updated": updates[0] > 0, "n_updates": updates[0],
                "env_after": [list(x) for x in env.items()],
            })
    finally:
        await hass.config_entries.async_remove(entry.entry_id)
    return {"steps": steps, "ranks": rank_table(cands)}


async def install_main(cases):
    from pytest_homeassistant_custom_component.common import async_test_home_assistant

    tmp = tempfile.mkdtemp(prefix="pv_c20h_", dir="/var/tmp")
    out = []
    try:
        async with async_test_home_assistant(config_dir=tmp) as hass:
            for case in cases:
                out.append(await do_install(hass, case))
            await hass.async_stop(force=True)
    finally:
        shutil.rmtree(tmp, ignore_errors=True)
    return out


def main():
    import logging

    logging.disable(logging.CRITICAL)  # the code under test logs a line per ignored requirement
    req = json.loads(sys.stdin.read())
    if req["op"] == "merge":
        out = [do_merge(c) for c in req["cases"]]
    else:
        out = asyncio.run(install_main(req["cases"]))
    print("RESULT " + json.dumps(out))


main()
