"""Worker for C20: run the REAL process_all_requirements / install_requirements on generated requirement trees.

stdin JSON {"op": "merge"|"install", "cases": [...]} -> 'RESULT <json>'.
Patched (as tests/test_requirements.py does): Home Assistant's installer `async_process_requirements`,
`importlib.metadata.version` as imported into requirements.py (`installed_version`).  The config entry is a
MockConfigEntry registered in a real HomeAssistant object; `async_update_entry` is the real one (wrapped to
count calls).  Files are written under /var/tmp and removed after each run."""
import asyncio
import copy
import glob as _glob
import json
import os
import shutil
import sys
import tempfile
from importlib.metadata import PackageNotFoundError
from unittest.mock import patch

from packaging.version import InvalidVersion, Version

from custom_components.pyscript import requirements as R
from custom_components.pyscript.const import (
    ATTR_INSTALLED_VERSION,
    ATTR_SOURCES,
    ATTR_VERSION,
    CONF_ALLOW_ALL_IMPORTS,
    CONF_INSTALLED_PACKAGES,
    DOMAIN,
    REQUIREMENTS_FILE,
    REQUIREMENTS_PATHS,
)


# ---------------------------------------------------------------------------------------------
def write_tree(files):
    """files: [{"id", "dir", "lines", "eol"?, "final_eol"?}] -> (folder, {path: id})"""
    folder = tempfile.mkdtemp(prefix="pv_c20_", dir="/var/tmp")
    ids = {}
    for f in files:
        d = os.path.join(folder, f["dir"]) if f["dir"] else folder
        os.makedirs(d, exist_ok=True)
        path = os.path.join(d, REQUIREMENTS_FILE)
        eol = f.get("eol", "\n")
        text = eol.join(f["lines"])
        if f.get("final_eol", True) and f["lines"]:
            text += eol
        with open(path, "w", encoding="utf-8", newline="") as fh:
            fh.write(text)
        ids[path] = f["id"]
    return folder, ids


def make_lookup(env):
    def lookup(name):
        if name in env:
            return env[name]
        raise PackageNotFoundError(name)

    return lookup


def run_process(folder, ids, env):
    """-> {"order": [file ids in reading order], "table": [[key, version, [src ids], installed]]} from the real function"""
    found = []
    real_glob = _glob.glob

    def rec_glob(pattern, *a, **k):
        res = real_glob(pattern, *a, **k)
        found.extend(res)
        return res

    with patch.object(R, "installed_version", side_effect=make_lookup(env)), patch.object(R.glob, "glob", side_effect=rec_glob):
        table = R.process_all_requirements(folder, REQUIREMENTS_PATHS, REQUIREMENTS_FILE)
    return found, table


def as_str(x):
    """observed values are strings; anything else (a changed implementation) is made visible as a marked string"""
    return x if isinstance(x, str) else "<" + repr(x) + ">"


def canon_table(table, ids):
    return [[as_str(k), as_str(v[ATTR_VERSION]), [ids.get(s, -1) for s in v[ATTR_SOURCES]],
             None if v[ATTR_INSTALLED_VERSION] is None else as_str(v[ATTR_INSTALLED_VERSION])] for k, v in table.items()]


def canon_order(found, ids):
    order = []
    for p in found:
        i = ids.get(p, -1)
        if i not in order:
            order.append(i)
    return order


# ---------------------------------------------------------------------------------------------
def candidates_of_files(files, acc):
    for f in files:
        for line in f["lines"]:
            s = line.split("#")[0].strip()
            for part in s.split("=="):
                acc.add(part)
                acc.add(part.strip())


def rank_table(strings):
    """every candidate string that packaging accepts -> rank among the distinct versions (equal versions share one)"""
    valid = []
    for s in sorted(strings):
        try:
            valid.append((Version(s), s))
        except InvalidVersion:
            pass
    distinct = []
    for v, _s in sorted(valid, key=lambda t: t[0]):
        if not distinct or distinct[-1] != v:
            distinct.append(v)
    out = []
    for v, s in valid:
        lo = 0
        while distinct[lo] != v:
            lo += 1
        out.append([s, lo])
    return out


# ---------------------------------------------------------------------------------------------
def do_merge(case):
    env = dict(case.get("env", []))
    arrs = []
    cands = set(env.values())
    for files in case["arrs"]:
        candidates_of_files(files, cands)
        folder, ids = write_tree(files)
        try:
            try:
                found, table = run_process(folder, ids, env)
                rows = canon_table(table, ids)
                arrs.append({"order": canon_order(found, ids), "table": rows})
                for r in rows:
                    cands.add(r[1])
            except Exception as exc:  # pylint: disable=broad-except
                arrs.append({"order": [], "table": [], "error": f"{type(exc).__name__}: {exc}"})
        finally:
            shutil.rmtree(folder, ignore_errors=True)
    return {"arrs": arrs, "ranks": rank_table(cands)}


# ---------------------------------------------------------------------------------------------
async def do_install(hass, case):
    from pytest_homeassistant_custom_component.common import MockConfigEntry

    from homeassistant.config_entries import SOURCE_IMPORT
    from homeassistant.requirements import RequirementsNotFound

    import custom_components.pyscript as P

    env = dict(case.get("env0", []))
    data = {CONF_ALLOW_ALL_IMPORTS: bool(case["steps"][0]["allow"]) if case["steps"] else False}
    if case.get("rec0") is not None:
        data[CONF_INSTALLED_PACKAGES] = dict(case["rec0"])
    # pyscript configured through configuration.yaml: the stored entry has source "import"
    entry = MockConfigEntry(domain=DOMAIN, data=copy.deepcopy(data), source=SOURCE_IMPORT, unique_id=DOMAIN)
    entry.add_to_hass(hass)
    cands = set(env.values()) | {v for _k, v in (case.get("rec0") or [])}
    steps = []
    # what is PERSISTED: the record as last handed to hass.config_entries.async_update_entry (snapshot taken at the call;
    # initially the record the entry was created with).  This is what survives a restart, not the live entry.data object.
    persisted = [None if case.get("rec0") is None else dict(case["rec0"])]
    stored = [copy.deepcopy(data)]          # the whole entry data as last handed to async_update_entry (= .storage)
    in_install = [False]
    other_actor = [False]
    updates = [0]
    real_update = hass.config_entries.async_update_entry

    def tracking_update(*a, **k):
        data_arg = k.get("data")
        if data_arg is not None:
            stored[0] = copy.deepcopy(dict(data_arg))                      # snapshot: later in-place edits do not count
            rec = data_arg.get(CONF_INSTALLED_PACKAGES)
            persisted[0] = None if rec is None else dict(rec)
        if in_install[0] and not other_actor[0]:        # updates made by install_requirements itself
            updates[0] += 1
        return real_update(*a, **k)

    def yaml_conf(allow):
        return {CONF_ALLOW_ALL_IMPORTS: bool(allow)}

    async def restart(allow):
        """Home Assistant restart: the entry is loaded from storage, then async_setup() imports the plain YAML configuration"""
        real_update(entry, data=copy.deepcopy(stored[0]))
        await hass.config_entries.flow.async_init(DOMAIN, context={"source": SOURCE_IMPORT}, data=P.PYSCRIPT_SCHEMA(yaml_conf(allow)))
        await hass.async_block_till_done()

    async def reload_yaml(allow, settle=True):
        """pyscript.reload / entry reload: update_yaml_config() re-reads configuration.yaml"""
        async def fake_yaml(_hass):
            return {DOMAIN: yaml_conf(allow)}

        other_actor[0] = True
        try:
            with patch.object(P, "async_hass_config_yaml", side_effect=fake_yaml):
                await P.update_yaml_config(hass, entry)
        finally:
            other_actor[0] = False
        if settle:          # not while a run is suspended: block_till_done would wait for the run's own executor job
            await hass.async_block_till_done()

    upd_patch = patch.object(hass.config_entries, "async_update_entry", side_effect=tracking_update)
    upd_patch.start()
    user_allow = [bool(data[CONF_ALLOW_ALL_IMPORTS])]      # allow_all_imports in the user's configuration.yaml
    try:
        for st in case["steps"]:
            for k, v in st.get("ext", []):
                if v is None:
                    env.pop(k, None)
                else:
                    env[k] = v
                    cands.add(v)
            index = dict(st.get("index", []))
            cands |= set(index.values())
            candidates_of_files(st["files"], cands)
            # what happens between two passes: Home Assistant restarts (YAML import flow with the stored entry present) and
            # reloads of the YAML configuration, all through pyscript's own code; a changed allow_all_imports is a YAML edit
            # followed by a reload.  Nothing else touches the entry.
            events = list(st.get("pre", []))
            if not events and user_allow[0] != bool(st["allow"]):
                events = ["reload"]               # the user edited the YAML: it takes effect through pyscript's reload
            user_allow[0] = bool(st["allow"]) if events else user_allow[0]
            for ev in events:
                if ev == "restart":
                    await restart(st["allow"])
                else:
                    await reload_yaml(st["allow"])
            # a second actor while the run is suspended in one of its awaits: the user flips allow_all_imports (YAML edit +
            # reload) during the scan of the requirement files (executor job) or during the installer call
            during = st.get("during") or {}
            fired = []
            gate_allow = user_allow[0]
            if "scan" in during:
                gate_allow = bool(during["scan"])      # the gate is evaluated after the scan: it must see the new value
            rec_start = entry.data.get(CONF_INSTALLED_PACKAGES)
            rec_start = [[as_str(k), as_str(v)] for k, v in (rec_start or {}).items()]
            pers_start = [[as_str(k), as_str(v)] for k, v in (persisted[0] or {}).items()]
            fail = set(st.get("fail", []))
            folder, ids = write_tree(st["files"])
            env_before = list(env.items())
            calls = []
            captured = {}
            updates[0] = 0

            async def fake_installer(_hass, _domain, reqs, *a, **k):
                reqs = list(reqs)
                calls.append(reqs)
                if "install" in during:
                    fired.append("install")
                    user_allow[0] = bool(during["install"])
                    await reload_yaml(during["install"], settle=False)
                failed = []
                for r in reqs:
                    parts = r.split("==")
                    name = parts[0].strip()
                    if name in fail:
                        failed.append(r)              # pip could not install this one
                    elif len(parts) > 1:
                        env[name] = parts[1].strip()
                    elif name in index:
                        env[name] = index[name]
                if failed:
                    raise RequirementsNotFound(DOMAIN, failed)

            real_process = R.process_all_requirements
            real_glob = _glob.glob
            found = []

            def rec_glob(pattern, *a, **k):
                res = real_glob(pattern, *a, **k)
                found.extend(res)
                return res

            def wrapped_process(*a, **k):
                with patch.object(R.glob, "glob", side_effect=rec_glob):
                    captured["table"] = real_process(*a, **k)
                if "scan" in during:                     # we are in the executor thread; the event loop is free
                    fired.append("scan")
                    user_allow[0] = bool(during["scan"])
                    asyncio.run_coroutine_threadsafe(reload_yaml(during["scan"], settle=False), hass.loop).result(timeout=60)
                return captured["table"]

            kind, err = 2, None
            try:
                with patch.object(R, "async_process_requirements", side_effect=fake_installer), \
                        patch.object(R, "installed_version", side_effect=make_lookup(env)), \
                        patch.object(R, "process_all_requirements", new=wrapped_process):
                    in_install[0] = True
                    try:
                        await R.install_requirements(hass, entry, folder)
                    except Exception as exc:  # pylint: disable=broad-except
                        kind, err = 1, type(exc).__name__
                    finally:
                        in_install[0] = False
                await hass.async_block_till_done()
            finally:
                shutil.rmtree(folder, ignore_errors=True)
            rows = canon_table(captured.get("table", {}), ids)
            rec_after = entry.data.get(CONF_INSTALLED_PACKAGES)
            rec_after = [[as_str(k), as_str(v)] for k, v in rec_after.items()] if rec_after is not None else []
            pers = [[as_str(k), as_str(v)] for k, v in (persisted[0] or {}).items()]
            for r in rows:
                cands.add(r[1])
            for _k, v in rec_after + pers + rec_start + pers_start:
                if isinstance(v, str):
                    cands.add(v)
            cands |= set(env.values())
            steps.append({
                "order": canon_order(found, ids), "table": rows, "env_before": [list(x) for x in env_before], "kind": kind, "error": err,
                "args": [as_str(x) for x in calls[0]] if len(calls) == 1 else (None if not calls else [as_str(x) for x in sum(calls, [])]),
                "n_calls": len(calls),
                "events": events, "fired": fired, "gate_allow": gate_allow, "allow_user": user_allow[0],
                "allow_live": bool(entry.data.get(CONF_ALLOW_ALL_IMPORTS)), "allow_pers": bool(stored[0].get(CONF_ALLOW_ALL_IMPORTS)),
                "rec_start": rec_start, "pers_start": pers_start, "rec_after": rec_after, "persisted": pers, "updated": updates[0] > 0, "n_updates": updates[0],
                "env_after": [list(x) for x in env.items()],
            })
    finally:
        upd_patch.stop()
        await hass.config_entries.async_remove(entry.entry_id)
    return {"steps": steps, "ranks": rank_table(cands)}


async def install_main(cases):
    from pytest_homeassistant_custom_component.common import async_test_home_assistant

    tmp = tempfile.mkdtemp(prefix="pv_c20h_", dir="/var/tmp")
    out = []
    try:
        async with async_test_home_assistant(config_dir=tmp) as hass:
            import homeassistant.loader as loader

            hass.data.pop(loader.DATA_CUSTOM_COMPONENTS, None)      # let the real pyscript config flow be found
            for case in cases:
                out.append(await do_install(hass, case))
            await hass.async_stop(force=True)
    finally:
        shutil.rmtree(tmp, ignore_errors=True)
    return out


def main():
    import logging

    logging.disable(logging.CRITICAL)  # the code under test logs a line per ignored requirement
    req = json.loads(sys.stdin.read())
    if req["op"] == "merge":
        out = [do_merge(c) for c in req["cases"]]
    else:
        out = asyncio.run(install_main(req["cases"]))
    print("RESULT " + json.dumps(out))


main()
