"""Worker for C02: run generated control-flow skeletons under the real AstEval and under CPython.

stdin JSON {"cases": [case, ...]} -> 'RESULT [obs, ...]', obs = {"ps": {"log": [...], "res": [...]}, "py": {...}}.
A case is {"body": [stmt...], "scripts": [[site, [0/1...]]...], "mgrs": [[id, enter, exit]...], "msgs": [[site, cls|None]...],
"hcs": [site...]} (msgs: what evaluating the message expression ms(site) of an assert raises; hcs: sites of rebindable global
class names HCk, whose script values are class id + 1, 0 = the empty tuple); the statement
encoding is documented at `render`.  Only stdlib is imported at module level so that vh.props.c02 can reuse the
pure helpers (renderer, class table)."""
import json
import sys

# ---------------------------------------------------------------------------------------------
# exception classes of the skeletons: name -> id (ids 0-5 have a fixed meaning in Interp/Flow.v)
# ---------------------------------------------------------------------------------------------
CLASS_IDS = {
    "BaseException": 0, "Exception": 1, "RuntimeError": 2, "AssertionError": 3, "KeyError": 4, "SyntaxError": 5,
    "EA": 6, "EB": 7, "EC": 8, "BX": 9, "KeyboardInterrupt": 10, "TypeError": 11,
}
UNKNOWN_CLASS = 99
PREAMBLE = (
    "class EA(Exception):\n    pass\n"
    "class EB(EA):\n    pass\n"
    "class EC(Exception):\n    pass\n"
    "class BX(BaseException):\n    pass\n"
)
MAX_EVENTS = 4000


def class_objects():
    ns = {}
    exec(PREAMBLE, ns)  # pylint: disable=exec-used
    import builtins

    return {name: ns.get(name, getattr(builtins, name, None)) for name in CLASS_IDS}


def class_table():
    """[(id, [ids of all bases incl. itself])] computed from the real classes"""
    objs = class_objects()
    tab = []
    for name, cid in sorted(CLASS_IDS.items(), key=lambda kv: kv[1]):
        anc = [CLASS_IDS[n] for n, o in objs.items() if issubclass(objs[name], o)]
        tab.append((cid, sorted(anc)))
    return tab


# ---------------------------------------------------------------------------------------------
# skeleton -> Python source
# ---------------------------------------------------------------------------------------------
def _matcher_src(m):
    if m is None:
        return ""
    if isinstance(m, dict):      # {"var": k, "cs": [...]}: a global class name HCk that sw(k) rebinds
        m = list(m["cs"]) + [f"HC{m['var']}"]
    if len(m) == 1:
        return " " + m[0]
    return " (" + ", ".join(m) + ")"


def render_block(stmts, ind, out):
    """statement encodings:
    ["t", n] ["pass"] ["probe", k, name] ["if", k, body, orelse] ["while", k, body, orelse] ["for", k, body, orelse]
    ["break"] ["continue"] ["return", v|None] ["raise", cls, cause|None] ["reraise"]
    ["try", body, [[matcher(list of class names)|None, name|None, body]...], orelse, finalbody]
    ["with", [mgr ids], body] ["assert", k] / ["assert", k, msg site|None] ["func", k, body]
    optional trailing elements select the async form: ["for", k, body, orelse, "sync"|"dual"|"aonly"] (async for over an
    object with both protocols / over a proper asynchronous iterator AIt), ["with", ids, body, True], ["func", k, body, True]
    (async def + await), ["withs", k, xbody, body, True]; case["amain"] makes main an async def
    ["sw", k] (rebinds the global class name HCk; a matcher {"var": k, "cs": [...]} reads it)
    ["withs", k, xbody, body] (with MSk(): body — MSk is a class written in the script whose __exit__ runs xbody)"""
    pad = "    " * ind
    if not stmts:
        raise ValueError("empty block")
    for s in stmts:
        op = s[0]
        if op == "t":
            out.append(f"{pad}t({s[1]})")
        elif op == "pass":
            out.append(f"{pad}pass")
        elif op == "probe":
            out.append(f"{pad}p({s[1]}, locals(), 'e{s[2]}')")
        elif op in ("if", "while", "for"):
            mode = s[4] if op == "for" and len(s) > 4 else "sync"
            loop = {"sync": f"for _ in It({s[1]}):", "dual": f"async for _ in It({s[1]}):", "aonly": f"async for _ in AIt({s[1]}):"}[mode]
            head = {"if": f"if c({s[1]}):", "while": f"while c({s[1]}):", "for": loop}[op]
            out.append(pad + head)
            render_block(s[2], ind + 1, out)
            if s[3]:
                out.append(pad + "else:")
                render_block(s[3], ind + 1, out)
        elif op in ("break", "continue"):
            out.append(pad + op)
        elif op == "return":
            out.append(pad + ("return" if s[1] is None else f"return {s[1]}"))
        elif op == "raise":
            out.append(pad + f"raise {s[1]}" + (f" from {s[2]}" if s[2] is not None else ""))
        elif op == "reraise":
            out.append(pad + "raise")
        elif op == "try":
            out.append(pad + "try:")
            render_block(s[1], ind + 1, out)
            for m, name, hb in s[2]:
                out.append(pad + "except" + _matcher_src(m) + (f" as e{name}" if name is not None else "") + ":")
                render_block(hb, ind + 1, out)
            if s[3]:
                out.append(pad + "else:")
                render_block(s[3], ind + 1, out)
            if s[4]:
                out.append(pad + "finally:")
                render_block(s[4], ind + 1, out)
        elif op == "with":
            out.append(pad + ("async with " if len(s) > 3 and s[3] else "with ") + ", ".join(f"M({k})" for k in s[1]) + ":")
            render_block(s[2], ind + 1, out)
        elif op == "sw":
            out.append(f"{pad}sw({s[1]})")
        elif op == "withs":
            out.append(f"{pad}{'async with' if len(s) > 4 and s[4] else 'with'} MS{s[1]}():")
            render_block(s[3], ind + 1, out)
        elif op == "assert":
            out.append(f"{pad}assert c({s[1]})" + (f", ms({s[2]})" if len(s) > 2 and s[2] is not None else ""))
        elif op == "func":
            asy = len(s) > 3 and s[3]
            out.append(f"{pad}{'async def' if asy else 'def'} g{s[1]}():")
            render_block(s[2], ind + 1, out)
            out.append(f"{pad}fr({s[1]}, {'await ' if asy else ''}g{s[1]}())")
        else:
            raise ValueError(f"unknown statement {s!r}")


def script_managers(stmts, acc):
    for s in stmts:
        op = s[0]
        if op in ("if", "while", "for"):
            script_managers(s[2], acc)
            script_managers(s[3], acc)
        elif op == "try":
            for b in [s[1], s[3], s[4]] + [h[2] for h in s[2]]:
                script_managers(b, acc)
        elif op in ("with", "func"):
            script_managers(s[2], acc)
        elif op == "withs":
            acc.append(s)
            script_managers(s[2], acc)
            script_managers(s[3], acc)
    return acc


def render(case):
    out = []
    for s in script_managers(case["body"], []):
        if len(s) > 4 and s[4]:
            out += [f"class MS{s[1]}:", "    async def __aenter__(self):", f"        en({s[1]})", "        return self",
                    "    async def __aexit__(self, et, ev, tb):", f"        ex({s[1]}, ev)"]
        else:
            out += [f"class MS{s[1]}:", "    def __enter__(self):", f"        en({s[1]})", "        return self",
                    "    def __exit__(self, et, ev, tb):", f"        ex({s[1]}, ev)"]
        render_block(s[2], 2, out)
    out.append("async def main():" if case.get("amain") else "def main():")
    render_block(case["body"], 1, out)
    return "\n".join(out) + "\n"


# ---------------------------------------------------------------------------------------------
# the scripted environment (same code under both interpreters; plain Python objects)
# ---------------------------------------------------------------------------------------------
class Overrun(BaseException):
    """safety net: a skeleton produced more events than any generated skeleton can"""


def make_env(case, log, classes, G):
    full = {int(k): list(v) for k, v in case["scripts"]}
    cur = {k: list(v) for k, v in full.items()}
    mgrs = {int(m[0]): (m[1], m[2]) for m in case["mgrs"]}
    msgs = {int(m[0]): m[1] for m in case.get("msgs", [])}

    def add(ev):
        if len(log) > MAX_EVENTS:
            raise Overrun()
        log.append(ev)

    def pop(k):
        rem = cur.setdefault(k, [])
        if rem:
            return rem.pop(0) != 0
        cur[k] = list(full.get(k, []))
        return False

    def exc_info(v):
        if v is None:
            return [None, None]
        return [type(v).__name__, type(v.__cause__).__name__ if v.__cause__ is not None else None]

    def t(n):
        add(["t", n])

    def c(k):
        b = pop(k)
        add(["c", k, b])
        return b

    by_id = {cid: classes[name] for name, cid in CLASS_IDS.items()}

    def binding(k):
        rem = cur.get(k, [])
        return by_id[rem[0] - 1] if rem and rem[0] != 0 else ()

    def sw(k):
        rem = cur.get(k, [])[1:]
        cur[k] = rem if rem else list(full.get(k, []))
        G[f"HC{k}"] = binding(k)
        add(["sw", k])

    def en(k):
        add(["enter", k])

    def ex(k, ev):
        add(["exit", k] + exc_info(ev))

    def ms(j):
        add(["msg", j])
        if msgs.get(j) is not None:
            raise classes[msgs[j]]()
        return f"message {j}"

    def p(k, d, name):
        v = d.get(name)
        add(["p", k, int(name[1:])] + exc_info(v if isinstance(v, BaseException) else None) + ([] if v is None or isinstance(v, BaseException) else ["notexc"]))

    def fr(k, v):
        add(["ret", k, v if (v is None or (isinstance(v, int) and not isinstance(v, bool))) else "other"])

    class It:
        def __init__(self, k):
            self.k = k
            cur[k] = list(full.get(k, []))
            add(["iter", k])

        def __iter__(self):
            return self

        def __next__(self):
            b = pop(self.k)
            add(["n", self.k, b])
            if b:
                return 1
            raise StopIteration

        def __aiter__(self):
            return self

        async def __anext__(self):
            b = pop(self.k)
            add(["n", self.k, b])
            if b:
                return 1
            raise StopAsyncIteration

    class AIt:
        """a proper asynchronous iterator: no __iter__/__next__"""

        def __init__(self, k):
            self.k = k
            cur[k] = list(full.get(k, []))
            add(["iter", k])

        def __aiter__(self):
            return self

        async def __anext__(self):
            b = pop(self.k)
            add(["n", self.k, b])
            if b:
                return 1
            raise StopAsyncIteration

    class M:
        def __init__(self, k):
            self.k = k
            add(["mk", k])

        def __enter__(self):
            add(["enter", self.k])
            en = mgrs.get(self.k, (None, 0))[0]
            if en is not None:
                raise classes[en]()
            return self

        def __exit__(self, et, ev, tb):
            add(["exit", self.k] + exc_info(ev))
            ex = mgrs.get(self.k, (None, 0))[1]
            if isinstance(ex, list):
                raise classes[ex[1]]()
            return bool(ex)

        async def __aenter__(self):
            return self.__enter__()

        async def __aexit__(self, et, ev, tb):
            return self.__exit__(et, ev, tb)

    env = {"t": t, "c": c, "ms": ms, "p": p, "fr": fr, "It": It, "AIt": AIt, "M": M, "sw": sw, "en": en, "ex": ex}
    for k in case.get("hcs", []):
        env[f"HC{k}"] = binding(int(k))
    return env


def result_of(fn_result=None, exc=None):
    if exc is None:
        v = fn_result
        return ["ret", v if (v is None or (isinstance(v, int) and not isinstance(v, bool))) else "other"]
    return ["exc", type(exc).__name__, type(exc.__cause__).__name__ if exc.__cause__ is not None else None]


def run_cpython(case, src):
    log = []
    classes = class_objects()
    g = dict(classes)
    g.update(make_env(case, log, classes, g))
    try:
        code = compile(src, "<c02>", "exec")
    except SyntaxError as exc:
        return {"log": [], "res": ["invalid", str(exc)[:100]]}
    exec(code, g)  # pylint: disable=exec-used
    try:
        val = g["main"]()
        if case.get("amain"):
            # no recording object ever suspends: the coroutine runs to completion on the first send
            try:
                val.send(None)
            except StopIteration as stop:
                val = stop.value
            else:
                raise RuntimeError("coroutine suspended")
        res = result_of(val)
    except BaseException as exc:  # pylint: disable=broad-except
        res = result_of(exc=exc)
    return {"log": log, "res": res}


async def run_pyscript(case, src):
    from vh.hassenv import new_interp

    log = []
    a, _gc = new_interp("pvc02")
    classes = class_objects()      # native classes: pyscript's own class machinery is C03's subject
    a.global_sym_table.update(classes)
    a.global_sym_table.update(make_env(case, log, classes, a.global_sym_table))
    try:
        a.parse(src)
        await a.eval()
        main = a.global_sym_table["main"]
    except BaseException as exc:  # pylint: disable=broad-except
        return {"log": log, "res": ["setup-failed", type(exc).__name__, str(exc)[:100]]}
    try:
        res = result_of(await main.call(a))
    except BaseException as exc:  # pylint: disable=broad-except
        res = result_of(exc=exc)
    return {"log": log, "res": res}


async def run_all(req):
    import shutil
    import tempfile

    from pytest_homeassistant_custom_component.common import async_test_home_assistant

    from vh.hassenv import interp_env_setup, reset_pyscript_class_state

    out = []
    tmp = tempfile.mkdtemp(prefix="pv_c02_", dir="/var/tmp")
    try:
        async with async_test_home_assistant(config_dir=tmp) as hass:
            reset_pyscript_class_state()
            interp_env_setup(hass)
            for case in req["cases"]:
                src = render(case)
                py = run_cpython(case, src)
                if py["res"][0] == "invalid":
                    ps = {"log": [], "res": ["invalid", ""]}
                else:
                    ps = await run_pyscript(case, src)
                out.append({"ps": ps, "py": py})
            await hass.async_stop(force=True)
    finally:
        shutil.rmtree(tmp, ignore_errors=True)
    return out


def main():
    from vh.hassenv import run_virtual

    req = json.loads(sys.stdin.read())
    real_stdout = sys.stdout
    sys.stdout = sys.stderr
    try:
        out = run_virtual(run_all(req))
    finally:
        sys.stdout = real_stdout
    print("RESULT " + json.dumps(out))


if __name__ == "__main__":
    main()
