"""Worker for C11: run generated multi-file configurations on the real pyscript (PyscriptEnv + virtual clock) and on
CPython (external oracle, separate subprocess importing the same sources as ordinary modules), and report the
global tables of all contexts.  stdin JSON {"cases": [...]} -> 'RESULT <json>'.

case = {"legacy": bool, "files": {relpath: source}, "apps": [app names], "fires": [[ctx, func, event], ...],
        "oracle": bool, "ctxmap": {python module name: pyscript context name}, "load_order": [python module names]}
"""
import json
import os
import shutil
import signal
import subprocess
import sys
import types

CASE_LIMIT_S = 20.0      # wall-clock watchdog per case (a normal case takes 0.1-0.5 s, a few seconds on a saturated machine)


class CaseHang(KeyboardInterrupt):
    """raised by the SIGALRM handler; a KeyboardInterrupt subclass so that neither pyscript's `except Exception` nor asyncio's
    task machinery swallows it"""


def _on_alarm(_signum, _frame):
    raise CaseHang()


ENVS = []


def plain(v, mod_ctx_of, func_info):
    if isinstance(v, bool):
        return ["o", "bool"]
    if isinstance(v, int):
        return ["i", v]
    if v is None:
        return ["n"]
    if isinstance(v, str):
        return ["s", v]
    if isinstance(v, list) and all(isinstance(x, str) for x in v):
        return ["l", list(v)]
    if isinstance(v, types.ModuleType):
        c = mod_ctx_of(v)
        return ["m", c] if c is not None else ["o", "module:" + getattr(v, "__name__", "?")]
    fi = func_info(v)
    if fi is not None:
        return ["f", fi[0], fi[1]]
    return ["o", type(v).__name__]


def keep_name(k):
    if not isinstance(k, str) or "." in k:
        return False
    if k.startswith("__") and k != "__all__":
        return False
    return True


def project(tables):
    """drop 'x -> submodule x of this package' (set by CPython's import system on the parent package)"""
    out = {}
    for ctx, tab in tables.items():
        out[ctx] = {k: v for k, v in tab.items() if not (v[0] == "m" and v[1] == ctx + "." + k)}
    return out


async def run_pyscript(case):
    from vh.hassenv import PyscriptEnv

    from custom_components.pyscript.eval import EvalFunc, EvalFuncVar
    from custom_components.pyscript.global_ctx import GlobalContextMgr

    apps_config = {a: {} for a in case.get("apps", [])} or None
    files = dict(case["files"])
    files.update(case.get("before") or {})          # reload scenario: start with the sources before the edit
    env0 = PyscriptEnv(files=files, legacy=case["legacy"], apps_config=apps_config)
    ENVS.append(env0)
    async with env0 as env:
        await env.settle()
        if case.get("before"):
            import time as _time

            for k, rel in enumerate(sorted(case["before"])):
                env.write(rel, case["files"][rel], mtime=_time.time() + 100 + k)      # the edit
            await env.reload()
            await env.settle()
        for _ctx, _fn, ev, opts in case["fires"]:
            kind = opts.get("kind")
            if kind == "state":
                env.hass.states.async_set("pyscript." + ev, str(opts["v"]))
            elif kind == "event":
                env.hass.bus.async_fire(ev, {"val": opts["v"]})
            else:
                env.hass.bus.async_fire(ev, {})
            if opts.get("gap"):
                await env.advance(float(opts["gap"]))       # later firings overlap with runs that are asleep
            else:
                await env.settle()
        ctxs = dict(GlobalContextMgr.contexts)

        def mod_ctx_of(m):
            for n, c in ctxs.items():
                if c.module is m:
                    return n
            return None

        def func_info(v):
            if isinstance(v, EvalFuncVar):
                v = v.get_func()
            if isinstance(v, EvalFunc):
                return (v.global_ctx.get_name(), v.get_name())
            return None

        tables = {}
        for n, c in ctxs.items():
            tables[n] = {k: plain(v, mod_ctx_of, func_info) for k, v in c.global_sym_table.items() if keep_name(k)}
        # identity of module objects across importers: every module value must be the .module of a registered context
        # (otherwise it is reported as ["o", ...] above); also one module object per context
        mods = {}
        for n, c in ctxs.items():
            if c.module is not None:
                mods.setdefault(id(c.module), []).append(n)
        dup = sorted(ns for ns in mods.values() if len(ns) > 1)
        errs = [r[2][:160] for r in env.log.records if r[1] == "ERROR"][:6]
        return {"tables": project(tables), "dup_module_objects": dup, "errors": errs}


def main():
    req = json.loads(sys.stdin.read())
    from vh.hassenv import run_virtual

    cases = req["cases"]
    # external oracle: one CPython subprocess for all cases of this chunk
    want = [i for i, c in enumerate(cases) if c.get("oracle")]
    oracle = {}
    if want:
        payload = {"cases": [{"files": cases[i]["files"], "fires": cases[i]["fires"], "ctxmap": cases[i]["ctxmap"],
                              "load_order": cases[i]["load_order"]} for i in want]}
        here = os.path.dirname(os.path.abspath(__file__))
        p = subprocess.run([sys.executable, "-S", os.path.join(here, "c11_oracle.py")], input=json.dumps(payload),
                           stdout=subprocess.PIPE, stderr=subprocess.PIPE, text=True, timeout=600,
                           env={"PYTHONHASHSEED": "0", "PYTHONDONTWRITEBYTECODE": "1", "PATH": os.environ.get("PATH", "")})
        got = None
        for line in reversed(p.stdout.splitlines()):
            if line.startswith("RESULT "):
                got = json.loads(line[7:])
                break
        if got is None:
            raise RuntimeError("oracle gave no result: " + p.stderr[-2000:])
        for i, r in zip(want, got):
            oracle[i] = project(r)
    out = []
    # import everything heavy before the first watchdog is armed
    import custom_components.pyscript  # noqa: F401  pylint: disable=unused-import,import-outside-toplevel
    import pytest_homeassistant_custom_component.common  # noqa: F401  pylint: disable=unused-import,import-outside-toplevel

    signal.signal(signal.SIGALRM, _on_alarm)
    for i, case in enumerate(cases):
        del ENVS[:]
        try:
            signal.setitimer(signal.ITIMER_REAL, CASE_LIMIT_S, 5.0)
            try:
                r = run_virtual(run_pyscript(case))
            finally:
                signal.setitimer(signal.ITIMER_REAL, 0)
        except CaseHang:
            signal.setitimer(signal.ITIMER_REAL, 0)
            # the real code did not finish this configuration: recorded as an observation, the other cases still run
            r = {"tables": {}, "dup_module_objects": [], "errors": ["HANG: case not finished after %.0f s" % CASE_LIMIT_S], "hang": True}
            for e in ENVS:
                if e.tmp:
                    shutil.rmtree(e.tmp, ignore_errors=True)
        except Exception as exc:  # pylint: disable=broad-except
            r = {"tables": {}, "dup_module_objects": [], "errors": ["HARNESS " + repr(exc)[:300]]}
        r["oracle"] = oracle.get(i)
        out.append(r)
    print("RESULT " + json.dumps(out))


main()
