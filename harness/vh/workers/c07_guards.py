"""Worker for C07: run generated guard scenarios on the REAL pyscript (both subsystems) on the virtual clock.

stdin: {"cases": [case, ...]}  (case format: see vh/props/c07.py)      stdout: 'RESULT [obs, ...]'

Per case one fresh HomeAssistant + pyscript with one generated script: a function `f` carrying the generated
@state_active / @time_active(hold_off=) guards and state / event / time triggers, a `caller` that calls `f` directly, and
optionally `g` watching the otherwise unwatched entity.  The driver fires the occurrences at chosen virtual instants
(ticks of 2^-20 s, exactly representable), the script reports each run through `event.fire("pv_run", …)`.
`TrigTime.timer_active_check` is wrapped by a recorder that delegates to the real function, so the observation also says
which `now` / `startup_time` the decorator path handed to it.
"""
import asyncio
import datetime as dt
import json
import sys
from unittest.mock import patch

from vh.hassenv import START, PyscriptEnv, run_virtual, settle, sleep_until

TICK = 2 ** 20
EPOCH = dt.datetime(1970, 1, 1)
US = dt.timedelta(microseconds=1)

NAMES = {0: "pyscript.x", 1: "pyscript.y", 2: "pyscript.z", 10: "pyscript.x.old"}


def us_of_dt(d):
    return (d - EPOCH) // US


def dt_of_us(us):
    return EPOCH + dt.timedelta(microseconds=us)


def expr_src(e):
    k = e[0]
    if k == "const":
        return "True" if e[1] else "False"
    if k == "eq":
        return f"{NAMES[e[1]]} == '{e[2]}'"
    if k == "not":
        return f"not ({expr_src(e[1])})"
    if k == "and":
        return f"({expr_src(e[1])}) and ({expr_src(e[2])})"
    if k == "or":
        return f"({expr_src(e[1])}) or ({expr_src(e[2])})"
    raise ValueError(e)


def spec_src(s):
    return ("not " if s["neg"] else "") + s["txt"]


STATE_SRC = ["pyscript.x", "pyscript.w"]


def event_name(j):
    return "pv_go" if j == 0 else f"pv_go{j}"


def once_str(us):
    d = dt_of_us(us)
    return f"once({d.year}/{d.month:02d}/{d.day:02d} {d.hour:02d}:{d.minute:02d}:{d.second:02d}.{d.microsecond:06d})"


def build_script(case):
    kinds = {o["k"] for o in case["ops"]} | set(case.get("extra_trig", []))
    guards = []
    ta = case.get("ta")
    if ta is not None:
        args = [repr(spec_src(s)) for s in ta["specs"]]
        if ta.get("hold") is not None:
            args.append(f"hold_off={ta['hold'] / TICK!r}")
        ta_line = f"@time_active({', '.join(args)})"
    else:
        ta_line = None
    sa_line = f"@state_active({expr_src(case['sa'])!r})" if case.get("sa") is not None else None
    order = [ta_line, sa_line] if case.get("ta_first") else [sa_line, ta_line]
    guards = [g for g in order if g]
    trigs = []
    ntrig = case.get("ntrig", {})          # repeated trigger decorators of one kind (legacy: one TrigInfo each)
    if "held" in kinds:
        trigs.append(f'@state_trigger("pyscript.x", state_hold={case["state_hold"] / TICK!r})')
    elif "state" in kinds:
        for j in range(ntrig.get("state", 1)):
            trigs.append(f'@state_trigger("{STATE_SRC[j]}")')
    if "event" in kinds:
        for j in range(ntrig.get("event", 1)):
            trigs.append(f'@event_trigger("{event_name(j)}")')
    if "time" in kinds:
        for j in range(ntrig.get("time", 1)):
            times = [o["w"] for o in case["ops"] if o["k"] == "time" and o.get("src", 0) == j]
            trigs.append("@time_trigger(" + ", ".join(repr(once_str(w)) for w in times) + ")" if times else '@time_trigger("once(2001/01/01 00:00:00)")')
    if not trigs:
        trigs.append('@event_trigger("pv_go")')
    if case.get("trig_above"):
        decs = trigs + guards
    else:
        decs = guards + trigs
    src = "\n".join(decs) + """
def f(**kw):
    event.fire("pv_run", seq=kw.get("seq"), tt=kw.get("trigger_type"), value=str(kw.get("value")), var=str(kw.get("var_name")), ttime=str(kw.get("trigger_time")))

@event_trigger("pv_call")
def caller(seq=None, **kw):
    f(seq=seq, trigger_type="direct")
"""
    if case.get("y_watched"):
        src += """
@state_trigger("pyscript.y")
def g(**kw):
    pass
"""
    return src


async def goto(tick, force=True):
    loop = asyncio.get_running_loop()
    target = START + tick / TICK
    await sleep_until(target)
    if force and abs(loop.time() - target) < 1e-6:
        loop._v_time = target  # pylint: disable=protected-access


def sun_table(hass, day0, ndays):
    from homeassistant.helpers import sun

    location = sun.get_astral_location(hass)
    if isinstance(location, tuple):
        location = location[0]
    tab = []
    for d in range(day0, day0 + ndays):
        date = (EPOCH + dt.timedelta(days=d)).date()
        for ss, fn in ((False, location.sunrise), (True, location.sunset)):
            try:
                t = fn(date)
            except Exception:  # pylint: disable=broad-except
                continue
            naive = dt.datetime(t.year, t.month, t.day, t.hour, t.minute, t.second)
            tab.append([ss, d, us_of_dt(naive)])
    return tab


def build_script_multi(case):
    src = ""
    for i, fn in enumerate(case["funcs"]):
        hold = f", state_hold={fn['hold'] / TICK!r}" if fn.get("hold") is not None else ""
        decs = [f"@state_active({expr_src(fn['sa'])!r})", f'@state_trigger("pyscript.x"{hold})']
        if fn.get("trig_above"):
            decs.reverse()
        src += "\n".join(decs) + f"""
def f{i}(**kw):
    event.fire("pv_run", fn={i}, value=str(kw.get("value")))

"""
    src += """
@state_trigger("pyscript.y")
def g(**kw):
    pass
"""
    return src


async def scenario_multi(case):
    """several functions on the same trigger entity: the driver only moves the clock and sets states; every run is
    reported as (function, value, virtual microseconds) and attributed to occurrences by the property module"""
    obs = {"multi_runs": [], "errors": [], "extra": 0}
    async with PyscriptEnv(files={"a.py": build_script_multi(case)}, legacy=case["legacy"], base_dt=dt_of_us(case["base_us"])) as env:
        hass = env.hass
        for op in case["ops"]:
            k = op["k"]
            await goto(op["t"] + (128 if k == "collect" else 0), force=k != "collect")
            if k == "xset":
                hass.states.async_set("pyscript.x", str(op["v"]))
            elif k == "sety":
                hass.states.async_set("pyscript.y", str(op["v"]))
            await settle()
        await goto(case["ops"][-1]["t"] + 3600 * TICK, force=False)
        await settle()
        for t, typ, data in env.events:
            if typ == "pv_run":
                obs["multi_runs"].append([data.get("fn"), data.get("value"), round(t * 1000000)])
        errs = [r for r in env.log.records if r[1] == "ERROR"]
        obs["errors"].extend(f"{n}: {m}"[:300] for n, _l, m in errs[:3])
        obs["extra"] += len(errs)
    return obs


async def scenario(case):
    if case.get("multi"):
        return await scenario_multi(case)
    from custom_components.pyscript.trigger import TrigTime

    calls = []
    real = TrigTime.timer_active_check.__func__

    async def spy(cls, time_spec, now, startup_time):
        res = await real(cls, time_spec, now, startup_time)
        calls.append((us_of_dt(now), us_of_dt(startup_time) if isinstance(startup_time, dt.datetime) else None, bool(res)))
        return res

    base_dt = dt_of_us(case["base_us"])
    obs = {"runs": [], "seen": [], "extra": 0, "startup": None, "errors": [], "sun": []}
    with patch.object(TrigTime, "timer_active_check", classmethod(spy)):
        async with PyscriptEnv(files={"a.py": build_script(case)}, legacy=case["legacy"], base_dt=base_dt) as env:
            hass = env.hass
            if case.get("want_sun"):
                obs["sun"] = sun_table(hass, case["base_us"] // 86400000000 - 2, 12)
            ev_pos = 0
            ops = case["ops"]
            i = 0
            occ_idx = 0
            while i < len(ops):
                # a burst = consecutive ops with the same tick and "burst" flag: fired without settling in between
                j = i + 1
                while j < len(ops) and ops[j].get("burst") and ops[j]["t"] == ops[i]["t"]:
                    j += 1
                group = ops[i:j]
                op0 = group[0]
                late = op0["k"] in ("time", "held")      # fired by a timer of pyscript: go slightly past it
                await goto(op0["t"] + (128 if late else 0), force=not late)
                expect = []
                for op in group:
                    k = op["k"]
                    if k == "event":
                        hass.bus.async_fire(event_name(op.get("src", 0)), {"seq": occ_idx})
                        expect.append(("event", occ_idx, None))
                    elif k == "direct":
                        hass.bus.async_fire("pv_call", {"seq": occ_idx})
                        expect.append(("direct", occ_idx, None))
                    elif k == "state":
                        hass.states.async_set(STATE_SRC[op.get("src", 0)], str(op["v"]))
                        expect.append(("state", STATE_SRC[op.get("src", 0)], str(op["v"])))
                    elif k == "sety":
                        hass.states.async_set("pyscript.y", str(op["v"]))
                        continue
                    elif k == "xset":          # the change that starts a state_hold; the occurrence is the later "held" op
                        hass.states.async_set("pyscript.x", str(op["v"]))
                        continue
                    elif k == "held":
                        expect.append(("state", "pyscript.x", str(op["v"])))
                    elif k == "time":
                        expect.append(("time", None, str(dt_of_us(op["w"]))))
                    occ_idx += 1
                await settle()
                new_events = env.events[ev_pos:]
                ev_pos = len(env.events)
                runs = [e[2] for e in new_events if e[1] == "pv_run"]
                got = []
                for tt, seq, val in expect:
                    hit = None
                    for r in runs:
                        if r.get("tt") != tt:
                            continue
                        if tt in ("event", "direct") and r.get("seq") != seq:
                            continue
                        if tt == "state" and (r.get("value") != val or r.get("var") != seq):
                            continue
                        if tt == "time" and r.get("ttime") != val:
                            continue
                        hit = r
                        break
                    if hit is not None:
                        runs.remove(hit)
                    got.append(hit is not None)
                obs["extra"] += len(runs)
                obs["runs"].extend(got)
                new_calls, calls[:] = list(calls), []
                if new_calls and obs["startup"] is None:
                    obs["startup"] = new_calls[0][1]
                if len(expect) == 1:
                    nows = {c[0] for c in new_calls}
                    if len(nows) > 1:
                        obs["errors"].append(f"timer_active_check saw several instants for one occurrence: {sorted(nows)}")
                    obs["seen"].append(new_calls[0][0] if new_calls else None)
                else:
                    obs["seen"].extend([None] * len(expect))
                i = j
            # nothing may run by itself afterwards
            await goto(ops[-1]["t"] + 3600 * TICK if ops else 3600 * TICK, force=False)
            await settle()
            obs["extra"] += len([e for e in env.events[ev_pos:] if e[1] == "pv_run"])
            errs = [r for r in env.log.records if r[1] == "ERROR"]
            obs["errors"].extend(f"{n}: {m}"[:300] for n, _l, m in errs[:3])
            obs["extra"] += len(errs)
    return obs


def main():
    req = json.loads(sys.stdin.read())
    out = []
    for case in req["cases"]:
        try:
            out.append(run_virtual(scenario(case)))
        except Exception as exc:  # pylint: disable=broad-except
            import traceback

            out.append({"runs": [], "seen": [], "extra": 999, "startup": None, "sun": [], "multi_runs": [],
                        "errors": ["driver exception: " + "".join(traceback.format_exception_only(type(exc), exc))[:400]]})
    print("RESULT " + json.dumps(out))


main()
