"""Worker for C14: run generated task graphs of the REAL pyscript on the virtual clock.
stdin JSON {"cases": [...]} -> 'RESULT <json list of observations>'.

Case (all times in ticks of 2**-12 virtual seconds; every duration/injection time is a sum of powers of two that are
distinct within the case, so no two timers of a case ever fall on the same instant):
  {"sub": "legacy"|"dm",
   "tasks": [{"kind": "ev"|"st"|"svc"|"create"|"csvc", "at": ticks|null, "steps": [step, ...]}, ...],  # index = task number
            ("csvc": a @service started by another task's ["call", x] step instead of by the driver)
   "cbform": "func"|"method",      # callbacks are plain functions / bound methods of distinct instances of ONE pyscript class
   "cbs":   [{"sleep": ticks (0 = does not suspend), "raise": bool}, ...],                       # index = callback function
   "faults": [{"task": i, "pt": ["step", k] | ["cb", j], "off": ticks}, ...]}
  step = ["sleep", d] | ["add", x, j, a] | ["rem", x, j] | ["wait", x] | ["cancel", x] | ["cancelself"]
       | ["create", c] | ["claim", n] | ["raise"] | ["ret", v]
       | ["call", x]      service.call("pyscript", <service x>, blocking=True), then event "r"
       | ["exec", d]      task.executor(<native function blocking in its thread>); the thread is released after d ticks
   "ops": [["reload_entry"|"reload_file", ticks], ...]   the driver reloads the pyscript config entry / the script file at that instant
A fault calls the real Function.user_task_cancel(task i) `off` ticks after task i reached the given point (marker of step k
/ begin of callback j running as done-callback of task i).

Observation: {"events": [[t, who, kind, ...data, snap], ...], "final": {...}, "err": [...]}
  who  = number of the task in which the event was fired (asyncio.current_task() looked up in the script's table T; -1 = none)
  snap = sum over tasks i of 16**i * (1*[in our_tasks] + 2*[in task2cb] + 4*[in task2context] + 8*[in unique_task2name])
  kinds: "m" k | "x" excname | "w" x done cancelled result | "r" x done cancelled result | "cb" j a | "ce" j | "f" i ok
"""
import asyncio
import json
import sys

import functools
import threading

from vh.hassenv import START, PyscriptEnv, VLoop, run_virtual, settle, sleep_until

TICK = 2.0 ** -12


class VLoop2(VLoop):
    """VLoop whose clock keeps running while a `pv_block` executor job waits for its release (such a job stands for a
    thread that is busy for a virtual duration).  From its release until the THREAD has really returned the job is counted
    like any real job, so the loop polls in real time and the completion lands on the virtual instant of the release,
    whatever the machine load.  (The asyncio future of a cancelled call is done long before its thread: counting is tied
    to the thread, not to that future.)"""

    def __init__(self):
        super().__init__()
        self._v_vjobs = {}          # threading.Event -> concurrent future of the thread waiting on it
        self._v_vreleased = set()

    def run_in_executor(self, executor, func, *args):
        f = func
        while isinstance(f, functools.partial):
            f = f.func
        if getattr(f, "__name__", "") != "pv_block" or not args:
            return super().run_in_executor(executor, func, *args)
        if executor is None:
            executor = self._default_executor
            if executor is None:
                import concurrent.futures

                executor = concurrent.futures.ThreadPoolExecutor(thread_name_prefix="pv")
                self._default_executor = executor
        ev = args[0]
        cfut = executor.submit(func, *args)
        self._v_vjobs[ev] = cfut
        fut = asyncio.wrap_future(cfut, loop=self)      # its thread-side callback is registered first ...
        cfut.add_done_callback(lambda _c: self.call_soon_threadsafe(self._v_thread_done, ev))      # ... ours second
        return fut

    def _v_thread_done(self, ev):
        if ev in self._v_vreleased:
            self._v_vreleased.discard(ev)
            self._v_executor_jobs -= 1

    def v_release(self, ev, count=True):
        """let the thread waiting on `ev` go; with count=True the loop waits (in real time) for it to return"""
        cfut = self._v_vjobs.get(ev)
        if count and cfut is not None and not cfut.done() and ev not in self._v_vreleased:
            self._v_vreleased.add(ev)
            self._v_executor_jobs += 1
        ev.set()


def run_virtual2(coro):
    loop = VLoop2()
    asyncio.set_event_loop(loop)
    try:
        return loop.run_until_complete(coro)
    finally:
        try:
            pending = [t for t in asyncio.all_tasks(loop) if not t.done()]
            for t in pending:
                t.cancel()
            if pending:
                loop.run_until_complete(asyncio.gather(*pending, return_exceptions=True))
            loop.run_until_complete(loop.shutdown_asyncgens())
        except Exception:  # pylint: disable=broad-except
            pass
        asyncio.set_event_loop(None)
        loop.close()


def secs(ticks):
    return repr(ticks * TICK)


def _cb_lines(case):
    out = []
    if case.get("cbform") == "method":
        # distinct callables sharing one underlying function: bound methods of distinct instances, each stored once
        out += ["class CbK:",
                "    def __init__(self, j, sl, rs):",
                "        self.j = j",
                "        self.sl = sl",
                "        self.rs = rs",
                "    def run(self, *a, **k):",
                "        event.fire('pv_e', ev='cb', cb=self.j, a=a[0])",
                "        if self.sl > 0:",
                "            task.sleep(self.sl)",
                "            event.fire('pv_e', ev='ce', cb=self.j)",
                "        if self.rs:",
                "            raise ValueError('callback')",
                ""]
        for j, cb in enumerate(case["cbs"]):
            out.append(f"cbo{j} = CbK({j}, {secs(cb['sleep']) if cb['sleep'] else 0}, {bool(cb['raise'])})")
            out.append(f"cb{j} = CB.setdefault({j}, cbo{j}.run)")
        out.append("")
    else:
        for j, cb in enumerate(case["cbs"]):
            out.append(f"def cb{j}(*a, **k):")
            out.append(f"    event.fire('pv_e', ev='cb', cb={j}, a=a[0])")
            if cb["sleep"]:
                out.append(f"    task.sleep({secs(cb['sleep'])})")
                out.append(f"    event.fire('pv_e', ev='ce', cb={j})")
            if cb["raise"]:
                out.append("    raise ValueError('callback')")
            out.append(f"cb{j} = CB.setdefault({j}, cb{j})")
            out.append("")
    return out


def fn_name(case, i):
    tk = case["tasks"][i]
    return f"fng{tk['fn']}" if tk.get("fn") is not None else f"body{i}"


def _step_lines(case, i, ind):
    """every event carries the run's local variable `me`: a run must keep its own frame while others run"""
    out = []
    steps = case["tasks"][i]["steps"]
    for k, st in enumerate(steps):
        out.append(f"{ind}event.fire('pv_e', ev='m', k={k}, me=me)")
        op = st[0]
        if op == "sleep":
            out.append(f"{ind}task.sleep({secs(st[1])})")
        elif op == "exec":
            # a plain function in a worker thread; the harness releases the thread st[1] virtual ticks after this marker
            out.append(f"{ind}task.executor(pv_block, hass.data['pv_EV'][({i}, {k})])")
        elif op == "add":
            out.append(f"{ind}task.add_done_callback(T[{st[1]}], cb{st[2]}, {st[3]})")
        elif op == "rem":
            out.append(f"{ind}task.remove_done_callback(T[{st[1]}], cb{st[2]})")
        elif op == "wait":
            out.append(f"{ind}task.wait({{T[{st[1]}]}})")
            out.append(f"{ind}event.fire('pv_e', ev='w', x={st[1]}, me=me)")
        elif op == "cancel":
            out.append(f"{ind}task.cancel(T[{st[1]}])")
        elif op == "cancelself":
            out.append(f"{ind}task.cancel()")
        elif op == "create":
            c = st[1]
            if case["tasks"][c].get("fn") is not None:
                out.append(f"{ind}T[{c}] = task.create({fn_name(case, c)}, {c})")
            else:
                out.append(f"{ind}T[{c}] = task.create(body{c})")
        elif op == "claim":
            out.append(f"{ind}task.unique('n{st[1]}')")
        elif op == "call":
            out.append(f"{ind}service.call('pyscript', 'body{st[1]}', blocking=True)")
            out.append(f"{ind}event.fire('pv_e', ev='r', x={st[1]}, me=me)")
        elif op == "raise":
            out.append(f"{ind}raise ValueError('body')")
        elif op == "ret":
            out.append(f"{ind}return {st[1]}")
        else:
            raise ValueError(f"unknown step {st!r}")
    if not steps or steps[-1][0] not in ("raise", "ret"):
        out.append(f"{ind}event.fire('pv_e', ev='m', k={len(steps)}, me=me)")
    return out


def _unit_lines(case, members):
    """one function: a single task, or several tasks (overlapping runs) of the SAME function told apart by argument `run`"""
    i0 = members[0]
    kind = case["tasks"][i0]["kind"]
    grouped = case["tasks"][i0].get("fn") is not None
    name = fn_name(case, i0)
    out = []
    if kind == "ev":
        out.append(f"@event_trigger('pv_go_{name}')")
        out.append(f"def {name}(run=None, **kw):" if grouped else f"def {name}(**kw):")
    elif kind == "st":
        out.append(f"@state_trigger(\"pyscript.pv_v{i0} == 'go'\")")
        out.append(f"def {name}(**kw):")
    elif kind == "shut":
        out.append("@time_trigger('shutdown')")
        out.append(f"def {name}(**kw):")
    elif kind in ("svc", "csvc"):
        out.append("@service")
        out.append(f"def {name}(run=None):" if grouped else f"def {name}():")
    else:
        out.append(f"def {name}(run):" if grouped else f"def {name}():")
    out.append("    me = run" if grouped else f"    me = {i0}")
    if kind != "create":
        out.append("    T[me] = task.current_task()")
    out.append("    try:")
    if grouped:
        for n, i in enumerate(members):
            out.append(f"        {'if' if n == 0 else 'elif'} me == {i}:")
            out += _step_lines(case, i, "            ")
    else:
        out += _step_lines(case, i0, "        ")
    out.append("    except Exception as e:")
    out.append("        event.fire('pv_e', ev='x', e=type(e).__name__, me=me)")
    out.append("        raise e")
    out.append("")
    return out


def make_scripts(case):
    """-> {"c14.py": text[, "c14s.py": text]}; a shutdown-trigger task lives in its own file (reloaded to start it)"""
    units = {}
    for i, tk in enumerate(case["tasks"]):
        key = ("g", tk["fn"]) if tk.get("fn") is not None else ("t", i)
        units.setdefault(key, []).append(i)
    # the task table and the callback callables live in hass.data (hass_is_global): reloading a file or the config entry
    # re-executes the file, but runs in flight and later runs must keep talking about the same tasks / callables
    head = ["T = hass.data.setdefault('pv_T', {})", "CB = hass.data.setdefault('pv_CB', {})", "",
            "@pyscript_compile", "def pv_block(ev):", "    ev.wait(30)", "    return 1", ""]
    main = head + _cb_lines(case)
    shut = head + _cb_lines(case)
    has_shut = False
    for members in units.values():
        if case["tasks"][members[0]]["kind"] == "shut":
            shut += _unit_lines(case, members)
            has_shut = True
        else:
            main += _unit_lines(case, members)
    files = {"c14.py": "\n".join(main) + "\n"}
    if has_shut:
        files["c14s.py"] = "\n".join(shut) + "\n"
    return files


def result_code(t):
    """-> [done, cancelled, result] with result: null | int | "exc:<Type>" """
    if t is None:
        return [False, False, None]
    if not t.done():
        return [False, False, None]
    if t.cancelled():
        return [True, True, None]
    exc = t.exception()
    if exc is not None:
        return [True, False, "exc:" + type(exc).__name__]
    r = t.result()
    if r is None or isinstance(r, int):
        return [True, False, r]
    return [True, False, "val:" + type(r).__name__]


async def run_case(case):
    from custom_components.pyscript.function import Function
    from custom_components.pyscript.global_ctx import GlobalContextMgr
    from homeassistant.const import MATCH_ALL
    from homeassistant.core import callback as ha_callback

    legacy = case["sub"] == "legacy"
    ntasks = len(case["tasks"])
    events = []
    errs = []
    files = make_scripts(case)
    async with PyscriptEnv(files=files, legacy=legacy, hass_is_global=True) as env:
        hass = env.hass
        loop = asyncio.get_running_loop()
        hass.data["pv_EV"] = {(i, k): threading.Event() for i, tk in enumerate(case["tasks"]) for k, st in enumerate(tk["steps"])
                              if st[0] == "exec"}
        released = set()

        def release_event(key):
            if key not in released:
                released.add(key)
                loop.v_release(hass.data["pv_EV"][key])
        for i, tk in enumerate(case["tasks"]):
            if tk["kind"] == "st":
                hass.states.async_set(f"pyscript.pv_v{i}", "idle")
        await env.settle()
        gctx = GlobalContextMgr.get("file.c14")
        if gctx is None:
            raise RuntimeError("script file.c14 was not loaded: " + repr(env.log.records[-3:]))
        table = hass.data["pv_T"]
        evs = hass.data["pv_EV"]
        base = loop.time()
        baseline_cb = set(Function.task2cb.keys())
        baseline_ctx = set(Function.task2context.keys())
        baseline_ours = set(Function.our_tasks)

        def now_ticks():
            v = (loop.time() - base) / TICK
            r = int(round(v))
            if abs(v - r) > 1e-6:
                errs.append(f"HARNESS time {v!r} is not a whole number of ticks")
            return r

        def who_of(tsk):
            for i, t in table.items():
                if t is tsk:
                    return i
            return -1

        def snap():
            s = 0
            for i in range(ntasks):
                t = table.get(i)
                if t is None:
                    continue
                b = ((1 if t in Function.our_tasks else 0) + (2 if t in Function.task2cb else 0)
                     + (4 if t in Function.task2context else 0) + (8 if t in Function.unique_task2name else 0))
                s += b * (16 ** i)
            return s

        faults = [dict(f, armed=True) for f in case.get("faults", [])]

        def fire_fault(i):
            tsk = table.get(i)
            ok = False
            if tsk is not None:
                coro = Function.user_task_cancel(tsk)
                try:
                    coro.send(None)
                    errs.append("HARNESS user_task_cancel(other) suspended")
                except StopIteration:
                    ok = True
                except TypeError:
                    ok = False
            events.append([now_ticks(), -1, "f", i, ok, snap()])

        def arm(i, pt):
            for f in faults:
                if f["armed"] and f["task"] == i and list(f["pt"]) == pt:
                    f["armed"] = False
                    loop.call_at(loop.time() + f["off"] * TICK, fire_fault, i)

        @ha_callback
        def rec(event):
            if event.event_type != "pv_e":
                return
            d = event.data
            who = who_of(asyncio.current_task())
            ev = d.get("ev")
            t = now_ticks()
            if "me" in d and d["me"] != who:
                events.append([t, who, "l", d["me"] if isinstance(d["me"], int) and d["me"] >= 0 else 97, snap()])
            if ev == "m":
                events.append([t, who, "m", d["k"], snap()])
                arm(who, ["step", d["k"]])
                if who >= 0 and d["k"] < len(case["tasks"][who]["steps"]) and case["tasks"][who]["steps"][d["k"]][0] == "exec":
                    loop.call_at(loop.time() + case["tasks"][who]["steps"][d["k"]][1] * TICK, release_event, (who, d["k"]))
            elif ev == "x":
                events.append([t, who, "x", d["e"], snap()])
            elif ev == "w":
                events.append([t, who, "w", d["x"]] + result_code(table.get(d["x"])) + [snap()])
            elif ev == "r":
                events.append([t, who, "r", d["x"]] + result_code(table.get(d["x"])) + [snap()])
            elif ev == "cb":
                events.append([t, who, "cb", d["cb"], d["a"], snap()])
                arm(who, ["cb", d["cb"]])
            elif ev == "ce":
                events.append([t, who, "ce", d["cb"], snap()])

        hass.bus.async_listen(MATCH_ALL, rec)

        inj = sorted((tk["at"], i) for i, tk in enumerate(case["tasks"]) if tk["kind"] not in ("create", "csvc"))
        inj += [(at, -1 - n) for n, (_op, at) in enumerate(case.get("ops", []))]
        inj.sort()
        for at, i in inj:
            await sleep_until(base + at * TICK)
            if i < 0:
                op = case["ops"][-1 - i][0]
                if op == "reload_entry":
                    eid = hass.config_entries.async_entries("pyscript")[0].entry_id
                    hass.async_create_task(hass.config_entries.async_reload(eid))
                else:
                    hass.async_create_task(hass.services.async_call("pyscript", "reload", {"global_ctx": "file.c14"}, blocking=True))
                continue
            tk = case["tasks"][i]
            kind = tk["kind"]
            data = {"run": i} if tk.get("fn") is not None else {}
            if kind == "ev":
                hass.bus.async_fire(f"pv_go_{fn_name(case, i)}", data)
            elif kind == "st":
                hass.states.async_set(f"pyscript.pv_v{i}", "go")
            elif kind == "shut":
                # reloading the file stops its triggers: the shutdown trigger of the old context runs now
                hass.async_create_task(hass.services.async_call("pyscript", "reload", {"global_ctx": "file.c14s"}, blocking=True))
            else:
                await hass.services.async_call("pyscript", fn_name(case, i), data, blocking=False)
        await sleep_until(base + case["horizon"] * TICK)
        await settle()
        for key in list(hass.data["pv_EV"]):
            if key not in released:             # threads of runs that were cancelled / never reached: let them go
                released.add(key)
                loop.v_release(hass.data["pv_EV"][key], count=False)

        final_tasks = []
        for i in range(ntasks):
            t = table.get(i)
            if t is None:
                final_tasks.append([False, False, False, None, 0])
                continue
            b = ((1 if t in Function.our_tasks else 0) + (2 if t in Function.task2cb else 0)
                 + (4 if t in Function.task2context else 0) + (8 if t in Function.unique_task2name else 0))
            final_tasks.append([True] + result_code(t) + [b])
        rev = {id(t): i for i, t in table.items()}
        names = []
        for key, tsk in sorted(Function.unique_name2task.items(), key=lambda kv: str(kv[0])):
            # keys are "ctx.name" strings, or (ctx, name) pairs once the D17 repair is in
            name = ".".join(key) if isinstance(key, tuple) else key
            if name.startswith("file.c14.n") and name[len("file.c14.n"):].isdigit():
                names.append([int(name[len("file.c14.n"):]), rev.get(id(tsk), -1)])
            elif name.startswith("file.c14s.n") and name[len("file.c14s.n"):].isdigit():
                names.append([10 + int(name[len("file.c14s.n"):]), rev.get(id(tsk), -1)])     # names of the shutdown file: 10 + n
            else:
                names.append([-1, -1])
        names.sort()
        known = set(table.values())

        def user_run(t):
            """reloads start new trigger watchers / reaper / waiter tasks: only runs of user functions count as stray"""
            try:
                inner = t.get_coro().cr_frame.f_locals.get("coro")
                qn = getattr(inner, "__qualname__", "")
            except Exception:  # pylint: disable=broad-except
                return True
            return any(x in qn for x in ("do_func_call", "._call", "func_call", "do_service_call"))
        stray = (len([t for t in Function.task2cb if t not in known and t not in baseline_cb])
                 + len([t for t in Function.task2context if t not in known and t not in baseline_ctx])
                 + len([t for t in Function.our_tasks if t not in known and t not in baseline_ours and not t.done() and user_run(t)]))
        final = {"tasks": final_tasks, "names": names, "stray": stray,
                 "reaper_q": Function.task_reaper_q.qsize() if Function.task_reaper_q is not None else -1}
        errs += [m[:200] for (_n, lvl, m) in env.log.records if lvl in ("ERROR", "CRITICAL") and "HARNESS" in m]
        nlog = len([1 for (_n, lvl, _m) in env.log.records if lvl in ("ERROR", "CRITICAL")])
        # freeze the observation here: tearing HA down cancels whatever still sleeps or waits (deadlocked graphs), and
        # those cancellations run done-callbacks that would otherwise still be recorded
        return {"events": list(events), "final": final, "err": list(errs[:5]), "nlog": nlog}


async def run_executor_case(case):
    """task.executor differential cases: {"sub":..., "exec": "value"|"raise"|"kwargs"|"pyfunc"|"coro", "arg": n}"""
    src = '''
import operator
out = {}

def helper(a, b=0):
    return a * 2 + b

@pyscript_compile
def native(a, b=0):
    if a < 0:
        raise ValueError("neg %d" % a)
    return a * 2 + b

@pyscript_compile
async def native_coro(a):
    return a

@service
def run_exec(mode=None, arg=None):
    r = ["none", None]
    try:
        if mode == "value":
            r = ["value", task.executor(native, arg)]
        elif mode == "kwargs":
            r = ["value", task.executor(native, arg, b=3)]
        elif mode == "raise":
            r = ["value", task.executor(native, -arg - 1)]
        elif mode == "builtin":
            r = ["value", task.executor(operator.floordiv, arg, 0)]
        elif mode == "pyfunc":
            r = ["value", task.executor(helper, arg)]
        elif mode == "coro":
            r = ["value", task.executor(native_coro, arg)]
        elif mode == "notcallable":
            r = ["value", task.executor(arg)]
    except Exception as e:
        r = ["exc", type(e).__name__ + ":" + str(e)[:40]]
    event.fire("pv_x", r=r)
'''
    async with PyscriptEnv(files={"c14x.py": src}, legacy=case["sub"] == "legacy") as env:
        await env.settle()
        await env.hass.services.async_call("pyscript", "run_exec", {"mode": case["exec"], "arg": case["arg"]}, blocking=True)
        await env.settle()
        await env.advance(1.0)
        res = [d["r"] for (_t, typ, d) in env.events if typ == "pv_x"]
        return {"exec": res[0] if res else ["missing", None], "n": len(res)}


def reference_executor(case):
    """what plain Python gives for the same call"""
    a = case["arg"]

    def native(a, b=0):
        if a < 0:
            raise ValueError("neg %d" % a)
        return a * 2 + b

    import operator
    try:
        m = case["exec"]
        if m == "value":
            return ["value", native(a)]
        if m == "kwargs":
            return ["value", native(a, b=3)]
        if m == "raise":
            return ["value", native(-a - 1)]
        if m == "builtin":
            return ["value", operator.floordiv(a, 0)]
        return ["exc", "TypeError"]
    except Exception as e:  # pylint: disable=broad-except
        return ["exc", type(e).__name__ + ":" + str(e)[:40]]


def main():
    req = json.loads(sys.stdin.read())
    out = []
    for case in req["cases"]:
        try:
            if "exec" in case:
                o = run_virtual(run_executor_case(case))
                o["ref"] = reference_executor(case)
                out.append(o)
            else:
                out.append(run_virtual2(run_case(case)))
        except Exception as exc:  # pylint: disable=broad-except
            import traceback
            out.append({"events": [], "final": None, "err": ["HARNESS " + type(exc).__name__ + ": " + str(exc)[:300],
                                                                  traceback.format_exc()[-600:]], "harness_error": True})
    print("RESULT " + json.dumps(out))


main()
