"""Worker (C18 attribution): render each generated program, run it (a) under CPython - external oracle,
traceback.extract_tb per exception of the cause/context chain - and (b) under the real pyscript inside a real
HomeAssistant, through the requested entry point; parse the error record(s) pyscript logged.
stdin JSON {"cases": [...]} -> 'RESULT <json list>'."""
import asyncio
import gc
import importlib
import json
import logging
import os
import re
import shutil
import sys
import tempfile
import traceback

from vh import c18lang as L
from vh.hassenv import PyscriptEnv, run_virtual

FRAME_RE = re.compile(r'^\s*File "([^"]+)", line (\d+), in (.*)$')
SEP_CAUSE = traceback._cause_message.strip()  # pylint: disable=protected-access
SEP_CTX = traceback._context_message.strip()  # pylint: disable=protected-access


def split_type_msg(line):
    line = line.strip()
    if ": " in line:
        t, m = line.split(": ", 1)
    else:
        t, m = line.rstrip(":"), ""
    return t.rsplit(".", 1)[-1], m


def parse_report(text):
    """pyscript's formatted report -> list (logged exception first) of {"tb": [[filekey, name, line]], "type", "msg"}"""
    segs = [[]]
    for ln in text.splitlines():
        if ln.strip() in (SEP_CAUSE, SEP_CTX):
            segs.append([])
        else:
            segs[-1].append(ln)
    out = []
    for seg in segs:
        tb = []
        exc_line = None
        for ln in seg:
            m = FRAME_RE.match(ln)
            if m:
                fk = L.file_key_of(m.group(1))
                if fk is not None:
                    tb.append([fk, m.group(3).strip(), int(m.group(2))])
                exc_line = None
            elif ln and not ln.startswith(" ") and exc_line is None:
                exc_line = ln
        if exc_line is None and not tb:
            continue
        t, msg = split_type_msg(exc_line or "")
        out.append({"tb": tb, "type": t, "msg": msg})
    out.reverse()
    return out


def cpython_oracle(files, case):
    """run the same source under CPython -> chain (raised exception first) or None"""
    d = tempfile.mkdtemp(prefix="pv_c18py_", dir="/var/tmp")
    saved_path = list(sys.path)
    try:
        for rel, text in files.items():
            p = os.path.join(d, rel)
            os.makedirs(os.path.dirname(p), exist_ok=True)
            with open(p, "w", encoding="utf-8") as f:
                f.write(text)
        sys.path.insert(0, os.path.join(d, "modules"))
        for m in ("pvmod", "pvlmod"):
            sys.modules.pop(m, None)
        importlib.invalidate_caches()
        main = os.path.join(d, "hello.py")
        g = {
            "__name__": "hello",
            "event_trigger": lambda *a, **k: (lambda f: f),
            "service": lambda f: f,
            "task": None,
        }
        import builtins

        builtins.pyscript_compile = lambda f: f
        builtins.pyscript_executor = lambda f: f
        exc = None
        try:
            exec(compile(files["hello.py"], main, "exec"), g)  # pylint: disable=exec-used
            if case["entry"] != "load":
                g[L.ENTRY_NAME]()
        except BaseException as e:  # pylint: disable=broad-except
            exc = e
        if exc is None:
            return None
        chain = []
        seen = set()
        while exc is not None and id(exc) not in seen:
            seen.add(id(exc))
            tb = []
            for fs in traceback.extract_tb(exc.__traceback__):
                if os.path.dirname(fs.filename).startswith(d):
                    fk = L.file_key_of(fs.filename)
                    if fk is not None:
                        tb.append([fk, fs.name, fs.lineno])
            first = traceback.format_exception_only(exc)[0]
            t, msg = split_type_msg(first)
            chain.append({"tb": tb, "type": t, "msg": msg})
            if exc.__cause__ is not None:
                exc = exc.__cause__
            elif exc.__context__ is not None and not exc.__suppress_context__:
                exc = exc.__context__
            else:
                exc = None
        return chain
    finally:
        import builtins

        for nm in ("pyscript_compile", "pyscript_executor"):
            if hasattr(builtins, nm):
                delattr(builtins, nm)
        sys.path[:] = saved_path
        for m in ("pvmod", "pvlmod"):
            sys.modules.pop(m, None)
        shutil.rmtree(d, ignore_errors=True)


async def pyscript_run(files, case):
    legacy = case["sub"] == "legacy"
    handler_calls = []
    loop = asyncio.get_running_loop()
    loop.set_exception_handler(lambda l, c: handler_calls.append(str(c.get("message"))))
    async with PyscriptEnv(files=files, legacy=legacy, log_level=logging.ERROR) as env:
        await env.settle()
        entry = case["entry"]
        if entry in ("trig", "tc"):
            env.hass.bus.async_fire("pv_go", {})
            await env.settle()
        elif entry == "svc":
            await env.hass.services.async_call("pyscript", L.ENTRY_NAME, {}, blocking=True)
            await env.settle()
        main_logger = "custom_components.pyscript." + L.FILES["main"]["ctx"]
        recs = []
        others = []
        for name, level, msg in env.log.records:
            if level not in ("ERROR", "CRITICAL"):
                continue
            if name == main_logger or name.startswith(main_logger + "."):
                recs.append({"logger": name, "msg": msg})
            else:
                others.append({"logger": name, "msg": msg[:300]})
        return {"recs": recs, "others": others, "handler": handler_calls}


def run_case(case):
    files, _units = L.render(case)
    out = {}
    try:
        out["py"] = cpython_oracle(files, case)
    except Exception as exc:  # pylint: disable=broad-except
        out["py_error"] = repr(exc)
        out["py"] = None
    try:
        r = run_virtual(pyscript_run(files, case))
        out["n_recs"] = len(r["recs"])
        out["ps"] = parse_report(r["recs"][0]["msg"]) if len(r["recs"]) == 1 else None
        out["raw"] = [x["msg"][-1500:] for x in r["recs"][:2]]
        out["others"] = r["others"][:6]
        out["handler"] = r["handler"]
    except BaseException as exc:  # pylint: disable=broad-except
        out["ps_error"] = repr(exc)[:500]
        out["ps"] = None
        out["n_recs"] = -1
    return out


async def warm_up():
    async with PyscriptEnv(files={"warm.py": "x = 1\n"}, legacy=False, log_level=logging.ERROR) as env:
        await env.settle()


def main():
    req = json.loads(sys.stdin.read())
    logging.disable(logging.NOTSET)
    # Home Assistant's modules are moved out of the collector's way; after every case its pyscript objects are finalised at
    # once: a late EvalFuncVar.__del__ -> trigger_stop -> service_remove would hit the same-named service of a later case
    run_virtual(warm_up())
    gc.collect()
    gc.freeze()
    res = []
    for c in req["cases"]:
        res.append(run_case(c))
        gc.collect()
    print("RESULT " + json.dumps(res))


main()
