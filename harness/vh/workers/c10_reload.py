"""Worker for C10: real file trees in a temp config dir, the real pyscript.reload service, load events and the table of
loaded contexts after every reload.  stdin JSON {"cases": [...]} -> 'RESULT <json>'.

Ids <-> strings (must agree with coq/Life/ReloadBase.v): 0 __init__, 1 apps, 2 file, 3 modules, 4 scripts,
10..999 -> "xNNN", >= 1000 -> "#" + name(id - 1000)."""
import contextlib
import json
import os
import sys

from vh.hassenv import PyscriptEnv, run_virtual

RESERVED = {0: "__init__", 1: "apps", 2: "file", 3: "modules", 4: "scripts"}
RESERVED_INV = {v: k for k, v in RESERVED.items()}


def seg_name(i):
    if i in RESERVED:
        return RESERVED[i]
    if i >= 1000:
        return "#" + seg_name(i - 1000)
    return "x%03d" % i


def seg_id(s):
    if s in RESERVED_INV:
        return RESERVED_INV[s]
    if s.startswith("#"):
        return 1000 + seg_id(s[1:])
    if len(s) == 4 and s[0] == "x" and s[1:].isdigit():
        return int(s[1:])
    raise ValueError(f"unknown segment {s!r}")


def rel_of(pid):
    """'1/10/0' -> 'apps/x010/__init__.py'"""
    return "/".join(seg_name(int(x)) for x in pid.split("/")) + ".py"


def name_ids(name):
    return [seg_id(s) for s in name.split(".")]


def path_ids(p):
    return [seg_id(s) for s in p.split("/")]


def cfg_value(k):
    if k == 0:
        return None
    if k == 1:
        return {}
    return {"v": k}


def cfg_id(v):
    if v is None:
        return 0
    if v == {}:
        return 1
    return int(v["v"])


def source(info):
    lines = [
        'event.fire("pv_loaded", ctx=pyscript.get_global_ctx(), gen=%d)' % info["gen"],
        "pv_gen = %d" % info["gen"],
        "pv_cnt = 0",
        # like real apps: fill in defaults in / write to the configuration object pyscript hands to the app
        "try:",
        '    pyscript.app_config.setdefault("pv_default", %d)' % info["gen"],
        '    pyscript.app_config["pv_seen"] = %d' % info["gen"],
        "except NameError:",
        "    pass",
        '@event_trigger("pv_ping")',
        "def pv_ping_f(**kw):",
        "    global pv_cnt",
        "    pv_cnt += 1",
        '    event.fire("pv_pong", gen=%d)' % info["gen"],
        "@service",
        "def pvs%d():" % info["gen"],
        "    pass",
    ]
    for k, (kind, m) in enumerate(info["imps"]):
        dotted = ".".join(seg_name(x) for x in m)
        if kind == "abs":
            lines.append(f"import {dotted} as pv_i{k}")
        else:
            if len(m) == 1:
                lines.append(f"from . import {dotted} as pv_i{k}")
            else:
                lines.append("from .%s import %s as pv_i%d" % (".".join(seg_name(x) for x in m[:-1]), seg_name(m[-1]), k))
    return "\n".join(lines) + "\n"


def apps_conf(cfg):
    return {seg_name(int(a)): cfg_value(v) for a, v in cfg.items()}


class Env(PyscriptEnv):
    mtimes = {}

    def write(self, rel, text, mtime=None):
        if mtime is None:
            mtime = self.mtimes.get(rel)
        super().write(rel, text, mtime)


def apply_ghosts(env, old, new):
    """Entries that match the globs but are not readable files: dangling symbolic links, directories named *.py."""
    oldk = {(g[0], g[1]) for g in old}
    newk = {(g[0], g[1]) for g in new}
    for pid, kind in oldk - newk:
        p = env.path(rel_of(pid))
        if kind == "dir":
            with contextlib.suppress(OSError):
                os.rmdir(p)
        else:
            with contextlib.suppress(OSError):
                os.unlink(p)
    for pid, kind in newk - oldk:
        p = env.path(rel_of(pid))
        os.makedirs(os.path.dirname(p), exist_ok=True)
        if kind == "dir":
            os.makedirs(p, exist_ok=True)
        else:
            os.symlink(os.path.join(os.path.dirname(p), "pv_no_such_target"), p)


def apply_tree(env, old, new, keep=()):
    """Bring the files on disk from `old` to `new` (dicts pid -> info) with real writes, utimes, renames and removals."""
    old_by_gen = {info["gen"]: pid for pid, info in old.items()}
    moved_from = set()
    for pid, info in new.items():
        if pid in old and old[pid] == info:
            continue
        src_pid = old_by_gen.get(info["gen"])
        if src_pid is not None and src_pid not in new and src_pid not in moved_from and old[src_pid]["imps"] == info["imps"]:
            # the same file under another name ('#'-rename of the file or of a directory above it)
            a, b = env.path(rel_of(src_pid)), env.path(rel_of(pid))
            os.makedirs(os.path.dirname(b), exist_ok=True)
            os.rename(a, b)
            os.utime(b, (info["mtime"], info["mtime"]))
            moved_from.add(src_pid)
        elif pid in old and old[pid]["gen"] == info["gen"] and old[pid]["imps"] == info["imps"]:
            os.utime(env.path(rel_of(pid)), (info["mtime"], info["mtime"]))  # touch
        else:
            env.write(rel_of(pid), source(info), info["mtime"])
    for pid in old:
        if pid not in new and pid not in moved_from:
            env.remove(rel_of(pid))
    # drop directories that became empty
    root = env.path("")
    for d, _dirs, _files in os.walk(root, topdown=False):
        if d.rstrip("/") != root.rstrip("/") and d not in keep and not os.listdir(d):
            os.rmdir(d)


def snapshot(step):
    from custom_components.pyscript.global_ctx import GlobalContextMgr

    out = []
    for name, ctx in sorted(GlobalContextMgr.contexts.items()):
        gst = ctx.global_sym_table
        out.append({
            "name": name_ids(name), "gen": gst.get("pv_gen", -1), "mtime": int(ctx.mtime) if ctx.mtime is not None else -1,
            "cfg": cfg_id(ctx.app_config), "imports": sorted(name_ids(n) for n in ctx.imports), "ismod": ctx.module is not None,
            "rel": path_ids(ctx.rel_import_path) if ctx.rel_import_path is not None else None,
            "born": gst.get("pv_born", -1), "started": bool(ctx.auto_start), "cnt": gst.get("pv_cnt", -1),
        })
    return out


def tag_born(step):
    from custom_components.pyscript.global_ctx import GlobalContextMgr

    for ctx in GlobalContextMgr.contexts.values():
        ctx.global_sym_table.setdefault("pv_born", step)


async def take(env, step):
    await env.settle()
    tag_born(step)
    events = [[name_ids(d["ctx"]), d["gen"]] for (_t, typ, d) in env.events if typ == "pv_loaded"]
    env.events.clear()
    env.hass.bus.async_fire("pv_ping")
    await env.settle()
    pongs = sorted(d["gen"] for (_t, typ, d) in env.events if typ == "pv_pong")
    env.events.clear()
    srv = sorted(int(n[3:]) for n in env.hass.services.async_services().get("pyscript", {}) if n.startswith("pvs") and n[3:].isdigit())
    return {"events": events, "ctxs": snapshot(step), "srv": srv, "pongs": pongs}


async def scenario(case):
    steps = case["steps"]
    first = steps[0]
    o0 = first.get("opts", 0)
    env = Env(files={rel_of(pid): source(info) for pid, info in first["files"].items()}, legacy=bool(case.get("legacy")),
              apps_config=apps_conf(first["cfg"]), hass_is_global=bool(o0 & 1), allow_all_imports=not (o0 & 2))
    env.mtimes = {rel_of(pid): info["mtime"] for pid, info in first["files"].items()}
    obs = []
    async with env:
        # (ghost entries of the first tree are created before the first reload, not before start-up: PyscriptEnv writes
        #  the initial files itself; generated histories start without ghosts)
        obs.append(await take(env, 0))
        cur, curg = first["files"], []
        for i, st in enumerate(steps[1:], 1):
            newg = st.get("ghosts", [])
            apply_ghosts(env, [g for g in curg if tuple(g) not in {tuple(x) for x in newg}], [])
            apply_tree(env, cur, st["files"], keep={env.path(rel_of(g[0])) for g in newg if g[1] == "dir"})
            apply_ghosts(env, [g for g in curg if tuple(g) in {tuple(x) for x in newg}], newg)
            cur, curg = st["files"], newg
            env.conf["apps"] = apps_conf(st["cfg"])
            oi = st.get("opts", 0)
            env.conf["hass_is_global"] = bool(oi & 1)
            env.conf["allow_all_imports"] = not (oi & 2)
            arg = st["arg"]
            err = None
            try:
                if arg is None:
                    await env.reload()
                elif arg == "*":
                    await env.reload("*")
                else:
                    await env.reload(".".join(seg_name(x) for x in arg))
            except Exception as exc:  # pylint: disable=broad-except
                err = f"{type(exc).__name__}: {exc}"[:200]
            o = await take(env, i)
            if err:
                o["reload_error"] = err
            obs.append(o)
        errs = [m for (_n, lvl, m) in env.log.records if lvl == "ERROR"]
    return {"steps": obs, "errors": errs[:6]}


def main():
    req = json.loads(sys.stdin.read())
    out = []
    for case in req["cases"]:
        try:
            out.append(run_virtual(scenario(case)))
        except Exception as exc:  # pylint: disable=broad-except
            import traceback

            out.append({"steps": [], "crash": f"{type(exc).__name__}: {exc}", "tb": traceback.format_exc()[-1500:]})
    print("RESULT " + json.dumps(out))


main()
