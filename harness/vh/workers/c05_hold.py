"""Worker for C05: run generated @state_trigger functions / task.wait_until calls of the REAL pyscript over timed
histories on the virtual clock.  stdin JSON {"cases": [...]} -> 'RESULT <json list of observations>'.

Case (all times in milliseconds relative to the instant the trigger is defined):
  {"sub": "legacy"|"dm", "form": "dec"|"wu", "cn": null|false|true, "hold": null|ms, "hf": null|ms,
   "anyvar": bool, "init": bool, "ev": [[t_ms, kind], ...], "tail": ms, "tmo": ms (optional; task.wait_until timeout=),
   "attr": bool (optional: the expression is the attribute form pyscript.v.q == 1),
   "pre": (optional) {"form", "attr", "init0", "ev": [kind..], "gap": [kind..]} = an earlier trigger / wait_until on the same
          entity (phase 1) that sees "ev", is removed by a reload, then "gap" writes happen while nothing watches; "init" of
          the case must be the truth of the CURRENT state when the judged trigger (phase 2) is defined}
kinds: "T"/"F" watched value change making the expression true/false, "A" value change of pyscript.w (an any-change
trigger iff anyvar, otherwise an unwatched entity), "I" attribute-only update of the watched entity, "U" unwatched entity.
Every state write number k (1-based position in "ev") carries attribute n=k, so the kwargs of a run identify the event
that supplied them; a {"trigger_type": "timeout"} result of task.wait_until is reported as n = 1000000.  Observation: {"runs": [[t_ms_float, n, consistent]], "err": [...]}.
"""
import json
import sys

from vh.hassenv import PyscriptEnv, run_virtual

EXPR = "pyscript.v >= 't'"
TIMEOUT_ID = 1000000

EXPR_ATTR = "pyscript.v.q == 1"      # attribute-form expression: the entity is watched only through NAME.attr

REPORT = """
    v = kw.get("value")
    o = kw.get("old_value")
    event.fire("pv_run", ph=PHASE, tt=kw.get("trigger_type"), var=kw.get("var_name"), keys=sorted(kw.keys()),
               n=(v.n if v is not None else -1), val=(str(v) if v is not None else None),
               on=(o.n if o is not None else -1), old=(str(o) if o is not None else None))
"""


def pyval(x):
    if x is None:
        return "None"
    if isinstance(x, bool):
        return "True" if x else "False"
    return repr(x / 1000.0)


def make_script(case, phase=2):
    kws = []
    if case.get("hold") is not None:
        kws.append(f"state_hold={pyval(case['hold'])}")
    if case.get("hf") is not None:
        kws.append(f"state_hold_false={pyval(case['hf'])}")
    if case.get("cn") is not None:
        kws.append(f"state_check_now={pyval(case['cn'])}")
    if case.get("tmo") is not None and case["form"] == "wu":
        kws.append(f"timeout={pyval(case['tmo'])}")
    trig = [repr(EXPR_ATTR if case.get("attr") else EXPR)] + (["'pyscript.w'"] if case.get("anyvar") else [])
    report = REPORT.replace("PHASE", str(phase))
    if case["form"] == "dec":
        head = "@state_trigger(" + ", ".join(trig + kws) + ")\ndef pv_f(**kw):"
        return head + report
    head = ("@time_trigger('startup')\ndef pv_waiter():\n    kw = task.wait_until(state_trigger=[" + ", ".join(trig) + "]"
            + "".join(", " + k for k in kws) + ")")
    return head + report


class Writer:
    """All state writes of a case; write number n carries attributes n (id) and, for pyscript.v, q (1 = expression true)."""

    def __init__(self, hass, init):
        self.hass = hass
        self.truth = bool(init)
        v0 = "t0" if init else "f0"
        self.last = {"pyscript.v": (v0, 0), "pyscript.w": ("w0", 0), "pyscript.u": ("u0", 0)}
        self.written = {0: ("init", None, None, None)}
        hass.states.async_set("pyscript.v", v0, {"n": 0, "q": 1 if init else 0})
        hass.states.async_set("pyscript.w", "w0", {"n": 0})
        hass.states.async_set("pyscript.u", "u0", {"n": 0})

    def write(self, kind, n):
        attrs = {"n": n}
        if kind in ("T", "F"):
            self.truth = kind == "T"
            ent, val = "pyscript.v", ("t" if kind == "T" else "f") + str(n)
        elif kind == "I":
            ent, val = "pyscript.v", self.last["pyscript.v"][0]
        elif kind == "A":
            ent, val = "pyscript.w", "w" + str(n)
        else:
            ent, val = "pyscript.u", "u" + str(n)
        if ent == "pyscript.v":
            attrs["q"] = 1 if self.truth else 0
        self.written[n] = (ent, val, self.last[ent][0], self.last[ent][1])
        self.last[ent] = (val, n)
        self.hass.states.async_set(ent, val, attrs)


async def run_case(case):
    legacy = case["sub"] == "legacy"
    pre = case.get("pre")
    async with PyscriptEnv(files={}, legacy=legacy) as env:
        wr = Writer(env.hass, pre["init0"] if pre else case["init"])
        await env.settle()
        if pre:
            # phase 1: an earlier trigger / task.wait_until on the same entity, then nobody watches, then outside changes
            env.write("c05.py", make_script(pre, phase=1))
            await env.reload()
            n = 1000
            for kind in pre["ev"]:
                await env.advance(1.0)
                n += 1
                wr.write(kind, n)
                await env.settle()
            await env.advance(1.0)
            env.write("c05.py", "# nothing\n")
            await env.reload()
            for kind in pre["gap"]:
                await env.advance(1.0)
                n += 1
                wr.write(kind, n)
                await env.settle()
            await env.advance(1.0)
            if wr.truth != bool(case["init"]):
                raise RuntimeError("case inconsistent: init is not the truth of the current state when phase 2 starts")
        env.write("c05.py", make_script(case))
        await env.reload()
        base = env.now()
        cur = 0.0
        for k, (t_ms, kind) in enumerate(case["ev"], start=1):
            t = t_ms / 1000.0
            if t > cur:
                await env.advance(t - cur)
                cur = t
            wr.write(kind, k)
            await env.settle()
        await env.advance(case["tail"] / 1000.0)
        written = wr.written
        runs = []
        for (t, _typ, d) in env.events:
            if d.get("ph") != 2:
                continue
            n = d.get("n", -1)
            if d.get("tt") == "timeout":
                ok = d.get("keys") == ["trigger_type"] and case.get("tmo") is not None
                n = TIMEOUT_ID
            elif d.get("var") is None:
                # definition-time trigger: only trigger_type (the new subsystem may add nothing else either)
                ok = d.get("tt") == "state" and n == -1 and set(d.get("keys", [])) <= {"trigger_type", "context"}
                n = 0
            else:
                w = written.get(n)
                ok = (w is not None and d.get("tt") == "state" and d.get("var") == w[0] and d.get("val") == w[1]
                      and d.get("old") == w[2] and d.get("on") == w[3])
            runs.append([round((t - base) * 1000.0, 3), n, bool(ok)])
        errs = [m for (_n, lvl, m) in env.log.records if lvl in ("ERROR", "CRITICAL")]
        return {"runs": runs, "err": errs[:3]}


def main():
    req = json.loads(sys.stdin.read())
    out = []
    for case in req["cases"]:
        try:
            out.append(run_virtual(run_case(case)))
        except Exception as exc:  # pylint: disable=broad-except
            out.append({"runs": [], "err": ["HARNESS " + type(exc).__name__ + ": " + str(exc)[:300]], "harness_error": True})
    print("RESULT " + json.dumps(out))


main()
