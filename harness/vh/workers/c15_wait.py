"""Worker for C15: one task.wait_until call of the REAL pyscript per case, on the virtual clock.
stdin JSON {"cases": [...]} -> 'RESULT <json list of observations>'.

Case (times in ms relative to the instant of the call; history on whole seconds or 400/600 ms after one, time-trigger offsets = 250 mod 1000,
timeouts = 500 mod 1000 (or 0), state_hold = 750 mod 1000, cancel instants = 125 mod 250 (or 0)):
  {"sub": "legacy"|"dm",
   "st": null | {"cn": null|bool, "init": "T"|"F"|"X", "hold": null|ms, "hf": null|ms},   state_trigger="int(pyscript.v) > 0"
   "ev": {"filter": bool, "chan": "event"|"webhook"|"mqtt"}   the awaited delivery channel (event_trigger / webhook_trigger / mqtt_trigger)
   "again": 0|1|2                       the same call is made again (by a fresh task) 10 ms after the previous one is over
   "others": [] | subset of ["wmut", "w2", "fnkw"]   concurrent listeners of pv_e: a looping waiter that edits the dict it got,
                                        a looping waiter with a filter that clears its dict, an @event_trigger function with kwargs=
   "tt": null | [offset_ms, ...]        time_trigger=["once(now + <o>s)" | "once(now - <o>s)" for negative offsets]
   "ev": null | {"filter": bool}        event_trigger="pv_e" | ["pv_e", "x == 1"]
   "to": null | ms                      timeout (0 allowed)
   "badexpr": null | "mqtt"|"webhook"   additionally pass <kind>_trigger=["pv_t", "1 +"] (condition that does not parse)
   "pre":  [[t_ms < 0, kind], ...]      occurrences before the call
   "hist": [[t_ms > 0, kind], ...]      occurrences after the call
   "cancel": null | t_ms, "how": "cancel"|"unique", "tail": ms}
kinds: "T"/"F"/"X" write a new value of pyscript.v making the expression true / false / raise ValueError;
       "I" attribute-only update of pyscript.v; "U" write to the unwatched pyscript.u;
       "E1"/"E0"/"EX" fire pv_e with x=1 / x=0 / no x (filter true / false / NameError); "O" fire the unrelated pv_o.
Occurrence number k (1-based over pre ++ hist) is carried as attribute/field n=k, so a returned dictionary identifies
the occurrence that produced it.

Observation: {"exit": "ret"|"exc"|"cancelled"|"pending", "t": ms, "kind": "state"|"event"|"time"|"timeout"|"none"|None,
              "n": occurrence id (0 = immediate check), "tm": trigger_time offset ms, "dict_ok": bool,
              "leak": [state_subs, event_queues, bus_listeners, tasks] (after - before) at the first grid point after
                      the task ended,
              "leak_end": same at the end of the scenario, "other": ledger keys that differ otherwise, "late": n reports > 1}
"""
import asyncio
import datetime as dt
import json
import sys

from vh.hassenv import BASE_DT, PyscriptEnv, run_virtual

EXPR = "int(pyscript.v) > 0"
GRID = 125

SCRIPT_HEAD = """
pv_task = None

def pv_enc(r):
    if not isinstance(r, dict):
        return {"__notdict__": str(r)}
    d = {}
    for k, v in r.items():
        if k == "context":
            d[k] = type(v).__name__
        elif k in ("value", "old_value"):
            d[k] = None if v is None else [str(v), getattr(v, "n", None)]
        elif k == "trigger_time":
            d[k] = str(v)
        else:
            d[k] = v
    return d

@event_trigger("pv_kill_cancel")
def pv_killer_c():
    task.cancel(pv_task)

@event_trigger("pv_kill_unique")
def pv_killer_u():
    task.unique("pv_w")

@event_trigger("pv_go")
def pv_waiter():
    global pv_task
    pv_task = task.current_task()
    task.unique("pv_w")
    try:
        r = task.wait_until(%s)
    except Exception as exc:
        event.fire("pv_exc", typ=type(exc).__name__, msg=str(exc)[:200])
        return
    event.fire("pv_ret", d=pv_enc(r))
    task.sleep(0.01)
    event.fire("pv_ret2", d=pv_enc(r))
"""

# concurrent listeners of the awaited event type: a second waiter that edits the dictionary it got, and a trigger
# function with kwargs= (both must not be visible in anybody else's dictionary)
SCRIPT_WMUT = """
@event_trigger("pv_go2")
def pv_waiter_b():
    while True:
        r = task.wait_until(event_trigger="pv_e")
        event.fire("pv_ret_b", d=pv_enc(r))
        r["pv_mut"] = 1
        r.pop("n", None)
        r["x"] = 99
"""
SCRIPT_W2 = """
@event_trigger("pv_go2")
def pv_waiter_c():
    while True:
        r = task.wait_until(event_trigger=["pv_e", "n > 0"])
        event.fire("pv_ret_c", d=pv_enc(r))
        r.clear()
"""
SCRIPT_FNKW = """
@event_trigger("pv_e", kwargs={"pv_kw": 7})
def pv_fn(**kw):
    event.fire("pv_fn", d=pv_enc(kw))
    kw["pv_fn_mut"] = 1
"""


def secs(ms):
    return repr(ms / 1000.0)


HOOK = "pv_hook"
TOPIC = "pv/topic"
CHAN_FILTER = {"event": "x == 1", "webhook": "payload['x'] == 1", "mqtt": "payload_obj['x'] == 1"}
CHAN_KEY = {"event": "pv_e", "webhook": HOOK, "mqtt": TOPIC}


def make_args(case):
    a = []
    st = case.get("st")
    if st is not None:
        a.append(f"state_trigger={EXPR!r}")
        if st.get("cn") is not None:
            a.append("state_check_now=" + ("True" if st["cn"] else "False"))
        if st.get("hold") is not None:
            a.append(f"state_hold={secs(st['hold'])}")
        if st.get("hf") is not None:
            a.append("state_hold_false=" + ("0" if st["hf"] == 0 else secs(st["hf"])))
    if case.get("tt") is not None:
        specs = [f"once(now + {secs(o)}s)" if o >= 0 else f"once(now - {secs(-o)}s)" for o in case["tt"]]
        a.append(f"time_trigger={specs!r}")
    ev = case.get("ev")
    if ev is not None:
        chan = ev.get("chan") or "event"
        a.append(f"{chan}_trigger=" + (repr([CHAN_KEY[chan], CHAN_FILTER[chan]]) if ev.get("filter") else repr(CHAN_KEY[chan])))
    if case.get("to") is not None:
        a.append("timeout=" + ("0" if case["to"] == 0 else secs(case["to"])))
    if case.get("badexpr"):
        a.append(f"{case['badexpr']}_trigger={['pv_t', '1 +']!r}")
    return ", ".join(a)


class FakeRequest:
    """what pyscript's webhook handlers use of an aiohttp request"""

    def __init__(self, js):
        self._js = js
        self.headers = {"Content-Type": "application/json"}

    async def json(self):
        return self._js


def state_val(kind, k):
    return {"T": str(k), "F": str(-k), "X": f"bad{k}"}[kind]


def snapshot(env, loop, me, subs=()):
    """What a wait_until call may leave behind: state subscriptions (queues in State.notify), legacy queues on the awaited
    channel (Event/Webhook/Mqtt.notify), registrations with Home Assistant (bus listeners on pv_* event types, webhook
    handlers with pv_* ids, mqtt subscriptions), live asyncio tasks running pyscript code (the trigger cycle tasks of the
    new subsystem, with their sleep timers), plus the rest of env.ledger()."""
    led = env.ledger()
    from custom_components.pyscript.mqtt import Mqtt
    from custom_components.pyscript.state import State
    from custom_components.pyscript.webhook import Webhook

    st = sum(len(v) for v in State.notify.values())
    evq = (sum(v for v in led["event_notify"].values()) + sum(len(v) for v in Webhook.notify.values())
           + sum(len(v) for v in Mqtt.notify.values()))
    bus = (sum(v for k, v in led["bus_listeners"].items() if k.startswith("pv_"))
           + len([k for k in env.hass.data.get("webhook", {}) if str(k).startswith("pv_")]) + len(subs))
    stale = sorted(k for k, v in list(Webhook.notify.items()) + list(Mqtt.notify.items()) if len(v) == 0)
    tasks = 0
    for t in asyncio.all_tasks(loop):
        if t.done() or t is me:
            continue
        code = getattr(t.get_coro(), "cr_code", None)
        if code is not None and "custom_components/pyscript" in code.co_filename:
            tasks += 1
    other = {k: led[k] for k in ("services", "service_cnt", "unique_names", "our_tasks", "task2cb", "task2context")}
    other["stale_channel_entries"] = stale
    return {"vec": [st, evq, bus, tasks], "other": other}


def diff(a, b):
    return [y - x for x, y in zip(a["vec"], b["vec"])]


def check_dict(d, case, written, call_dt_ms):
    """-> (kind, n, tm, dict_ok): is `d` exactly the dictionary a decorator would pass for that occurrence?"""
    if not isinstance(d, dict) or "__notdict__" in d:
        return None, 0, 0, False
    kind = d.get("trigger_type")
    keys = set(d.keys())
    if kind in ("timeout", "none"):
        return kind, 0, 0, keys == {"trigger_type"}
    if kind == "state":
        if "var_name" not in d:
            return kind, 0, 0, keys <= {"trigger_type", "context"}
        v = d.get("value")
        n = v[1] if isinstance(v, list) and isinstance(v[1], int) else 0
        w = written.get(n)
        ok = (w is not None and keys == {"trigger_type", "var_name", "value", "old_value", "context"}
              and d["var_name"] == "pyscript.v" and v[0] == w[0] and d.get("old_value") == [w[1], w[2]])
        return kind, n, 0, bool(ok)
    if kind == "event":
        n = d.get("n") if isinstance(d.get("n"), int) else 0
        w = written.get(n)
        ok = (w is not None and d.get("event_type") == "pv_e" and d.get("context") == "Context"
              and {k: v for k, v in d.items() if k not in ("trigger_type", "event_type", "context")} == w)
        return kind, n, 0, bool(ok)
    if kind == "webhook":
        pl = d.get("payload")
        n = pl.get("n") if isinstance(pl, dict) and isinstance(pl.get("n"), int) else 0
        w = written.get(n)
        return "event", n, 0, bool(w is not None and d == {"trigger_type": "webhook", "webhook_id": HOOK, "payload": w})
    if kind == "mqtt":
        pl = d.get("payload_obj")
        n = pl.get("n") if isinstance(pl, dict) and isinstance(pl.get("n"), int) else 0
        w = written.get(n)
        return "event", n, 0, bool(w is not None and d == {"trigger_type": "mqtt", "topic": TOPIC, "payload": json.dumps(w),
                                                           "qos": 0, "retain": False, "payload_obj": w})
    if kind == "time":
        try:
            tm = dt.datetime.fromisoformat(d.get("trigger_time"))
            off = int(round((tm - BASE_DT).total_seconds() * 1000.0)) - call_dt_ms
        except (TypeError, ValueError):
            return kind, 0, 0, False
        return kind, 0, off, keys == {"trigger_type", "trigger_time"}
    return str(kind), 0, 0, False


async def run_case(case):
    import homeassistant.components.mqtt as mqtt_mod
    from homeassistant.components.mqtt.models import ReceiveMessage
    from unittest.mock import patch

    subs = []          # mqtt subscriptions made through the (patched) mqtt.async_subscribe: (topic, callback)

    async def fake_subscribe(hass, topic, msg_callback, qos=0, encoding="utf-8", **_kw):
        entry = (topic, msg_callback)
        subs.append(entry)

        def unsub():
            if entry in subs:
                subs.remove(entry)

        return unsub

    with patch.object(mqtt_mod, "async_subscribe", fake_subscribe):
        return await run_case_inner(case, subs, ReceiveMessage)


async def run_case_inner(case, subs, ReceiveMessage):
    legacy = case["sub"] == "legacy"
    loop = asyncio.get_running_loop()
    me = asyncio.current_task()
    chan = (case.get("ev") or {}).get("chan") or "event"
    async with PyscriptEnv(files={}, legacy=legacy) as env:
        hass = env.hass
        st = case.get("st")
        v0 = {"T": "1000000", "F": "0", "X": "bad0"}[st["init"] if st else "F"]
        hass.states.async_set("pyscript.v", v0, {"n": 0})
        hass.states.async_set("pyscript.u", "u0", {"n": 0})
        await env.settle()
        others = case.get("others") or []
        src = SCRIPT_HEAD % make_args(case)
        for key, text in (("wmut", SCRIPT_WMUT), ("w2", SCRIPT_W2), ("fnkw", SCRIPT_FNKW)):
            if key in others:
                src += text
        env.write("c15.py", src)
        await env.reload()
        if others:
            hass.bus.async_fire("pv_go2", {})
            await env.settle()
        last = [v0, 0]
        written = {}
        fired = []          # deliveries on the awaited channel in the order they were made
        delivery_errors = []

        async def occur(k, kind):
            if kind in ("T", "F", "X"):
                val = state_val(kind, k)
                written[k] = (val, last[0], last[1])
                last[0], last[1] = val, k
                hass.states.async_set("pyscript.v", val, {"n": k})
            elif kind == "I":
                last[1] = k
                hass.states.async_set("pyscript.v", last[0], {"n": k})
            elif kind == "U":
                hass.states.async_set("pyscript.u", f"u{k}", {"n": k})
            elif kind in ("E1", "E0", "EX"):
                data = {"n": k}
                if kind != "EX":
                    data["x"] = 1 if kind == "E1" else 0
                written[k] = data
                fired.append(data)
                if chan == "event":
                    hass.bus.async_fire("pv_e", data)
                elif chan == "webhook":
                    handlers = hass.data.get("webhook", {})
                    if HOOK in handlers:       # what the http view does; an unknown id is answered 200 and dropped
                        try:
                            await handlers[HOOK]["handler"](hass, HOOK, FakeRequest(dict(data)))
                        except BaseException as exc:  # pylint: disable=broad-except
                            # a handler left behind by a dead wait may raise (even CancelledError): HA's view would log it
                            delivery_errors.append(type(exc).__name__)
                else:
                    for topic, cb in list(subs):
                        if topic == TOPIC:
                            try:
                                res = cb(ReceiveMessage(TOPIC, json.dumps(data), 0, False, TOPIC, 0.0))
                                if asyncio.iscoroutine(res):
                                    await res
                            except BaseException as exc:  # pylint: disable=broad-except
                                delivery_errors.append(type(exc).__name__)
            else:
                hass.bus.async_fire("pv_o", {"n": k, "x": 1})
            await env.settle()

        pre = case.get("pre") or []
        hist = case.get("hist") or []
        # ---- before the first call
        t_first = min([t for t, _k in pre] + [0])
        cur = t_first
        k = 0
        for t, kind in pre:
            if t > cur:
                await env.advance((t - cur) / 1000.0)
                cur = t
            k += 1
            await occur(k, kind)
        if cur < 0:
            await env.advance(-cur / 1000.0)
        t0 = env.now()

        from custom_components.pyscript.global_ctx import GlobalContextMgr

        gctx = GlobalContextMgr.get("file.c15")

        def wtask():
            return gctx.global_sym_table.get("pv_task") if gctx is not None else None

        calls = []          # one record per wait_until call of the scenario

        async def start_call(now_ms):
            rec = {"t2": now_ms, "before": snapshot(env, loop, me, subs), "ended": None, "at_exit": None,
                   "call_dt_ms": int(round(env.now() * 1000.0)), "t_abs": env.now(), "prev_task": wtask()}
            # input state of the call: do other legacy queues already wait on the awaited key (they share one registration)?
            from custom_components.pyscript.event import Event
            from custom_components.pyscript.mqtt import Mqtt
            from custom_components.pyscript.webhook import Webhook

            reg = {"event": Event.notify, "webhook": Webhook.notify, "mqtt": Mqtt.notify}[chan]
            rec["shared"] = bool(len(reg.get(CHAN_KEY[chan], ())) > 0)
            calls.append(rec)
            hass.bus.async_fire("pv_go", {})
            await env.settle()

        def poll(now_ms):
            rec = calls[-1]
            t = wtask()
            if rec["ended"] is None and t is not None and t is not rec["prev_task"] and t.done():
                rec["ended"] = now_ms
                rec["at_exit"] = snapshot(env, loop, me, subs)

        await start_call(0)
        poll(0)
        tail = case.get("tail", 2000)
        last_hist = max([t for t, _k in hist] + [case.get("cancel") or 0, 0])
        events = {}
        for t, kind in hist:
            k += 1
            events.setdefault(t, []).append((k, kind))
        cancel = case.get("cancel")
        cancelled_at = None
        again = int(case.get("again") or 0)

        async def maybe_next_call(now_ms):
            # the previous call is over: start the next one 10 ms later (an instant nothing else falls on)
            if calls[-1]["ended"] is not None and len(calls) < 1 + again:
                await env.advance(0.01)
                await start_call(now_ms + 10)
                poll(now_ms + 10)
                return now_ms + 10
            return now_ms

        if cancel == 0:
            hass.bus.async_fire("pv_kill_" + case.get("how", "cancel"), {})
            cancelled_at = 0
            await env.settle()
            poll(0)
        now_ms = await maybe_next_call(0)
        grid = 0
        pending_events = sorted(t for t in events if t > 0)
        while True:
            horizon = max(last_hist, calls[-1]["t2"]) + tail
            if now_ms >= horizon:
                break
            grid = (now_ms // GRID + 1) * GRID
            cands = [grid] + [t for t in pending_events if t > now_ms][:1] + ([cancel] if cancel and cancel > now_ms else [])
            nxt = min(cands)
            await env.advance((nxt - now_ms) / 1000.0)
            now_ms = nxt
            poll(now_ms)
            for (kk, kind) in events.get(now_ms, []):
                await occur(kk, kind)
                poll(now_ms)
            if cancel is not None and cancel == now_ms:
                hass.bus.async_fire("pv_kill_" + case.get("how", "cancel"), {})
                cancelled_at = now_ms
                await env.settle()
                poll(now_ms)
            now_ms = await maybe_next_call(now_ms)
        at_end = snapshot(env, loop, me, subs)
        out_calls = []
        for ci, rec in enumerate(calls):
            lo = rec["t_abs"] - 1e-9
            hi = calls[ci + 1]["t_abs"] - 1e-9 if ci + 1 < len(calls) else float("inf")
            reports = [(t, typ, d) for (t, typ, d) in env.events if typ in ("pv_ret", "pv_exc") and lo <= t < hi]
            obs = {"t2": rec["t2"], "shared": rec["shared"], "exit": "pending", "t": 0, "kind": None, "n": 0, "tm": 0, "dict_ok": True,
                   "late": max(0, len(reports) - 1)}
            if reports:
                t, typ, d = reports[0]
                obs["t"] = int(round((t - rec["t_abs"]) * 1000.0))
                if typ == "pv_ret":
                    obs["exit"] = "ret"
                    obs["kind"], obs["n"], obs["tm"], obs["dict_ok"] = check_dict(d.get("d"), case, written, rec["call_dt_ms"])
                    obs["raw"] = d.get("d")
                else:
                    obs["exit"] = "exc"
                    obs["kind"] = d.get("typ")
                    obs["msg"] = d.get("msg")
            elif rec["ended"] is not None:
                obs["exit"] = "cancelled"
                obs["t"] = rec["ended"] - rec["t2"]
            obs["ended"] = rec["ended"]
            obs["cancelled_at"] = cancelled_at
            if rec["at_exit"] is not None:
                obs["leak"] = diff(rec["before"], rec["at_exit"])
                obs["other"] = sorted(k2 for k2 in rec["before"]["other"] if rec["before"]["other"][k2] != rec["at_exit"]["other"][k2])
            else:
                obs["leak"] = None
                obs["other"] = []
            # the ledger once more: at the end of the scenario for the last call, else just before the next call
            obs["leak_end"] = diff(rec["before"], at_end if ci + 1 == len(calls) else calls[ci + 1]["before"])
            # second look at the same dictionary 10 ms later
            looks = [d.get("d") for (t, typ, d) in env.events if typ == "pv_ret2" and lo <= t < hi]
            c_rel = None if cancelled_at is None else cancelled_at - rec["t2"]
            killed_in_between = c_rel is not None and obs["t"] <= c_rel <= obs["t"] + 10 and not looks
            if obs["exit"] == "ret" and not killed_in_between and (len(looks) != 1 or looks[0] != obs.get("raw")):
                obs["dict_ok"] = False
                obs["look2"] = looks[:1]
            out_calls.append(obs)
        obs = out_calls[0]
        obs["more"] = out_calls[1:]
        if others:
            std = {"trigger_type": "event", "event_type": "pv_e", "context": "Context"}
            want = {"pv_ret_b": [dict(std, **w) for w in fired] if "wmut" in others else [],
                    "pv_ret_c": [dict(std, **w) for w in fired] if "w2" in others else [],
                    "pv_fn": [dict(std, pv_kw=7, **w) for w in fired] if "fnkw" in others else []}
            for typ, exp in want.items():
                got = [d.get("d") for (_t, ty, d) in env.events if ty == typ]
                if got != exp:
                    obs["dict_ok"] = False
                    obs.setdefault("others_bad", []).append([typ, got[:3], exp[:3]])
        obs["err"] = [m[:200] for (_n, lvl, m) in env.log.records if lvl in ("ERROR", "CRITICAL")][:4]
        obs["delivery_errors"] = delivery_errors[:4]
        return obs


def main():
    req = json.loads(sys.stdin.read())
    out = []
    for case in req["cases"]:
        try:
            out.append(run_virtual(run_case(case)))
        except (Exception, asyncio.CancelledError) as exc:  # pylint: disable=broad-except
            import traceback

            out.append({"exit": "harness", "t": 0, "kind": None, "n": 0, "tm": 0, "dict_ok": False, "late": 0, "leak": None,
                        "leak_end": None, "other": [], "err": ["HARNESS " + type(exc).__name__ + ": " + str(exc)[:300],
                                                               traceback.format_exc()[-600:]], "harness_error": True})
    print("RESULT " + json.dumps(out))


main()
