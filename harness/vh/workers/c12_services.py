"""Worker for C12: drive the real pyscript inside a real HomeAssistant (virtual clock) through @service life-cycle
operation sequences and through outgoing service calls.  stdin JSON {"op": "life"|"out", "cases": [...]} ->
one line 'RESULT <json>'.

Life-cycle case: {"legacy": bool, "keys": [key ids], "init": {ctx: body}, "ops": [op...]} with
  op   = {"op": "exec"|"load"|"unload"|"reload_all", "ctx": c, "body": [stmt], "files": {ctx: body}, "data": {kwid: int}}
  stmt = {"s": "def", "fn": f, "names": [key ids] | null, "sr": null|"none"|"optional"|"only"} | {"s": "del", "fn": f}
Generations are numbered 1,2,... in execution order of the def statements (the Coq model allocates them the same way).
"""
import asyncio
import json
import sys
from unittest.mock import patch

from vh.hassenv import PyscriptEnv, run_virtual


def key_name(k):
    """key id -> 'domain.service'"""
    if k >= 100:
        return f"pyscript.fn{k - 100}"
    return f"pvs.s{k}"


def ctx_name(c):
    return f"file.c{c}"


def def_src(stmt, gen):
    names, sr = stmt.get("names"), stmt.get("sr")
    if stmt["s"] == "defst":   # one @service decorator per name, stacked
        decs = []
        for k in names:
            a = [repr(key_name(k))] + ([f"supports_response={sr!r}"] if sr is not None else [])
            decs.append(f"@service({', '.join(a)})")
    else:
        args = []
        if names is not None:
            args += [repr(key_name(k)) for k in names]
        if sr is not None:
            args.append(f"supports_response={sr!r}")
        decs = ["@service" + (f"({', '.join(args)})" if args else "")]
    return decs + [f"def fn{stmt['fn']}(**kw):", "    kw.pop('context', None)",
                   f"    event.fire('pv_call', gen={gen}, kw=kw)", f"    return {{'gen': {gen}}}"]


class StateProxy:
    """Stands in for `State` inside decorators/service.py.  ServiceDecorator.start() awaits State.get_service_params() after it
    has registered its name; how long that takes depends on HA's description cache and an executor job, i.e. on real time.  Here
    it is exactly one scheduling turn (`await asyncio.sleep(0)`), so concurrent start-ups interleave in a fixed round-robin
    order; while `hold` is set the callers instead wait for `release()` - an operation can then be executed in the middle of the
    start-ups (a particular interleaving of two tasks)."""

    def __init__(self, state_cls):
        self._state = state_cls
        self.hold = False
        self.event = None

    def __getattr__(self, name):
        return getattr(self._state, name)

    def start_hold(self):
        self.hold = True
        self.event = asyncio.Event()

    def stop_hold(self):
        self.hold = False

    def release(self):
        if self.event is not None:
            self.event.set()

    async def get_service_params(self):
        if self.hold:
            await self.event.wait()
        else:
            await asyncio.sleep(0)


async def collect_garbage(env):
    """Deterministic stand-in for Python's cyclic garbage collector (automatic collection is switched off in this process):
    three full collections after every operation, exactly what the Model's [gc] does.  Collection matters for the property:
    a legacy function object that its context never recorded (D120) is finalised - and releases its services - only when
    the collector finds it."""
    import gc

    for _ in range(3):
        gc.collect()
        await env.settle()


class Life:
    def __init__(self, case):
        self.case = case
        self.gen = 0
        self.files = {}        # ctx -> body (what is on disk)
        self.starts = []       # (ctx name, [def line numbers in dms_delay_start iteration order])

    def body_src(self, body):
        """-> (text, {def line number: gen})"""
        lines, line2gen = [], {}
        for st in body:
            if st["s"] in ("def", "defst"):
                self.gen += 1
                src = def_src(st, self.gen)
                ndec = len([ln for ln in src if ln.startswith("@")])
                line2gen[len(lines) + ndec + 1] = self.gen  # func_def.lineno is the `def` line
                lines += src
            else:
                lines.append(f"del fn{st['fn']}")
        if not lines:
            lines = ["pass"]
        return "\n".join(lines) + "\n", line2gen

    async def exec_src(self, env, c, src):
        from custom_components.pyscript.eval import AstEval
        from custom_components.pyscript.function import Function
        from custom_components.pyscript.global_ctx import GlobalContextMgr

        gctx = GlobalContextMgr.get(ctx_name(c))
        if gctx is None:
            return "noctx"
        ast_ctx = AstEval(ctx_name(c), gctx)
        Function.install_ast_funcs(ast_ctx)
        ast_ctx.parse(src)
        err = None
        try:
            await ast_ctx.eval()
        except Exception as exc:  # pylint: disable=broad-except
            err = type(exc).__name__
        del ast_ctx
        await env.settle()
        return err

    async def live_exec(self, env, c, body):
        """execute the statements in the live context c; a `defrt` statement is performed by a running service function
        (a maker service defined for the purpose, called through HA, then deleted) which binds the new function with `global`"""
        errs = []
        for st in body:
            if st["s"] == "defrt":
                self.gen += 1
                g = self.gen
                inner = ["    " + ln for ln in def_src(st, g)]
                src = "\n".join([f"@service('pvm.mk{g}')", f"def _mk{g}(**kw):", f"    global fn{st['fn']}"] + inner) + "\n"
                errs.append(await self.exec_src(env, c, src))
                try:
                    await env.hass.services.async_call("pvm", f"mk{g}", {}, blocking=True)
                except Exception as exc:  # pylint: disable=broad-except
                    errs.append("maker:" + type(exc).__name__)
                await env.settle()
                errs.append(await self.exec_src(env, c, f"del _mk{g}\n"))
            else:
                src, _ = self.body_src([st])
                errs.append(await self.exec_src(env, c, src))
        errs = [e for e in errs if e]
        return errs[0] if errs else None

    def oracle(self, maps):
        """observed start order of delayed decorator managers since the last call, as generations"""
        out = []
        for cname, linenos in self.starts:
            l2g = maps.get(cname, {})
            out += [l2g[ln] for ln in linenos if ln in l2g]
        self.starts = []
        return out

    async def probe(self, env, data):
        from custom_components.pyscript.function import Function

        res = []
        payload = {f"a{k}": v for k, v in sorted(data.items())}
        for k in self.case["keys"]:
            name = key_name(k)
            dom, svc = name.split(".")
            has = env.hass.services.has_service(dom, svc)
            o = {"has": has, "cnt": Function.service_cnt.get(name, 0), "owner": Function.service2global_ctx.get(name)}
            for resp in (False, True):
                tag = "r1" if resp else "r0"
                if not has:
                    o[tag] = {"k": "none"}
                    continue
                n0 = len(env.events)
                try:
                    ret = await env.hass.services.async_call(dom, svc, dict(payload), blocking=True, return_response=resp)
                    exc = None
                except Exception as e:  # pylint: disable=broad-except
                    ret, exc = None, type(e).__name__
                await env.settle()
                runs = [e[2] for e in env.events[n0:] if e[1] == "pv_call"]
                if len(runs) == 1:
                    kw = dict(runs[0]["kw"])
                    o[tag] = {"k": "run", "gen": runs[0]["gen"], "kw": canon_kw(kw),
                              "ret": (ret.get("gen") if isinstance(ret, dict) else (None if ret is None else -1)), "exc": exc}
                elif not runs:
                    o[tag] = {"k": "err", "exc": exc}
                else:
                    o[tag] = {"k": "multi", "n": len(runs)}
            res.append(o)
        return res

    async def run(self):
        from custom_components.pyscript.global_ctx import GlobalContext

        case = self.case
        life = self
        orig_start = GlobalContext.start

        def start_rec(gself):
            life.starts.append((gself.name, [dm.eval_func.func_def.lineno for dm in gself.dms_delay_start]))
            return orig_start(gself)

        from custom_components.pyscript.function import Function

        for attr in ("service_handlers",):   # class-level tables a repaired tree may add (proposed_fixes/C12-D21.diff)
            if isinstance(getattr(Function, attr, None), dict):
                setattr(Function, attr, {})
        steps = []
        init_files, maps = {}, {}
        for c in sorted(case.get("init", {}), key=int):
            body = case["init"][c]
            src, l2g = self.body_src(body)
            init_files[f"c{c}.py"] = src
            maps[ctx_name(int(c))] = l2g
            self.files[int(c)] = body
        import custom_components.pyscript.decorators.service as svc_mod
        from custom_components.pyscript.state import State

        proxy = StateProxy(State)
        with patch.object(GlobalContext, "start", start_rec), patch.object(svc_mod, "State", proxy):
            async with PyscriptEnv(files=init_files, legacy=case["legacy"]) as env:
                await env.settle()
                await collect_garbage(env)
                steps.append({"oracle": self.oracle(maps), "obs": await self.probe(env, case.get("init_data", {}))})
                for op in case["ops"]:
                    kind = op["op"]
                    info = {}
                    if kind == "exec":
                        if op["ctx"] in self.files:
                            info["err"] = await self.live_exec(env, op["ctx"], op["body"])
                    elif kind == "load":
                        c = op["ctx"]
                        src, l2g = self.body_src(op["body"])
                        env.write(f"c{c}.py", src)
                        self.files[c] = op["body"]
                        if op.get("hold"):
                            proxy.start_hold()
                        await env.reload(ctx_name(c))
                        proxy.stop_hold()
                        info["oracle"] = self.oracle({ctx_name(c): l2g})
                    elif kind == "release":
                        proxy.release()
                        await env.settle()
                    elif kind == "unload":
                        c = op["ctx"]
                        if c in self.files:
                            env.remove(f"c{c}.py")
                            del self.files[c]
                            await env.reload(ctx_name(c))
                    elif kind == "reload_all":
                        for c, body in sorted(op.get("files", {}).items(), key=lambda p: int(p[0])):
                            self.files[int(c)] = body
                        maps = {}
                        for c in sorted(self.files):
                            src, l2g = self.body_src(self.files[c])
                            env.write(f"c{c}.py", src)
                            maps[ctx_name(c)] = l2g
                        await env.reload("*")
                        info["oracle"] = self.oracle(maps)
                    else:
                        raise ValueError(kind)
                    await collect_garbage(env)
                    info["obs"] = await self.probe(env, op.get("data", {}))
                    steps.append(info)
        return {"steps": steps}


def canon_kw(kw):
    """observed keyword arguments -> sorted [[key id, value]]; trigger_type='service' is [0, 0]"""
    out = []
    for k, v in kw.items():
        if k == "trigger_type":
            out.append([0, 0 if v == "service" else 1])
        elif k.startswith("a") and k[1:].isdigit() and isinstance(v, int):
            out.append([int(k[1:]), v])
        else:
            out.append([9999, 0])
    return sorted(out)


# ------------------------------------------------------------------------------------------------
# outgoing calls
# ------------------------------------------------------------------------------------------------
OUT_SRC = '''
def _tgt(kw):
    d = {}
    for k, v in kw.items():
        if k == "trigger_type" and v == "service":
            continue
        if k == "context" and type(v).__name__ == "Context":
            continue
        d[k] = v
    event.fire("pv_tgt", data=d)

@service("pvt.pnone", supports_response="none")
def t_pnone(**kw):
    _tgt(kw)
    return {"r": 1}

@service("pvt.popt", supports_response="optional")
def t_popt(**kw):
    _tgt(kw)
    return {"r": 1}

@service("pvt.ponly", supports_response="only")
def t_ponly(**kw):
    _tgt(kw)
    return {"r": 1}

@service("pvs.run", supports_response="optional")
def run_code(code=None, **kw):
    try:
        r = eval(code)
        return {"ok": 1, "got": 0 if r is None else 1}
    except Exception as e:
        return {"exc": type(e).__name__}

@event_trigger("pv_go")
def go_code(code=None, **kw):
    try:
        r = eval(code)
        event.fire("pv_done", ok=1, got=0 if r is None else 1)
    except Exception as e:
        event.fire("pv_done", exc=type(e).__name__)
'''

CTRL_NAMES = {1: "context", 2: "blocking", 3: "return_response", 4: "limit", 5: "entity_id"}


def kw_name(k):
    return CTRL_NAMES.get(k, f"p{k}")


def kw_expr(ty, val):
    """type code, value -> Python expression.  1 Context, 2 bool, 3 float, 4 int, 5 str, 6 None"""
    if ty == 1:
        return "pv_ctx"
    if ty == 2:
        return "True" if val else "False"
    if ty == 3:
        return f"{val}.5"
    if ty == 4:
        return str(val)
    if ty == 5:
        return repr(f"v{val}")
    return "None"


async def run_out(cases):
    from homeassistant.core import Context, ServiceRegistry, SupportsResponse
    from homeassistant.helpers.service import async_set_service_schema

    from custom_components.pyscript.state import State

    results = []
    for legacy in (False, True):
        idx = [i for i, c in enumerate(cases) if bool(c["legacy"]) == legacy]
        if not idx:
            continue
        passed = []
        orig = ServiceRegistry.async_call

        async def rec_call(self, domain, service, service_data=None, *a, **kw):
            if domain in ("pvt", "pvd"):
                passed.append({"pos": len(a), "kw": {k: (v if isinstance(v, bool) else "obj") for k, v in kw.items()}})
            return await orig(self, domain, service, service_data, *a, **kw)

        async with PyscriptEnv(files={"c0.py": OUT_SRC}, legacy=legacy) as env:
            seen = []

            async def handler(call):
                seen.append({"data": dict(call.data), "rr": bool(call.return_response)})
                return {"r": 1} if call.return_response else None

            modes = {"none": SupportsResponse.NONE, "opt": SupportsResponse.OPTIONAL, "only": SupportsResponse.ONLY}
            for nm, sr in modes.items():
                env.hass.services.async_register("pvt", nm, handler, supports_response=sr)
                for npar in (1, 2):
                    svc = f"m{npar}{nm}"
                    env.hass.services.async_register("pvd", svc, handler, supports_response=sr)
                    fields = {"entity_id": {"description": "e"}}
                    for j in range(npar):
                        fields[f"p{30 + j}"] = {"description": "p"}
                    async_set_service_schema(env.hass, "pvd", svc, {"description": "d", "fields": fields})
            env.hass.states.async_set("pvd.ent1", "on")
            await env.settle()
            await State.get_service_params()
            gctx_tab = None
            from custom_components.pyscript.global_ctx import GlobalContextMgr

            gctx_tab = GlobalContextMgr.get("file.c0").global_sym_table
            gctx_tab["pv_ctx"] = Context()
            with patch.object(ServiceRegistry, "async_call", rec_call):
                for i in idx:
                    c = cases[i]
                    kws = ", ".join(f"{kw_name(k)}={kw_expr(ty, v)}" for k, ty, v in c["kws"])
                    pos = ", ".join(str(100 + j) for j in range(c["nargs"]))
                    tgt = ("p" if c.get("tkind") == "ps" else "") + c["target"]
                    if c["site"] == "call":
                        code = f"service.call('pvt', '{tgt}'{', ' + kws if kws else ''})"
                    elif c["site"] == "name":
                        code = f"pvt.{tgt}({', '.join(x for x in (pos, kws) if x)})"
                    else:
                        code = f"pvd.ent1.m{c['nparams']}{tgt}({', '.join(x for x in (pos, kws) if x)})"
                    passed.clear()
                    seen.clear()
                    n0 = len(env.events)
                    if c["via"] == "service":
                        r = await env.hass.services.async_call("pvs", "run", {"code": code}, blocking=True, return_response=True)
                        exc = (r or {}).get("exc")
                        got = (r or {}).get("got")
                    else:
                        env.hass.bus.async_fire("pv_go", {"code": code})
                        await env.settle()
                        done = [e[2] for e in env.events[n0:] if e[1] == "pv_done"]
                        exc = done[0].get("exc") if done else "nodone"
                        got = done[0].get("got") if done else None
                    await env.settle()
                    if c.get("tkind") == "ps":   # a pyscript @service function is the target: it reports through an event
                        rr = bool(passed and passed[-1]["kw"].get("return_response") is True)
                        seen_c = [canon_seen({"data": e[2]["data"], "rr": rr}) for e in env.events[n0:] if e[1] == "pv_tgt"]
                    else:
                        seen_c = [canon_seen(s) for s in seen]
                    results.append((i, {"code": code, "exc": exc, "got": got, "seen": seen_c, "passed": list(passed)}))
    results.sort(key=lambda p: p[0])
    return [r for _i, r in results]


NAME_IDS = {"context": 1, "blocking": 2, "return_response": 3, "limit": 4, "entity_id": 5}


def canon_val(k, v):
    """observed value -> [type code, value]"""
    if type(v).__name__ == "Context":
        return [1, 0]
    if isinstance(v, bool):
        return [2, int(v)]
    if isinstance(v, float):
        return [3, int(v)]
    if isinstance(v, int):
        return [4, v]
    if isinstance(v, str):
        if k == "entity_id":
            return [5, 1 if v == "pvd.ent1" else 0]
        return [5, int(v[1:]) if v[:1] == "v" and v[1:].isdigit() else -1]
    if v is None:
        return [6, 0]
    return [7, 0]


def canon_seen(s):
    data = []
    for k, v in s["data"].items():
        kid = NAME_IDS.get(k) or (int(k[1:]) if k.startswith("p") and k[1:].isdigit() else 9999)
        data.append([kid] + canon_val(k, v))
    return {"data": sorted(data), "rr": s["rr"]}


# ------------------------------------------------------------------------------------------------
# overlapping calls of one service
# ------------------------------------------------------------------------------------------------
OV_SRC = '''
@service("pvs.ov", supports_response=SR)
def ov(a1=None, dur=None, **kw):
    mine = a1 * 2 + 1
    task.sleep(dur)
    res = mine + a1
    event.fire("pv_ov", a1=a1, res=res, tt=kw.get("trigger_type"))
    return {"res": res, "a1": a1}
'''


async def run_overlap(case):
    """calls = [{"a": int, "start": virtual second, "dur": seconds}]: every call is started at its time while earlier ones
    are still suspended in task.sleep; -> per call what it returned and what the function instance saw"""
    src = OV_SRC.replace("SR", repr(case["sr"]))
    async with PyscriptEnv(files={"c0.py": src}, legacy=case["legacy"]) as env:
        await env.settle()
        t0 = env.now()
        tasks = []
        for call in sorted(case["calls"], key=lambda c: c["start"]):
            wait = call["start"] - (env.now() - t0)
            if wait > 0:
                await env.advance(wait)
            coro = env.hass.services.async_call("pvs", "ov", {"a1": call["a"], "dur": call["dur"]}, blocking=True, return_response=True)
            tasks.append((call, asyncio.ensure_future(coro)))
            await env.settle()
        await env.advance(max(c["start"] + c["dur"] for c in case["calls"]) + 1.0)
        out = []
        for call, t in tasks:
            if not t.done():
                t.cancel()
                out.append({"a": call["a"], "k": "pending"})
                continue
            try:
                r = t.result()
                out.append({"a": call["a"], "k": "ret", "res": r.get("res") if isinstance(r, dict) else None,
                            "a1": r.get("a1") if isinstance(r, dict) else None})
            except Exception as exc:  # pylint: disable=broad-except
                out.append({"a": call["a"], "k": "exc", "exc": type(exc).__name__})
        fired = sorted([e[2].get("a1"), e[2].get("res"), 0 if e[2].get("tt") == "service" else 1] for e in env.events if e[1] == "pv_ov")
        return {"calls": out, "fired": fired}


_TRACK = None


def track_instances():
    """remember (weakly) every EvalFunc / DecoratorManager created in this process"""
    global _TRACK  # pylint: disable=global-statement
    if _TRACK is not None:
        return
    import weakref

    from custom_components.pyscript.decorator_abc import DecoratorManager
    from custom_components.pyscript.eval import EvalFunc

    _TRACK = weakref.WeakSet()
    for cls in (EvalFunc, DecoratorManager):
        orig = cls.__init__

        def init(self, *a, _orig=orig, **kw):
            _orig(self, *a, **kw)
            _TRACK.add(self)

        cls.__init__ = init


def isolate():
    """Several HomeAssistant instances live one after another in this process while pyscript keeps its service tables in
    class attributes: function objects of a finished case that are garbage-collected later would run __del__/finalizers
    against the tables of the next case.  Disarm every function object / decorator manager of the finished case."""
    from custom_components.pyscript.decorator_abc import DecoratorManagerStatus
    from custom_components.pyscript.eval import EvalFunc

    for o in list(_TRACK):
        if isinstance(o, EvalFunc):
            o.trigger_service = set()
            o.trigger = []
        else:
            o.status = DecoratorManagerStatus.STOPPED
    _TRACK.clear()
    import gc

    gc.collect()


def _main():
    import gc

    req = json.loads(sys.stdin.read())
    track_instances()
    gc.disable()   # collections happen at fixed points only (collect_garbage), never at allocation-dependent moments
    import homeassistant.setup  # noqa: F401  pylint: disable=unused-import
    import pytest_homeassistant_custom_component.common  # noqa: F401  pylint: disable=unused-import

    import custom_components.pyscript  # noqa: F401  pylint: disable=unused-import

    gc.collect()
    gc.freeze()    # the imported libraries are not garbage: keep them out of every later collection (speed)
    if req["op"] == "life":
        out = []
        for case in req["cases"]:
            try:
                out.append(run_virtual(Life(case).run()))
            except Exception as exc:  # pylint: disable=broad-except
                import traceback

                out.append({"error": f"{type(exc).__name__}: {exc}", "tb": traceback.format_exc()[-1500:]})
            isolate()
    elif req["op"] == "ov":
        out = []
        for case in req["cases"]:
            out.append(run_virtual(run_overlap(case)))
            isolate()
    else:
        out = run_virtual(run_out(req["cases"]))
    print("RESULT " + json.dumps(out))


_main()
