"""Worker for C17: run real import statements / name lookups / print+log calls through the real AstEval.

stdin JSON {"op": "imports"|"shadow"|"names"|"logcall", "cases": [...], "safe": [...]} -> 'RESULT <json>'.
Only stdlib is imported at module level so that vh.props.c17 can reuse the pure helpers below."""
import io
import json
import sys

SENT_PREFIX = "PVFILE:"
BASE_FILES = {
    "pvfile.py": ["pv__x"],
    "scripts/pvs.py": ["pv__x"],
    "apps/pvapp/__init__.py": ["pv__x"],
    "apps/pvsingle.py": ["pv__x"],
    "scripts/pvpk/__init__.py": ["pv__x"],
    "scripts/pvpk/deep/__init__.py": ["pv__x"],
}
APPS_CONFIG = {"pvapp": {}, "pvsingle": {}}


# ---------------------------------------------------------------------------------------------
# pure helpers (shared with the property module)
# ---------------------------------------------------------------------------------------------
def alias_src(a):
    name, asname = a
    return name if asname is None else f"{name} as {asname}"


def stmt_src(stmt):
    if stmt["kind"] == "import":
        return "import " + ", ".join(alias_src(a) for a in stmt["names"])
    mod = stmt["module"] or ""
    return "from " + "." * stmt["level"] + mod + " import " + ", ".join(alias_src(a) for a in stmt["names"])


def program_src(via, stmt):
    s = stmt_src(stmt)
    if via == "direct":
        return s
    if via == "exec":
        return f"exec({s!r})"
    if via == "evalexec":
        inner = f"exec({s!r})"
        return f"eval({inner!r})"
    if via == "evalraw":
        return f"eval({s!r})"
    if via == "execdict":
        return f"pv__d = {{}}\nexec({s!r}, pv__d)"
    if via == "func":
        return f"pv__r = {{}}\ndef pv__f():\n    try:\n        {s}\n    finally:\n        pv__r.update(locals())\npv__f()"
    raise ValueError(via)


def file_src(path, names):
    return "".join(f"{n} = '{SENT_PREFIX}{path}#{n}'\n" for n in names)


def stmt_modules(stmt):
    """module names the statement may hand to importlib (after the check)"""
    if stmt["kind"] == "import":
        return [a[0] for a in stmt["names"]]
    return [stmt["module"]] if stmt["module"] else []


def bind_names(stmt):
    return [a[1] if a[1] is not None else a[0] for a in stmt["names"] if a[0] != "*"]


NAME_SCOPES = ["module", "func", "eval", "exec", "funceval", "comp", "class"]
# scopes in which the script declares / binds / deletes the name, nested and natively compiled bodies
NAME_SCOPES2 = {
    "gdecl": "def pv__f():\n    global {n}\n    return {n}\npv__x = pv__f()",
    "gassign": "def pv__f():\n    global {n}\n    {n} = pv__sent\n    return {n}\npv__x = pv__f()",
    "gdel": "def pv__f():\n    global {n}\n    {n} = pv__sent\n    del {n}\n    return {n}\npv__x = pv__f()",
    "gdecl_nested": "def pv__o():\n    global {n}\n    def pv__i():\n        return {n}\n    return pv__i()\npv__x = pv__o()",
    "nlassign": "def pv__o():\n    {n} = pv__sent\n    def pv__i():\n        nonlocal {n}\n        return {n}\n    return pv__i()\npv__x = pv__o()",
    "nldel": "def pv__o():\n    {n} = pv__sent\n    del {n}\n    def pv__i():\n        nonlocal {n}\n        return {n}\n    return pv__i()\npv__x = pv__o()",
    "nlnever": "def pv__o():\n    def pv__i():\n        nonlocal {n}\n        return {n}\n    return pv__i()\npv__x = pv__o()",
    "closure": "def pv__o():\n    {n} = pv__sent\n    def pv__i():\n        return {n}\n    return pv__i()\npv__x = pv__o()",
    "closuredel": "def pv__o():\n    {n} = pv__sent\n    del {n}\n    def pv__i():\n        return {n}\n    return pv__i()\npv__x = pv__o()",
    "localdel": "def pv__f():\n    {n} = pv__sent\n    del {n}\n    return {n}\npv__x = pv__f()",
    "nested": "def pv__o():\n    def pv__i():\n        return {n}\n    return pv__i()\npv__x = pv__o()",
    "method": "class pv__C:\n    def m(self):\n        return {n}\npv__x = pv__C().m()",
    "funccomp": "def pv__f():\n    return [{n} for pv__i in [0]][0]\npv__x = pv__f()",
    "funcclass": "def pv__f():\n    class pv__C:\n        pv__v = {n}\n    return pv__C.pv__v\npv__x = pv__f()",
    "dictcomp": "pv__x = list({{0: {n} for pv__i in [0]}}.values())[0]",
    "lambda": "pv__x = (lambda: {n})()",
    "lambdafunc": "def pv__f():\n    return (lambda: {n})()\npv__x = pv__f()",
    "compiled": "@pyscript_compile\ndef pv__f():\n    return {n}\npv__x = pv__f()",
    "after_lambda": "pv__l = lambda: 1\npv__x = {n}",
    "after_lambda_func": "pv__l = lambda: 1\ndef pv__f():\n    return {n}\npv__x = pv__f()",
    # source text run with explicit namespaces ({q} = repr of "pv__x = <name>", {e} = repr of "<name>", {k} = repr of the name)
    "exec_g": "pv__d = {{}}\nexec({q}, pv__d)\npv__x = pv__d['pv__x']",
    "exec_gs": "pv__d = {{{k}: pv__sent}}\nexec({q}, pv__d)\npv__x = pv__d['pv__x']",
    "eval_g": "pv__x = eval({e}, {{}})",
    "exec_gl": "pv__d = {{}}\npv__l = {{}}\nexec({q}, pv__d, pv__l)\npv__x = pv__l['pv__x']",
    "exec_gls": "pv__d = {{{k}: pv__sent}}\npv__l = {{}}\nexec({q}, pv__d, pv__l)\npv__x = pv__l['pv__x']",
    "func_eval_g": "def pv__f():\n    return eval({e}, {{}})\npv__x = pv__f()",
    "func_exec_g": "def pv__f():\n    pv__d = {{}}\n    exec({q}, pv__d)\n    return pv__d['pv__x']\npv__x = pv__f()",
}
EXPLICIT_NS_SCOPES = ["exec_g", "eval_g", "exec_gl", "func_eval_g", "func_exec_g"]


def name_program(scope, name):
    if scope in NAME_SCOPES2:
        return NAME_SCOPES2[scope].format(n=name, q=repr(f"pv__x = {name}"), e=repr(name), k=repr(name))
    if scope == "module":
        return f"pv__x = {name}"
    if scope == "func":
        return f"def pv__f():\n    return {name}\npv__x = pv__f()"
    if scope == "eval":
        return f"pv__x = eval({name!r})"
    if scope == "exec":
        return "exec(%r)" % f"pv__x = {name}"
    if scope == "funceval":
        return f"def pv__f():\n    return eval({name!r})\npv__x = pv__f()"
    if scope == "comp":
        return f"pv__x = [{name} for pv__i in [0]][0]"
    if scope == "class":
        return f"class pv__C:\n    pv__v = {name}\npv__x = pv__C.pv__v"
    raise ValueError(scope)


# ---------------------------------------------------------------------------------------------
# running the real code
# ---------------------------------------------------------------------------------------------
class Sent:
    def __repr__(self):
        return "<pv sentinel>"


def classify_exc(exc, skipped_stub):
    if exc is None:
        return ("SIgnored" if skipped_stub else "SOk"), ""
    tn = type(exc).__name__
    msg = str(exc)
    if type(exc) is ModuleNotFoundError:
        if msg.startswith("import ") and msg.endswith(" not allowed"):
            return "SDenied", tn
        if msg.startswith("module '") and msg.endswith("' not found"):
            return "SRelNotFound", tn
        if msg.endswith("not supported for stubs"):
            return "SStubAs", tn
        if msg.startswith("No module named"):
            return "SSysMissing", tn
        return "SUnknown", tn
    if type(exc) is ImportError:
        if msg.startswith("attempted relative import"):
            return "SImportErr", tn
        return "SSysMissing", tn
    if type(exc) is AttributeError and "has no attribute" in msg:
        return "SAttrErr", tn
    if isinstance(exc, SyntaxError):
        return "SSyntax", tn
    return "SUnknown", tn


def origin_of(value, key, stmt, pyscript_dir):
    """where did the value bound under `key` come from -> ["ps", relpath] | ["sys", module] | ["other", repr]"""
    import types

    from custom_components.pyscript.global_ctx import GlobalContextMgr

    if isinstance(value, str) and value.startswith(SENT_PREFIX):
        return ["ps", value[len(SENT_PREFIX):].split("#")[0]]
    if stmt["kind"] == "import":
        for a in stmt["names"]:
            if (a[1] if a[1] is not None else a[0]) == key and sys.modules.get(a[0]) is value:
                return ["sys", a[0]]
    if stmt["kind"] == "from" and stmt["module"]:
        mod = sys.modules.get(stmt["module"])
        if mod is not None:
            attrs = [a[0] for a in stmt["names"] if (a[1] if a[1] is not None else a[0]) == key and a[0] != "*"]
            if any(a[0] == "*" for a in stmt["names"]):
                attrs.append(key)
            for attr in attrs:
                if hasattr(mod, attr) and getattr(mod, attr) is value:
                    return ["sys", stmt["module"]]
    if isinstance(value, types.ModuleType):
        for ctx in GlobalContextMgr.contexts.values():
            if ctx.module is value:
                path = ctx.file_path or ""
                if path.startswith(pyscript_dir):
                    path = path[len(pyscript_dir):].lstrip("/")
                return ["ps", path]
        name = getattr(value, "__name__", None)
        if name is not None and sys.modules.get(name) is value:
            return ["sys", name]
    return ["other", repr(value)[:60]]


def sys_facts(case, safe, allowed):
    """environment facts about the installed modules the statement may reach (imported here only if permitted)"""
    import importlib

    facts = {}
    stmt = case["stmt"]
    for m in stmt_modules(stmt):
        if m in facts:
            continue
        if not (m in allowed or (case["aa"] and m in safe)):
            continue
        try:
            mod = importlib.import_module(m)
        except Exception:  # pylint: disable=broad-except
            facts[m] = {"ok": False, "has": [], "public": []}
            continue
        has, public = [], []
        if stmt["kind"] == "from":
            has = sorted({a[0] for a in stmt["names"] if a[0] != "*" and hasattr(mod, a[0])})
            if any(a[0] == "*" for a in stmt["names"]):
                public = sorted(n for n in mod.__dict__ if n[0] != "_")
        facts[m] = {"ok": True, "has": has, "public": public}
    return facts


class StubLog:
    """sees the debug line ast_importfrom logs when it skips a stubs import"""

    def __init__(self):
        import logging

        self.hit = False
        outer = self

        class H(logging.Handler):
            def emit(self, record):
                try:
                    if record.getMessage().startswith("Skipping stubs import"):
                        outer.hit = True
                except Exception:  # pylint: disable=broad-except
                    pass

        self.handler = H(logging.DEBUG)
        self.logger = logging.getLogger("custom_components.pyscript.eval")
        self.old = self.logger.level

    def __enter__(self):
        import logging

        self.logger.setLevel(logging.DEBUG)
        self.logger.addHandler(self.handler)
        return self

    def __exit__(self, *a):
        self.logger.removeHandler(self.handler)
        self.logger.setLevel(self.old)


async def run_import_case(case, ast_ctx, pyscript_dir, safe, allowed):
    """execute the case's program on `ast_ctx` (a fresh real AstEval) and observe"""
    stmt, via = case["stmt"], case["via"]
    g = ast_ctx.global_sym_table
    sent = Sent()
    if case.get("sent") and via in ("direct", "exec", "evalexec", "evalraw"):
        for n in bind_names(stmt):
            g[n] = sent
    before = dict(g)
    src = program_src(via, stmt)
    exc = None
    with StubLog() as sl:
        try:
            ast_ctx.parse(src)
            await ast_ctx.eval()
        except Exception as e:  # pylint: disable=broad-except
            exc = e
    status, tn = classify_exc(exc, sl.hit)
    changed = {k: v for k, v in g.items() if k not in before or before[k] is not v}
    removed = [k for k in before if k not in g]
    if via == "execdict":
        target = changed.get("pv__d") if isinstance(changed.get("pv__d"), dict) else {}
        target = {k: v for k, v in target.items() if k != "__builtins__"}
    elif via == "func":
        target = changed.get("pv__r") if isinstance(changed.get("pv__r"), dict) else {}
    else:
        target = changed
    if via in ("execdict", "func"):
        stray = sorted(k for k in changed if not k.startswith("pv__")) + removed
    else:
        stray = removed
    bound = []
    for k, v in target.items():
        if k.startswith("pv__"):
            continue
        bound.append([k] + origin_of(v, k, stmt, pyscript_dir))
    bound.sort()
    return {"status": status, "exc": tn, "msg": str(exc)[:100] if exc else "", "bound": bound, "stray": stray,
            "sys": sys_facts(case, safe, allowed)}


def set_allow_all(hass, value):
    from pytest_homeassistant_custom_component.common import MockConfigEntry

    from custom_components.pyscript.const import CONFIG_ENTRY, DOMAIN

    hass.data[DOMAIN] = {CONFIG_ENTRY: MockConfigEntry(domain=DOMAIN, data={"allow_all_imports": bool(value)})}


async def op_imports(req):
    """interpreter-only: one HomeAssistant, a fresh GlobalContext + AstEval per case, no pyscript files"""
    import shutil
    import tempfile

    from pytest_homeassistant_custom_component.common import async_test_home_assistant

    from custom_components.pyscript.const import ALLOWED_IMPORTS
    from vh.hassenv import interp_env_setup, new_interp, reset_pyscript_class_state

    out = []
    tmp = tempfile.mkdtemp(prefix="pv_c17_", dir="/var/tmp")
    try:
        async with async_test_home_assistant(config_dir=tmp) as hass:
            reset_pyscript_class_state()
            interp_env_setup(hass, allow_all_imports=False)
            pdir = hass.config.path("pyscript")
            for case in req["cases"]:
                if case["aa"] and not all(m in req["safe"] for m in stmt_modules(case["stmt"])):
                    raise RuntimeError(f"unsafe case with allow_all_imports: {case}")
                set_allow_all(hass, case["aa"])
                a, gc = new_interp("pvi")
                obs = await run_import_case(case, a, pdir, set(req["safe"]), set(ALLOWED_IMPORTS))
                obs["rel"] = gc.rel_import_path
                out.append(obs)
            await hass.async_stop(force=True)
    finally:
        shutil.rmtree(tmp, ignore_errors=True)
    return out


async def op_shadow(req):
    """full integration with real files under pyscript/: one PyscriptEnv per case"""
    import os

    from custom_components.pyscript.const import ALLOWED_IMPORTS
    from custom_components.pyscript.eval import AstEval
    from custom_components.pyscript.function import Function
    from custom_components.pyscript.global_ctx import GlobalContext, GlobalContextMgr
    from vh.hassenv import PyscriptEnv

    out = []
    for case in req["cases"]:
        if case["aa"] and not all(m in req["safe"] for m in stmt_modules(case["stmt"])):
            raise RuntimeError(f"unsafe case with allow_all_imports: {case}")
        files = {p: file_src(p, names) for p, names in case["files"].items()}
        async with PyscriptEnv(files=files, allow_all_imports=case["aa"], apps_config=APPS_CONFIG) as env:
            pdir = env.hass.config.path("pyscript")
            # preparatory imports from an independent file-like context
            if case.get("pre"):
                pgc = GlobalContext("file.pvpre", global_sym_table={}, manager=GlobalContextMgr)
                for m in case["pre"]:
                    pa = AstEval("file.pvpre", pgc)
                    Function.install_ast_funcs(pa)
                    try:
                        pa.parse(f"import {m}")
                        await pa.eval()
                    except Exception:  # pylint: disable=broad-except
                        pass
            for p in case.get("rm", []):
                try:
                    os.remove(os.path.join(pdir, p))
                except OSError:
                    pass
            gc = GlobalContextMgr.get(case["ctx"])
            if gc is None:
                out.append({"status": "SUnknown", "exc": "NoContext", "msg": case["ctx"], "bound": [], "stray": [], "sys": {}, "rel": None})
                continue
            a = AstEval(case["ctx"], gc)
            Function.install_ast_funcs(a)
            obs = await run_import_case(case, a, pdir, set(req["safe"]), set(ALLOWED_IMPORTS))
            obs["rel"] = gc.rel_import_path
            out.append(obs)
    return out


async def op_names(req):
    import builtins
    import logging
    import shutil
    import tempfile

    from pytest_homeassistant_custom_component.common import async_test_home_assistant

    from custom_components.pyscript.const import LOGGER_PATH
    from custom_components.pyscript.function import Function
    from vh.hassenv import interp_env_setup, new_interp, reset_pyscript_class_state

    out = []
    tmp = tempfile.mkdtemp(prefix="pv_c17_", dir="/var/tmp")
    try:
        async with async_test_home_assistant(config_dir=tmp) as hass:
            reset_pyscript_class_state()
            interp_env_setup(hass, allow_all_imports=False)
            installed = set(Function.ast_functions)
            for case in req["cases"]:
                name = case["name"]
                a, _gc = new_interp("pvn")
                sent = Sent()
                bound = Sent()
                a.global_sym_table["pv__sent"] = bound   # the value the probe programs assign to the name themselves
                if case["shadow"]:
                    a.global_sym_table[name] = sent
                exc = None
                try:
                    a.parse(name_program(case["scope"], name))
                    await a.eval()
                except Exception as e:  # pylint: disable=broad-except
                    exc = e
                kind, logger_ok = "KOther", False
                if exc is not None:
                    kind = "KUndefined" if type(exc) is NameError else "KOther"
                elif "pv__x" not in a.global_sym_table:
                    kind = "KOther"
                else:
                    v = a.global_sym_table["pv__x"]
                    if v is sent or v is bound:
                        kind = "KUser"
                    elif v is builtins.__dict__ or v is builtins:
                        kind = "KBuiltinsNs"
                    elif hasattr(builtins, name) and v is getattr(builtins, name):
                        kind = "KBuiltin"
                    elif isinstance(getattr(v, "__self__", None), logging.Logger):
                        kind = "KLogger:" + v.__func__.__name__
                        logger_ok = v.__self__.name == LOGGER_PATH + ".pvn"
                    elif getattr(v, "__name__", "") in ("eval_func", "globals_func", "locals_func"):
                        kind = "KFactory"
                    elif name in installed:
                        kind = "KAstFunc"
                out.append({"kind": kind, "logger_ok": logger_ok, "pybuiltin": hasattr(builtins, name),
                            "exc": f"{type(exc).__name__}: {exc}"[:100] if exc else ""})
            await hass.async_stop(force=True)
    finally:
        shutil.rmtree(tmp, ignore_errors=True)
    return out


async def op_logcall(req):
    import logging
    import shutil
    import tempfile

    from pytest_homeassistant_custom_component.common import async_test_home_assistant

    from custom_components.pyscript.const import LOGGER_PATH
    from vh.hassenv import interp_env_setup, new_interp, reset_pyscript_class_state

    out = []
    tmp = tempfile.mkdtemp(prefix="pv_c17_", dir="/var/tmp")
    records = []

    class H(logging.Handler):
        def emit(self, record):
            try:
                records.append((record.name, record.levelname.lower(), record.getMessage()))
            except Exception:  # pylint: disable=broad-except
                records.append((record.name, record.levelname.lower(), "<unformattable>"))

    root = logging.getLogger(LOGGER_PATH)
    handler = H(logging.DEBUG)
    try:
        async with async_test_home_assistant(config_dir=tmp) as hass:
            reset_pyscript_class_state()
            interp_env_setup(hass, allow_all_imports=False)
            old = root.level
            root.setLevel(logging.DEBUG)
            root.addHandler(handler)
            for case in req["cases"]:
                a, _gc = new_interp("pvl")
                call = f"{case['func']}({case['msg']!r})"
                src = name_program(case["scope"], call) if case["scope"] != "module" else call
                del records[:]
                real_out = sys.stdout
                sys.stdout = buf = io.StringIO()
                exc = None
                try:
                    a.parse(src)
                    await a.eval()
                except Exception as e:  # pylint: disable=broad-except
                    exc = e
                finally:
                    sys.stdout = real_out
                recs = [[n == LOGGER_PATH + ".pvl", lvl, msg == case["msg"]] for n, lvl, msg in records
                        if n.startswith(LOGGER_PATH + ".pvl") or msg == case["msg"]]  # the interpreter's own call trace on ...eval is not script output
                out.append({"records": recs, "stdout": buf.getvalue() != "", "exc": f"{type(exc).__name__}: {exc}"[:100] if exc else ""})
            root.removeHandler(handler)
            root.setLevel(old)
            await hass.async_stop(force=True)
    finally:
        shutil.rmtree(tmp, ignore_errors=True)
    return out


TRIG_SITES = ["trig_state", "trig_event", "trig_active", "trig_wait"]


def trig_script(items, shadow_name=None):
    """script whose trigger string expressions record what `name` denotes there: pv_seen[i].append(<name>)"""
    out = ["pv_seen = {}\n"]
    if shadow_name is not None:
        out.append(f"{shadow_name} = 'PVUSER'\n")
    for i, (site, name) in enumerate(items):
        out.append(f"pv_seen[{i}] = []\n")
        e = f"pv_seen[{i}].append({name}) is None"
        if site == "trig_state":
            out.append(f"@state_trigger(\"pyscript.pvx == '1' and {e}\")\ndef pv_t{i}():\n    pass\n")
        elif site == "trig_event":
            out.append(f"@event_trigger('pv_ev', \"{e}\")\ndef pv_t{i}():\n    pass\n")
        elif site == "trig_active":
            out.append(f"@state_trigger(\"pyscript.pvx == '1'\")\n@state_active(\"{e}\")\ndef pv_t{i}():\n    pass\n")
        elif site == "trig_wait":
            out.append(f"@time_trigger('startup')\ndef pv_t{i}():\n    task.wait_until(state_trigger=\"pyscript.pvx == '1' and {e}\")\n")
        else:
            raise ValueError(site)
    return "".join(out)


def flip_script(via, stmt):
    s = stmt_src(stmt)
    body = s if via == "direct" else f"exec({s!r})"
    return ("pv__r = {}\npv__e = {}\n@service\ndef pv_run():\n    pv__r.clear()\n    pv__e.clear()\n    try:\n        try:\n"
            f"            {body}\n        except Exception as pv__x:\n            pv__e['exc'] = pv__x\n    finally:\n"
            "        pv__r.update(locals())\n")


async def op_trignames(req):
    """names looked up inside trigger string expressions of a really loaded script, one PyscriptEnv per group"""
    import builtins

    from custom_components.pyscript.global_ctx import GlobalContextMgr
    from vh.hassenv import PyscriptEnv

    out = []
    for group in req["groups"]:
        items = [(c["scope"], c["name"]) for c in group["cases"]]
        shadow = group["cases"][0]["name"] if group["shadow"] else None
        async with PyscriptEnv(files={"pvtrig.py": trig_script(items, shadow)}, allow_all_imports=False, legacy=group["legacy"]) as env:
            hass = env.hass
            hass.states.async_set("pyscript.pvx", "0")
            await env.settle()
            hass.states.async_set("pyscript.pvx", "1")
            await env.settle()
            hass.bus.async_fire("pv_ev", {"pv_a": 1})
            await env.settle()
            gc = GlobalContextMgr.get("file.pvtrig")
            seen = gc.global_sym_table.get("pv_seen", {}) if gc else {}
            for i, (site, name) in enumerate(items):
                vals = seen.get(i, [])
                kind, exc = "KOther", ""
                if vals:
                    v = vals[0]
                    if v == "PVUSER":
                        kind = "KUser"
                    elif hasattr(builtins, name) and v is getattr(builtins, name):
                        kind = "KBuiltin"
                    elif getattr(v, "__name__", "") in ("eval_func", "globals_func", "locals_func"):
                        kind = "KFactory"
                    else:
                        exc = "value " + repr(v)[:60]
                else:
                    needle = f"NameError: name '{name}' is not defined"
                    for _lg, _lv, msg in env.log.records:
                        if needle in msg and (f"pv_seen[{i}]" in msg or f"pv_t{i}" in msg or (site == "trig_wait" and "run_coro" in msg)):
                            kind, exc = "KUndefined", needle
                            break
                out.append({"kind": kind, "logger_ok": False, "pybuiltin": hasattr(builtins, name), "exc": exc})
    return out


async def op_optflip(req):
    """allow_all_imports switched at run time (config entry data updated, no reload); the import runs inside a @service
    function of a script that was loaded before the switch"""
    from custom_components.pyscript.const import ALLOWED_IMPORTS, CONF_ALLOW_ALL_IMPORTS, DOMAIN
    from custom_components.pyscript.global_ctx import GlobalContextMgr
    from vh.hassenv import PyscriptEnv

    out = []
    for case in req["cases"]:
        if not all(m in req["safe"] for m in stmt_modules(case["stmt"])):
            raise RuntimeError(f"unsafe case with allow_all_imports: {case}")
        steps = []
        async with PyscriptEnv(files={"pvflip.py": flip_script(case["via"], case["stmt"])}, allow_all_imports=case["aa0"], legacy=case["legacy"]) as env:
            hass = env.hass
            pdir = hass.config.path("pyscript")
            gc = GlobalContextMgr.get("file.pvflip")
            for val in case["seq"]:
                entry = hass.config_entries.async_entries(DOMAIN)[0]
                if bool(entry.data.get(CONF_ALLOW_ALL_IMPORTS, False)) != bool(val):
                    data = dict(entry.data)
                    data[CONF_ALLOW_ALL_IMPORTS] = bool(val)
                    hass.config_entries.async_update_entry(entry, data=data)
                    await env.settle()
                g = gc.global_sym_table
                before = dict(g)
                with StubLog() as sl:
                    await hass.services.async_call("pyscript", "pv_run", {}, blocking=True)
                    await env.settle()
                exc = g["pv__e"].get("exc")
                status, tn = classify_exc(exc, sl.hit)
                bound = sorted([k] + origin_of(v, k, case["stmt"], pdir) for k, v in g["pv__r"].items() if not k.startswith("pv__"))
                stray = sorted(k for k, v in g.items() if not k.startswith("pv__") and (k not in before or before[k] is not v))
                steps.append({"aa": bool(val), "status": status, "exc": tn, "msg": str(exc)[:100] if exc else "", "bound": bound, "stray": stray,
                              "entry_aa": bool(hass.config_entries.async_entries(DOMAIN)[0].data.get(CONF_ALLOW_ALL_IMPORTS, False))})
        fc = dict(case, aa=True)
        out.append({"steps": steps, "sys": sys_facts(fc, set(req["safe"]), set(ALLOWED_IMPORTS))})
    return out


def late_module_src(name):
    return f"VALUE = 'late:{name}'\n\ndef helper():\n    return VALUE\n"


async def op_late(req):
    """installation histories: an allowed module is missing when first imported, gets installed (a directory on sys.path stands
    for site-packages), and is imported again - all in ONE HomeAssistant instance"""
    import importlib
    import os
    import shutil
    import tempfile

    from pytest_homeassistant_custom_component.common import async_test_home_assistant

    from custom_components.pyscript.const import ALLOWED_IMPORTS
    from vh.hassenv import interp_env_setup, new_interp, reset_pyscript_class_state

    out = []
    tmp = tempfile.mkdtemp(prefix="pv_c17_", dir="/var/tmp")
    site = tempfile.mkdtemp(prefix="pv_c17site_", dir="/var/tmp")
    sys.path.insert(0, site)
    try:
        async with async_test_home_assistant(config_dir=tmp) as hass:
            reset_pyscript_class_state()
            interp_env_setup(hass, allow_all_imports=False)
            pdir = hass.config.path("pyscript")
            for case in req["cases"]:
                mod = case["module"]
                top = mod.split(".")[0]
                if importlib.util.find_spec(top) is not None:
                    raise RuntimeError(f"late module {mod} is already installed")
                steps = []
                for step in case["steps"]:
                    if step["op"] == "install":
                        parts = mod.split(".")
                        d = site
                        for p in parts[:-1]:
                            d = os.path.join(d, p)
                            os.makedirs(d, exist_ok=True)
                            with open(os.path.join(d, "__init__.py"), "w", encoding="utf-8") as f:
                                f.write("")
                        with open(os.path.join(d, parts[-1] + ".py"), "w", encoding="utf-8") as f:
                            f.write(late_module_src(mod))
                        importlib.invalidate_caches()
                        continue
                    set_allow_all(hass, case["aa"])
                    a, _gc = new_interp("pvi")
                    c = {"aa": case["aa"], "stmt": step["stmt"], "via": step["via"], "sent": False}
                    obs = await run_import_case(c, a, pdir, set(req["safe"]) | {mod, top}, set(ALLOWED_IMPORTS))
                    obs["rel"] = None
                    steps.append(obs)
                out.append({"steps": steps})
                # uninstall again
                for k in [k for k in sys.modules if k == top or k.startswith(top + ".")]:
                    del sys.modules[k]
                for entry in os.listdir(site):
                    path = os.path.join(site, entry)
                    shutil.rmtree(path, ignore_errors=True) if os.path.isdir(path) else os.remove(path)
                importlib.invalidate_caches()
            await hass.async_stop(force=True)
    finally:
        sys.path.remove(site)
        shutil.rmtree(tmp, ignore_errors=True)
        shutil.rmtree(site, ignore_errors=True)
    return out


def main():
    from vh.hassenv import run_virtual

    req = json.loads(sys.stdin.read())
    op = {"imports": op_imports, "shadow": op_shadow, "names": op_names, "logcall": op_logcall,
          "trignames": op_trignames, "optflip": op_optflip, "late": op_late}[req["op"]]
    real_stdout = sys.stdout
    sys.stdout = sys.stderr  # anything the environment prints is log, not result
    try:
        out = run_virtual(op(req))
    finally:
        sys.stdout = real_stdout
    print("RESULT " + json.dumps(out))


if __name__ == "__main__":
    main()
