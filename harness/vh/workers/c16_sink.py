"""C16 — native helper imported by the generated pyscript code: records what the script saw, canonicalised at once.

The generated script calls `pvsink.ok(i, value)` / `pvsink.exc(i, exception)` right after executing the generated
statement of step i, so values are canonicalised before anything else can happen.  `mkobj` builds the plain Python
objects bound to the variables that shadow state domains.
"""
import datetime as _dt

from vh.workers import c16_tables as T

RECORDS = {}
HASS = [None]


class LogicalClock:
    """Home Assistant's wall clock (homeassistant.core.time) during a case: constant within a step, +10 s per step,
    so every time stamp identifies the step that wrote it."""

    def __init__(self):
        import time as _t

        self._real = _t
        self.base = float(int(_t.time()))
        self.tick = 0

    def __getattr__(self, name):
        return getattr(self._real, name)

    def time(self):
        return self.base + 10.0 * self.tick

    def rank(self, stamp):
        """datetime -> number of the step that produced it (-1: not one of ours)"""
        try:
            x = (stamp.timestamp() - self.base) / 10.0
        except Exception:  # pylint: disable=broad-except
            return -1
        r = round(x)
        return r if abs(x - r) < 1e-4 and r >= 0 else -1


CLOCK = [None]


def time_id(stamp):
    r = CLOCK[0].rank(stamp) if CLOCK[0] is not None else -1
    return T.TIME_BASE + r if r >= 0 else T.V_BADTIME
DYN = {}   # canonical string -> dynamic id (values outside the fixed tables), per case


class PvObj:
    """plain object whose attributes shadow state names (pvg.e0 ...)"""

    def __init__(self, **kw):
        for k, v in kw.items():
            setattr(self, k, v)


def mkobj(**kw):
    return PvObj(**kw)


def reset(hass):
    RECORDS.clear()
    STATE_AT.clear()
    OBSERVER[0] = None
    DYN.clear()
    HASS[0] = hass


def vid(v):
    """canonical id of a plain Python value"""
    from custom_components.pyscript.state import StateVal

    if isinstance(v, StateVal):
        v = str(v)
    if callable(v):
        return T.V_FUNC
    if isinstance(v, _dt.datetime):
        return time_id(v)
    try:
        c = T.canon(v)
    except Exception:  # pylint: disable=broad-except
        c = "unrepr:" + type(v).__name__
    if c in T.CANON2ID:
        return T.CANON2ID[c]
    if c not in DYN:
        DYN[c] = T.DYN_BASE + len(DYN)
    return DYN[c]


NAME2IDENT = {}


def ident_of(name):
    if not NAME2IDENT:
        NAME2IDENT.update({s: i for i, s in T.IDENT.items()})
    if name in NAME2IDENT:
        return NAME2IDENT[name]
    key = "ident:" + name
    if key not in DYN:
        DYN[key] = 900 + len(DYN)
    return DYN[key]


def attrs_of(d):
    return [[ident_of(k), vid(v)] for k, v in d.items()]


def pyval(v):
    """canonical JSON form of anything a step can see"""
    from custom_components.pyscript.state import StateVal

    if isinstance(v, StateVal):
        return {"k": "snap", "v": vid(str(v)), "d": [[ident_of(k), vid(x)] for k, x in v.__dict__.items()]}
    if isinstance(v, PvObj):
        return {"k": "obj", "d": attrs_of(v.__dict__)}
    if callable(v):
        return {"k": "func"}
    return {"k": "val", "v": vid(v)}


def ok(i, v, kind="val", fresh=False):
    if kind == "attrs" and isinstance(v, dict):
        r = {"k": "dict", "d": attrs_of(v)}
    elif kind == "names" and isinstance(v, list):
        r = {"k": "names", "l": [name_of(x) for x in v]}
    else:
        r = pyval(v)
    RECORDS[i] = {"ok": r}
    _snap(i)


def name_of(s):
    parts = str(s).split(".")
    return [ident_of(p) for p in parts]


def exc(i, e):
    RECORDS[i] = {"exc": type(e).__name__, "msg": str(e)[:120]}
    _snap(i)


OBSERVER = [None]   # set by the worker: () -> observation of the whole state, taken the moment a step reports
STATE_AT = {}


def _snap(i):
    if OBSERVER[0] is not None:
        STATE_AT[i] = OBSERVER[0]()


def begin(i):
    """called by grouped steps (several operations in one function body): step i starts now -> logical time i+1"""
    if CLOCK[0] is not None:
        CLOCK[0].tick = i + 1
