"""C16 — native helper imported by the generated pyscript code: records what the script saw, canonicalised at once.

The generated script calls `pvsink.ok(i, value)` / `pvsink.exc(i, exception)` right after executing the generated
statement of step i, so values are canonicalised before anything else can happen.  `mkobj` builds the plain Python
objects bound to the variables that shadow state domains.
"""
import datetime as _dt

from vh.workers import c16_tables as T

RECORDS = {}
HASS = [None]
DYN = {}   # canonical string -> dynamic id (values outside the fixed tables), per case


class PvObj:
    """plain object whose attributes shadow state names (pvg.e0 ...)"""

    def __init__(self, **kw):
        for k, v in kw.items():
            setattr(self, k, v)


def mkobj(**kw):
    return PvObj(**kw)


def reset(hass):
    RECORDS.clear()
    DYN.clear()
    HASS[0] = hass


def vid(v):
    """canonical id of a plain Python value"""
    from custom_components.pyscript.state import StateVal

    if isinstance(v, StateVal):
        v = str(v)
    if callable(v):
        return T.V_FUNC
    if isinstance(v, _dt.datetime):
        return T.V_TIME
    try:
        c = T.canon(v)
    except Exception:  # pylint: disable=broad-except
        c = "unrepr:" + type(v).__name__
    if c in T.CANON2ID:
        return T.CANON2ID[c]
    if c not in DYN:
        DYN[c] = T.DYN_BASE + len(DYN)
    return DYN[c]


NAME2IDENT = {}


def ident_of(name):
    if not NAME2IDENT:
        NAME2IDENT.update({s: i for i, s in T.IDENT.items()})
    if name in NAME2IDENT:
        return NAME2IDENT[name]
    key = "ident:" + name
    if key not in DYN:
        DYN[key] = 900 + len(DYN)
    return DYN[key]


def attrs_of(d):
    return [[ident_of(k), vid(v)] for k, v in d.items()]


def pyval(v):
    """canonical JSON form of anything a step can see"""
    from custom_components.pyscript.state import StateVal

    if isinstance(v, StateVal):
        d = []
        hs = HASS[0].states.get(v.__dict__.get("entity_id", "")) if isinstance(v.__dict__.get("entity_id"), str) else None
        for k, x in v.__dict__.items():
            if isinstance(x, _dt.datetime) and k in ("last_changed", "last_updated", "last_reported"):
                d.append([ident_of(k), T.V_TIME])
            else:
                d.append([ident_of(k), vid(x)])
        return {"k": "snap", "v": vid(str(v)), "d": d}
    if isinstance(v, PvObj):
        return {"k": "obj", "d": attrs_of(v.__dict__)}
    if callable(v):
        return {"k": "func"}
    return {"k": "val", "v": vid(v)}


def _times_ok(v):
    """virtual time fields of a fresh snapshot equal the entity's fields in hass right now"""
    from custom_components.pyscript.state import StateVal

    if not isinstance(v, StateVal):
        return True
    ent = v.__dict__.get("entity_id")
    hs = HASS[0].states.get(ent) if isinstance(ent, str) else None
    if hs is None:
        return False
    return all(v.__dict__.get(k) == getattr(hs, k) for k in ("last_changed", "last_updated", "last_reported"))


def ok(i, v, kind="val", fresh=False):
    if kind == "attrs" and isinstance(v, dict):
        r = {"k": "dict", "d": attrs_of(v)}
    elif kind == "names" and isinstance(v, list):
        r = {"k": "names", "l": [name_of(x) for x in v]}
    else:
        r = pyval(v)
        if fresh and r["k"] == "snap" and not _times_ok(v):
            r["d"] = [[k, (T.V_BADTIME if x == T.V_TIME else x)] for k, x in r["d"]]
    RECORDS[i] = {"ok": r}


def name_of(s):
    parts = str(s).split(".")
    return [ident_of(p) for p in parts]


def exc(i, e):
    RECORDS[i] = {"exc": type(e).__name__, "msg": str(e)[:120]}
