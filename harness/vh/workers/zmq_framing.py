"""Worker: drive the real ZmqSocket over in-memory streams (no sockets). stdin JSON -> 'RESULT <json>'."""
import asyncio
import json
import sys

from custom_components.pyscript.jupyter_kernel import ZmqSocket


class RecWriter:
    def __init__(self):
        self.data = bytearray()
        self.closed = False

    def write(self, b):
        self.data += bytes(b)

    async def drain(self):
        await asyncio.sleep(0)

    def close(self):
        self.closed = True


def expand(runs):
    return b"".join(bytes([v]) * c for v, c in runs)


def rle(b):
    runs = []
    i, n = 0, len(b)
    while i < n:
        j = i
        while j < n and b[j] == b[i]:
            j += 1
        runs.append([b[i], j - i])
        i = j
    return runs


def cut(data, cuts):
    chunks = []
    pos = 0
    for c in cuts:
        if c <= 0:
            continue
        if pos >= len(data):
            break
        chunks.append(data[pos : pos + c])
        pos += c
    if pos < len(data):
        chunks.append(data[pos:])
    return chunks


async def recv_from(data, cuts, single):
    """Feed `data` chunk by chunk (next chunk only once the reader's buffer is empty) and run recv."""
    reader = asyncio.StreamReader()
    sock = ZmqSocket(reader, RecWriter(), "ROUTER")
    chunks = cut(data, cuts)
    fed = [0]

    async def feeder():
        for ch in chunks:
            while len(reader._buffer) > 0:  # pylint: disable=protected-access
                await asyncio.sleep(0)
            reader.feed_data(ch)
            fed[0] += 1
            await asyncio.sleep(0)
        while len(reader._buffer) > 0:
            await asyncio.sleep(0)
        reader.feed_eof()

    task = asyncio.ensure_future(feeder())
    try:
        res = await sock.recv(multipart=not single)
        kind = "ok"
    except EOFError:
        res, kind = None, "eof"
    except (IndexError, ValueError, Exception) as exc:  # struct.error is a subclass of Exception
        res, kind = None, "badcmd" if type(exc).__name__ in ("IndexError", "error") else "other:" + type(exc).__name__
    task.cancel()
    try:
        await task
    except (asyncio.CancelledError, Exception):
        pass
    rest = bytes(reader._buffer) + b"".join(chunks[fed[0]:])
    if kind == "ok":
        parts = [res] if single else res
        return {"kind": "ok", "parts": [rle(p) for p in parts], "rest": rle(rest)}
    return {"kind": kind}


async def do_framing(case):
    parts = [expand(p) for p in case["parts"]]
    w = RecWriter()
    sock = ZmqSocket(None, w, "ROUTER")
    single = case["mode"] == "single"
    try:
        if single:
            await sock.send(parts[0])
        else:
            await sock.send_multipart(parts)
        sent = bytes(w.data)
    except Exception as exc:  # e.g. bytearray([.., 256]) -> ValueError
        return {"sent": None, "send_exc": type(exc).__name__, "recv": {"kind": "nosend"}}
    data = sent + expand(case["trail"])
    if not data:
        return {"sent": rle(sent), "recv": {"kind": "eof"}}
    r = await recv_from(data, case["cuts"], single)
    return {"sent": rle(sent), "recv": r}


async def main():
    req = json.loads(sys.stdin.read())
    out = []
    for case in req["cases"]:
        if req["op"] == "framing":
            out.append(await do_framing(case))
        else:
            out.append(await recv_from(expand(case["stream"]), case["cuts"], False))
    print("RESULT " + json.dumps(out))


asyncio.run(main())
