"""Worker for C03: run generated sources through the REAL AstEval and through CPython's exec.

stdin JSON {"op": "run"|"scope", "cases": [...]} -> one line 'RESULT <json>'.

op "run":   case = {"src": str}.  Both interpreters execute the module; the observation is the canonicalised value of
            the global `R` afterwards, or the exception type.
op "scope": case = {"src": str, "func": name}.  As "run", plus the static analysis of the *first* FunctionDef named
            `func` at module level: what the real AstEval.get_names (get_names_set/get_target_names, called exactly as
            EvalFunc.resolve_nonlocals calls it) computes, and what CPython's `symtable` module says.
"""
import ast
import asyncio
import json
import shutil
import symtable
import sys
import tempfile


def canon(v, depth=0):
    """JSON-able canonical form of a result value (type-tagged so that 1, True and '1' stay distinct)."""
    if depth > 12:
        return {"o": "deep"}
    if v is None or isinstance(v, bool):
        return v
    if isinstance(v, str):
        return v if len(v) <= 300 else {"longstr": [len(v), v[:40]]}
    if isinstance(v, int):
        return v if abs(v) < 2**53 else {"o": "bigint"}
    if isinstance(v, float):
        return {"f": repr(v)}
    if isinstance(v, tuple):
        return {"t": [canon(x, depth + 1) for x in v]}
    if isinstance(v, list):
        return [canon(x, depth + 1) for x in v]
    if isinstance(v, dict):
        return {"d": [[canon(k, depth + 1), canon(x, depth + 1)] for k, x in v.items()]}
    if isinstance(v, (set, frozenset)):
        return {"s": sorted(json.dumps(canon(x, depth + 1), sort_keys=True) for x in v)}
    if isinstance(v, BaseException):
        return {"exc": type(v).__name__}
    if isinstance(v, type):
        return {"o": "class:" + v.__name__}
    if callable(v):
        return {"o": "callable"}
    return {"o": type(v).__name__}


def exc_obs(e):
    return {"kind": "exc", "type": type(e).__name__, "msg": str(e)[:160]}


PY_PRELUDE = {
    # CPython has no @pyscript_compile: the identity decorator is its meaning ("compile natively")
    "pyscript_compile": (lambda f=None: f if f is not None else (lambda g: g)),
}


def run_py(src, modules=None):
    """CPython: helper modules are real module objects in sys.modules for the duration of the run"""
    import types

    g = dict(PY_PRELUDE)
    g["__name__"] = "pv_mod"
    added = []
    try:
        for name, msrc in (modules or {}).items():
            mod = types.ModuleType(name)
            mod.__dict__.update(PY_PRELUDE)
            exec(compile(msrc, name, "exec"), mod.__dict__)  # pylint: disable=exec-used
            sys.modules[name] = mod
            added.append(name)
        exec(compile(src, "<pv>", "exec"), g)  # pylint: disable=exec-used
    except RecursionError:
        return {"kind": "exc", "type": "RecursionError", "msg": ""}
    except Exception as e:  # pylint: disable=broad-except
        return exc_obs(e)
    finally:
        for name in added:
            sys.modules.pop(name, None)
    return {"kind": "ok", "R": canon(g.get("R", {"o": "unset"}))}


async def run_ps(new_interp, src, modules=None, pyscript_dir=None):
    """real pyscript: helper modules are real files under <config>/pyscript/modules, loaded by the real
    GlobalContext.module_import when the script's import statement runs"""
    import os

    from custom_components.pyscript.global_ctx import GlobalContextMgr

    a, _gc = new_interp("pvc03")
    paths = []
    try:
        for name, msrc in (modules or {}).items():
            os.makedirs(os.path.join(pyscript_dir, "modules"), exist_ok=True)
            path = os.path.join(pyscript_dir, "modules", name + ".py")
            with open(path, "w", encoding="utf-8") as f:
                f.write(msrc)
            paths.append((name, path))
        a.parse(src)
        await a.eval()
    except RecursionError:
        return {"kind": "exc", "type": "RecursionError", "msg": ""}, a
    except Exception as e:  # pylint: disable=broad-except
        return exc_obs(e), a
    finally:
        for name, path in paths:
            try:
                os.unlink(path)
            except OSError:
                pass
            if GlobalContextMgr.get("modules." + name):
                GlobalContextMgr.delete("modules." + name)
    return {"kind": "ok", "R": canon(a.global_sym_table.get("R", {"o": "unset"}))}, a


# ---------------------------------------------------------------------------------------------
# static analysis observations
# ---------------------------------------------------------------------------------------------
def find_func(tree, name):
    """first (pre-order) function definition with that name, at any nesting depth"""
    todo = [tree]
    while todo:
        node = todo.pop(0)
        if isinstance(node, (ast.FunctionDef, ast.AsyncFunctionDef)) and node.name == name:
            return node
        todo = list(ast.iter_child_nodes(node)) + todo
    raise ValueError(f"no function {name}")


async def ps_static(new_interp, src, func):
    """The sets EvalFunc.resolve_nonlocals works with, computed by the real get_names on the real AST nodes."""
    a, _gc = new_interp("pvc03s")
    a.parse(src)
    fd = find_func(a.ast, func)
    nonlocal_names, global_names, local_names = set(), set(), set()
    names = set()
    try:
        for stmt in fd.body:
            names |= await a.get_names(stmt, nonlocal_names=nonlocal_names, global_names=global_names,
                                       local_names=local_names)
    except Exception as e:  # pylint: disable=broad-except
        return {"error": type(e).__name__}
    return {"names": sorted(names), "local": sorted(local_names), "global": sorted(global_names),
            "nonlocal": sorted(nonlocal_names)}


try:
    import _symtable
    DEF_COMP_ITER = getattr(_symtable, "DEF_COMP_ITER", 2 << 8)
except ImportError:  # pragma: no cover
    DEF_COMP_ITER = 2 << 8


def py_static(src, func):
    """CPython's symbol table for the same function: names bound in the function block, split by declaration."""
    try:
        top = symtable.symtable(src, "<pv>", "exec")
    except SyntaxError as e:
        return {"error": "SyntaxError", "msg": str(e)[:100]}
    todo = [top]
    while todo:
        ch = todo.pop(0)
        todo = list(ch.get_children()) + todo
        if ch.get_name() == func and ch.get_type() == "function":
            loc, glo, nonl, params = [], [], [], []
            for s in ch.get_symbols():
                if s.is_parameter():
                    params.append(s.get_name())
                if s.is_declared_global():
                    glo.append(s.get_name())
                elif s.is_nonlocal():
                    nonl.append(s.get_name())
                elif s.is_local() and not s.is_parameter() and not (s._Symbol__flags & DEF_COMP_ITER):  # pylint: disable=protected-access
                    # is_local(): bound in this block (assigned/imported/def/class/del/walrus/except-as ...).
                    # Python 3.12 inlines comprehensions (PEP 709) and then lists their loop variables among the
                    # function's symbols, flagged DEF_COMP_ITER; they are not bindings of the function block.
                    loc.append(s.get_name())
            return {"local": sorted(loc), "global": sorted(glo), "nonlocal": sorted(nonl), "params": sorted(params)}
    return {"error": "nofunc"}


# ---------------------------------------------------------------------------------------------
# op "trace": mini-language programs (coq/Interp/Closure.v); `tr` is a native tracer, the observation is the log and the
# module's final global table in insertion order
# ---------------------------------------------------------------------------------------------
def _tracer():
    log = []

    def tr(v):
        log.append(v if isinstance(v, int) and not isinstance(v, bool) else None)
        return v

    return log, tr


def _obs_globals(table):
    out = []
    for k, v in table.items():
        if k in ("tr", "__builtins__") or k.startswith("__"):
            continue
        if hasattr(v, "get") and type(v).__name__ == "EvalLocalVar":
            v = v.get()
        if isinstance(v, bool):
            out.append([k, "other"])
        elif isinstance(v, int):
            out.append([k, v])
        elif v is None:
            out.append([k, None])
        elif callable(v):
            out.append([k, "fn"])
        else:
            out.append([k, "other"])
    return out


async def trace_case(new_interp, src):
    res = {}
    log, tr = _tracer()
    a, _gc = new_interp("pvc03t", {"tr": tr})
    try:
        a.parse(src)
        await a.eval()
        res["ps"] = {"kind": "ok", "trace": list(log), "globals": _obs_globals(a.global_sym_table)}
    except RecursionError:
        res["ps"] = {"kind": "exc", "type": "RecursionError"}
    except Exception as e:  # pylint: disable=broad-except
        res["ps"] = exc_obs(e)
    log, tr = _tracer()
    g = {"tr": tr}
    try:
        exec(compile(src, "<pv>", "exec"), g)  # pylint: disable=exec-used
        res["py"] = {"kind": "ok", "trace": list(log), "globals": _obs_globals(g)}
    except RecursionError:
        res["py"] = {"kind": "exc", "type": "RecursionError"}
    except Exception as e:  # pylint: disable=broad-except
        res["py"] = exc_obs(e)
    return res


async def main():
    from pytest_homeassistant_custom_component.common import async_test_home_assistant

    from vh.hassenv import interp_env_setup, new_interp, reset_pyscript_class_state

    req = json.loads(sys.stdin.read())
    sys.setrecursionlimit(3000)
    out = []
    tmp = tempfile.mkdtemp(prefix="pv_c03_", dir="/var/tmp")
    try:
        async with async_test_home_assistant(config_dir=tmp) as hass:
            reset_pyscript_class_state()
            interp_env_setup(hass, allow_all_imports=True)
            from custom_components.pyscript.const import CONFIG_ENTRY, DOMAIN
            from custom_components.pyscript.decorator import DecoratorRegistry

            legacy = False
            pdir = hass.config.path("pyscript")
            for case in req["cases"]:
                src = case["src"]
                if req["op"] == "trace":
                    out.append(await trace_case(new_interp, src))
                    continue
                if bool(case.get("legacy", False)) != legacy:
                    # switch the decorator subsystem: legacy_decorators true = registry empty (trigger.py path)
                    legacy = bool(case.get("legacy", False))
                    interp_env_setup(hass, allow_all_imports=True, legacy=legacy)
                    DecoratorRegistry.init(hass, hass.data[DOMAIN][CONFIG_ENTRY])
                ps, _a = await run_ps(new_interp, src, case.get("modules"), pdir)
                ob = {"ps": ps, "py": run_py(src, case.get("modules"))}
                if req["op"] == "scope":
                    ob["ps_static"] = await ps_static(new_interp, src, case["func"])
                    ob["py_static"] = py_static(src, case["func"])
                out.append(ob)
            await hass.async_stop(force=True)
    finally:
        shutil.rmtree(tmp, ignore_errors=True)
    print("RESULT " + json.dumps(out))


if __name__ == "__main__":
    asyncio.run(main())
