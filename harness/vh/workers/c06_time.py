"""Worker for C06: the real TrigTime.timer_trigger_next / parse_date_time inside a real HomeAssistant whose time zone is
set through hass.config, and real @time_trigger functions on the virtual clock.  stdin JSON -> 'RESULT <json>'."""
import asyncio
import datetime as dt
import json
import shutil
import sys
import tempfile

from vh.hassenv import START, PyscriptEnv, interp_env_setup, run_virtual

EPOCH = dt.datetime(1970, 1, 1)
US = dt.timedelta(microseconds=1)
NYC = (40.7128, -74.0060)


def to_us(d):
    return (d - EPOCH) // US


def from_us(n):
    return EPOCH + dt.timedelta(microseconds=n)


class SunRecorder:
    """Stands in for homeassistant.helpers.sun inside pyscript's trigger module: hands out the real astral location
    wrapped so that every sunrise/sunset value the real code receives is also recorded (passed to the Model as data)."""

    def __init__(self, real):
        self._real = real
        self.table = []

    def __getattr__(self, name):
        return getattr(self._real, name)

    def get_astral_location(self, hass):
        loc = self._real.get_astral_location(hass)
        if isinstance(loc, tuple):
            loc = loc[0]
        rec = self

        class Loc:
            def sunrise(self, date, *a, **k):
                return rec._call(loc.sunrise, date, False, a, k)

            def sunset(self, date, *a, **k):
                return rec._call(loc.sunset, date, True, a, k)

        return Loc()

    def _call(self, fn, date, is_set, a, k):
        day = (date - dt.date(1970, 1, 1)).days
        try:
            val = fn(date, *a, **k)
        except Exception:
            self.table.append([day, is_set, None])
            raise
        inst = dt.datetime(val.year, val.month, val.day, val.hour, val.minute, val.second)
        self.table.append([day, is_set, to_us(inst)])
        return val


async def do_next(req):
    from pytest_homeassistant_custom_component.common import async_test_home_assistant

    from custom_components.pyscript import trigger

    tmp = tempfile.mkdtemp(prefix="pv_c06_", dir="/var/tmp")
    out = []
    try:
        async with async_test_home_assistant(config_dir=tmp) as hass:
            await hass.config.async_set_time_zone(req["tz"])
            hass.config.latitude, hass.config.longitude = NYC
            interp_env_setup(hass)
            rec = SunRecorder(trigger.sun)
            trigger.sun = rec
            try:
                for case in req["cases"]:
                    rec.table = []
                    specs = case["specs"]
                    arg = specs[0] if (len(specs) == 1 and case["now"] % 2 == 0) else list(specs)
                    try:
                        t, adj = await trigger.TrigTime.timer_trigger_next(arg, from_us(case["now"]), from_us(case["su"]))
                        o = {"kind": "res", "t": None if t is None else to_us(t), "adj": None if adj is None else to_us(adj)}
                    except Exception as exc:  # pylint: disable=broad-except
                        o = {"kind": "exc", "exc": f"{type(exc).__name__}: {exc}", "t": None, "adj": None}
                    o["sun"] = rec.table
                    out.append(o)
            finally:
                trigger.sun = rec._real
            await hass.async_stop(force=True)
    finally:
        shutil.rmtree(tmp, ignore_errors=True)
    return out


def main():
    req = json.loads(sys.stdin.read())
    if req["op"] == "next":
        res = run_virtual(do_next(req))
    else:
        from vh.workers import c06_run

        res = c06_run.run_all(req)
    print("RESULT " + json.dumps(res))


if __name__ == "__main__":
    main()
