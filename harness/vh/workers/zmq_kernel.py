"""Worker: drive the real Jupyter Kernel (shell_listen / iopub_listen / housekeep_run) over in-memory streams.

stdin: {"sessions": [ {"key": str, "reqs": [ {...request spec...} ]} ]}
stdout: RESULT [ per session: {"groups": [[out,...] per request], "executed": n, "reqs": [ {wire, json_ok} ], "tbl": [[frames, digest]]} ]
Everything written by the kernel is decoded here with an independent ZMTP/wire decoder.
"""
import asyncio
import contextlib
import hashlib
import hmac
import json
import logging
import shutil
import sys
import tempfile

from vh.hassenv import interp_env_setup, reset_pyscript_class_state, run_virtual, settle

DELIM = b"<IDS|MSG>"
GREETING = b"\xff" + b"\x00" * 8 + b"\x7f" + b"\x03" + b"\x00NULL" + b"\x00" * 16 + b"\x00" + b"\x00" * 31


class LogWriter:
    """Recording stand-in for asyncio.StreamWriter.  Like the real one, drain() on a connection that was closed raises
    ConnectionResetError (StreamWriter.drain -> FlowControlMixin._drain_helper after connection_lost)."""

    def __init__(self, chan, log, slow=0, stall=None):
        self.chan = chan
        self.log = log
        self.closed = False
        self.slow = slow          # extra event-loop turns every drain() takes (a back-pressured transport)
        self.stall = stall        # (w, m): the drain() after the w-th write takes m turns (a transiently full send buffer)
        self.nwrites = 0

    def write(self, data):
        if not self.closed:
            self.log.append((self.chan, bytes(data)))
            self.nwrites += 1

    async def drain(self):
        turns = 1 + self.slow
        if self.stall and self.nwrites == self.stall[0]:
            turns += self.stall[1]
        if self.stall and isinstance(self.stall[0], str) and self.log and self.log[-1][0] == self.chan \
                and (b'"msg_type": "' + self.stall[0].encode() + b'"') in self.log[-1][1]:
            turns += self.stall[1]        # the send buffer fills up right after a message of that type
        for _ in range(turns):
            await asyncio.sleep(0)
        if self.closed:
            raise ConnectionResetError("Connection lost")

    def close(self):
        self.closed = True


class Reassembler:
    """Turns the sequence of writes of one channel into complete multipart messages, whatever the write granularity:
    a message is emitted at the position of the write that completes it."""

    def __init__(self):
        self.buf = b""

    def feed(self, raw):
        self.buf += raw
        out = []
        while True:
            msg, used = self._take()
            if msg is None:
                break
            out.append(self.buf[:used])
            self.buf = self.buf[used:]
        return out

    def _take(self):
        pos = 0
        b = self.buf
        while True:
            if pos >= len(b):
                return None, 0
            flag = b[pos]
            if flag & 2:
                if pos + 9 > len(b):
                    return None, 0
                n = int.from_bytes(b[pos + 1 : pos + 9], "big")
                pos += 9
            else:
                if pos + 2 > len(b):
                    return None, 0
                n = b[pos + 1]
                pos += 2
            if pos + n > len(b):
                return None, 0
            pos += n
            if not flag & 1:
                return True, pos


def zmtp_encode(parts):
    raw = b""
    for i, p in enumerate(parts):
        more = 1 if i < len(parts) - 1 else 0
        if len(p) <= 255:
            raw += bytes([more, len(p)]) + p
        else:
            raw += bytes([more | 2]) + len(p).to_bytes(8, "big") + p
    return raw


def zmtp_decode(raw):
    """bytes of one write -> list of frames, or None if it is not a data message (greeting/command)."""
    parts = []
    pos = 0
    try:
        while pos < len(raw):
            flag = raw[pos]
            if flag & 0xF8:
                return None
            if flag & 2:
                n = int.from_bytes(raw[pos + 1 : pos + 9], "big")
                pos += 9
            else:
                n = raw[pos + 1]
                pos += 2
            body = raw[pos : pos + n]
            if len(body) != n:
                return None
            pos += n
            if flag & 4:
                return None
            parts.append(body)
            if not flag & 1:
                break
        if pos != len(raw):
            return None
        return parts
    except IndexError:
        return None


def sign(key, frames):
    h = hmac.HMAC(key, digestmod=hashlib.sha256)
    for f in frames:
        h.update(f)
    return h.hexdigest().encode()


def classify(header, content):
    t = header.get("msg_type")
    if t == "status":
        return {"busy": "MStatusBusy", "idle": "MStatusIdle"}.get(content.get("execution_state"), "MOther")
    if t == "execute_reply":
        return {"ok": "MExecuteReplyOk", "error": "MExecuteReplyErr"}.get(content.get("status"), "MOther")
    return {
        "execute_input": "MExecuteInput", "execute_result": "MExecuteResult", "error": "MError", "stream": "MStream",
        "kernel_info_reply": "MKernelInfoReply", "complete_reply": "MCompleteReply", "is_complete_reply": "MIsCompleteReply",
        "comm_info_reply": "MCommInfoReply", "history_reply": "MHistoryReply",
    }.get(t, "MOther")


def decode_out(chan, raw, key, req_header):
    parts = zmtp_decode(raw)
    if parts is None or DELIM not in parts:
        return {"chan": chan, "type": "MOther", "ids": [], "sig_ok": False, "parent_ok": False, "count": None, "undecodable": True}
    i = parts.index(DELIM)
    if len(parts) < i + 6:
        return {"chan": chan, "type": "MOther", "ids": [], "sig_ok": False, "parent_ok": False, "count": None, "undecodable": True}
    ids, sig, frames = parts[:i], parts[i + 1], parts[i + 2 :]
    try:
        header, parent, _meta, content = (json.loads(f.decode()) for f in frames[:4])
    except Exception:  # pylint: disable=broad-except
        return {"chan": chan, "type": "MOther", "ids": [list(x) for x in ids], "sig_ok": False, "parent_ok": False, "count": None}
    return {
        "chan": chan,
        "type": classify(header, content),
        "ids": [list(x) for x in ids],
        "sig_ok": sign(key, frames) == sig,
        "parent_ok": parent == req_header,
        "count": content.get("execution_count") if isinstance(content, dict) else None,
    }


def build_request(spec, key, n):
    """-> (wire frames, header dict, json_ok)"""
    header = {"msg_id": f"m{n}-{spec['nonce']}", "username": "u", "session": "s1", "msg_type": spec["msg_type"],
              "version": "5.3", "date": "2024-03-04T12:00:00"}
    content = dict(spec.get("content", {}))
    frames = [json.dumps(header).encode(), b"{}", b"{}", json.dumps(content).encode()] + [bytes(b) for b in spec.get("extra_frames", [])]
    sig = sign((spec.get("sign_key") or key).encode(), frames)
    ids = [bytes(b) for b in spec.get("ids", [[105, 100]])]
    wire = ids + [DELIM, sig] + frames
    for mut in spec.get("mutations", []):
        kind = mut[0]
        if kind == "flip":  # ["flip", frame_index, byte_index, bit]
            _, fi, bi, bit = mut
            if fi < len(wire) and wire[fi]:
                b = bytearray(wire[fi])
                bi %= len(b)
                b[bi] ^= 1 << bit
                wire[fi] = bytes(b)
        elif kind in ("sigcut", "sigext") and DELIM in wire:  # signature frame shortened / extended
            si = wire.index(DELIM) + 1
            if si < len(wire):
                wire[si] = wire[si][: mut[1]] if kind == "sigcut" else wire[si] + bytes(mut[1])
        elif kind == "drop":  # ["drop", frame_index]
            if mut[1] < len(wire):
                del wire[mut[1]]
        elif kind == "trunc":  # ["trunc", n_frames_kept]
            wire = wire[: max(1, mut[1])]
    json_ok = True
    if DELIM in wire:
        fr = wire[wire.index(DELIM) + 2 :]
        try:
            for f in fr[:4]:
                json.loads(f.decode("utf-8"))
        except Exception:  # pylint: disable=broad-except
            json_ok = False
    return wire, header, json_ok


async def reference_handshake(sock_type):
    """The bytes a ZmqSocket of this type writes during its handshake (measured, not hard-coded)."""
    from custom_components.pyscript.jupyter_kernel import ZmqSocket

    r = asyncio.StreamReader()
    r.feed_data(GREETING)
    log = []
    await ZmqSocket(r, LogWriter("x", log), sock_type).handshake()
    return b"".join(raw for _c, raw in log)


async def run_session(hass, sess, idx):
    from custom_components.pyscript.eval import AstEval
    from custom_components.pyscript.function import Function
    from custom_components.pyscript.global_ctx import GlobalContext, GlobalContextMgr
    from custom_components.pyscript.jupyter_kernel import Kernel

    key = sess["key"]
    name = f"jupyter_{idx}"
    pv_log = []
    gctx = GlobalContext(name, global_sym_table={"__name__": name, "pv_log": pv_log}, manager=GlobalContextMgr)
    gctx.set_auto_start(True)
    GlobalContextMgr.set(name, gctx)
    ast_ctx = AstEval(name, gctx)
    Function.install_ast_funcs(ast_ctx)
    kernel = Kernel({"key": key, "signature_scheme": "hmac-sha256"}, ast_ctx, gctx, name)
    ast_ctx.add_logger_handler(kernel.console)
    ast_ctx.get_logger().setLevel(logging.DEBUG)
    log = []
    shell_r, iopub_r = asyncio.StreamReader(), asyncio.StreamReader()
    shell_r.feed_data(GREETING)
    iopub_r.feed_data(GREETING)
    tasks = [
        asyncio.ensure_future(kernel.housekeep_run()),
        asyncio.ensure_future(kernel.iopub_listen(iopub_r, LogWriter("ChIopub", log, slow=sess.get("slow1", 0), stall=sess.get("stall1")))),
        asyncio.ensure_future(kernel.shell_listen(shell_r, LogWriter("ChShell", log))),
    ]
    # optional second iopub subscriber (its messages are logged separately); it may disconnect during the session
    log2 = []
    iopub2_r = None
    late = list(sess.get("second_sub_late") or [])   # request indices before which the next greeting piece arrives
    pieces = [GREETING[:10], GREETING[10:11], GREETING[11:]]
    hs_ref = b""
    if sess.get("second_sub"):
        iopub2_r = asyncio.StreamReader()
        if late:
            hs_ref = await reference_handshake("PUB")
        else:
            iopub2_r.feed_data(GREETING)
        tasks.append(asyncio.ensure_future(kernel.iopub_listen(iopub2_r, LogWriter("ChIopub", log2, slow=sess.get("slow2", 0), stall=sess.get("stall2")))))
    await settle()
    start = len(log)
    start2 = len(log2)
    asm = {"ChShell": Reassembler(), "ChIopub": Reassembler()}
    asm2 = Reassembler()
    second_ok = True
    groups, reqs, tbl = [], [], []
    for n, spec in enumerate(sess["reqs"]):
        while late and late[0] <= n and pieces and iopub2_r is not None:
            late.pop(0)
            iopub2_r.feed_data(pieces.pop(0))     # the slow second subscriber sends the next part of its greeting
            await settle()
        if iopub2_r is not None and sess.get("second_sub_leaves_before") == n:
            iopub2_r.feed_eof()      # the second subscriber closes its connection
            await settle()
            iopub2_r = None
        wire, header, json_ok = build_request(spec, key, n)
        frames = wire[wire.index(DELIM) + 2 :] if DELIM in wire else []
        if frames:
            tbl.append([[list(f) for f in frames], list(sign(key.encode(), frames))])
        reqs.append({"wire": [list(f) for f in wire], "json_ok": json_ok})
        shell_r.feed_data(zmtp_encode(wire))
        await settle()
        new = log[start:]
        start = len(log)
        grp = [decode_out(ch, msg, key.encode(), header) for ch, raw in new for msg in asm[ch].feed(raw)]
        if iopub2_r is not None and hs_ref and pieces:
            # still shaking hands: everything written to it so far must be a prefix of the handshake, nothing else
            sofar = b"".join(raw for _c, raw in log2)
            start2 = len(log2)
            if not hs_ref.startswith(sofar):
                second_ok = False
                grp.append({"chan": "ChIopub", "type": "MOther", "ids": [], "sig_ok": False, "parent_ok": False, "count": None,
                            "second_subscriber_handshake_corrupted": True})
        elif iopub2_r is not None:
            # while connected, the second subscriber must receive exactly the broadcasts the first one receives
            raw2 = log2[start2:]
            if hs_ref:
                # strip what remains of the handshake output (written when the last greeting piece arrived)
                sofar = b"".join(raw for _c, raw in log2)
                if not sofar.startswith(hs_ref):
                    raw2 = [("ChIopub", b"\xff")]       # undecodable on purpose: handshake output corrupted
                else:
                    done = len(b"".join(raw for _c, raw in log2[:start2]))
                    cutoff = max(0, len(hs_ref) - done)
                    joined = b"".join(raw for _c, raw in raw2)[cutoff:]
                    raw2 = [("ChIopub", joined)] if joined else []
                    hs_ref_done = True
            new2 = [decode_out(ch, msg, key.encode(), header) for ch, raw in raw2 for msg in asm2.feed(raw)]
            start2 = len(log2)
            if hs_ref and len(b"".join(raw for _c, raw in log2[:start2])) >= len(hs_ref):
                hs_ref = b""                                 # handshake fully accounted for
            first = [o for o in grp if o["chan"] == "ChIopub"]
            nostream = lambda l: [o for o in l if o["type"] != "MStream"]  # noqa: E731
            streams = lambda l: [o for o in l if o["type"] == "MStream"]  # noqa: E731
            # both subscribers get the same broadcasts; stdout stream messages come from the house-keeping task, so only
            # their number and "before the closing idle" are fixed, not their position relative to the other messages
            same = (nostream(new2) == nostream(first) and streams(new2) == streams(first)
                    and not (new2 and new2[-1]["type"] == "MStream"))
            if not same:
                second_ok = False
                grp.append({"chan": "ChIopub", "type": "MOther", "ids": [], "sig_ok": False, "parent_ok": False, "count": None,
                            "second_subscriber_differs": True})
        groups.append(grp)
    for t in tasks:
        t.cancel()
    for t in tasks:
        with contextlib.suppress(BaseException):
            await t
    with contextlib.suppress(Exception):
        ast_ctx.remove_logger_handler(kernel.console)
    with contextlib.suppress(Exception):
        GlobalContextMgr.delete(name)
    await settle()
    return {"groups": groups, "executed": len(pv_log), "executed_ids": list(pv_log), "reqs": reqs, "tbl": tbl}


async def main_async(req):
    from pytest_homeassistant_custom_component.common import async_test_home_assistant

    tmp = tempfile.mkdtemp(prefix="pv_k_", dir="/var/tmp")
    out = []
    try:
        reset_pyscript_class_state()
        async with async_test_home_assistant(config_dir=tmp) as hass:
            interp_env_setup(hass)
            for i, sess in enumerate(req["sessions"]):
                out.append(await run_session(hass, sess, i))
            await hass.async_stop(force=True)
    finally:
        shutil.rmtree(tmp, ignore_errors=True)
    return out


def main():
    req = json.loads(sys.stdin.read())
    logging.getLogger().setLevel(logging.CRITICAL)
    res = run_virtual(main_async(req))
    print("RESULT " + json.dumps(res))


main()
